#!/bin/sh
# runs every registered check once (quick by default) on the current /repo tree; prints one line per property.   usage: ./tools_run_all.sh [quick|thorough] [seed]
cd "$(dirname "$0")" || exit 2
TIER=${1:-quick}; SEED=${2:-0}
for id in C01 C02 C03 C04 C05 C06 C07 C08 C09 C10 C11 C12 C13 C14 C15 C16 C17 C18 C19 C20; do
  VERIF_SEED=$SEED ./check $id --tier $TIER > /tmp/larkverif_runall_$id.log 2>&1; rc=$?
  echo "$id rc=$rc $(grep -v WARNING /tmp/larkverif_runall_$id.log | grep -v KNOWN-FINDING | tail -1 | cut -c1-170)"
done
