#!/bin/bash
# usage: tools_matrix.sh <out.tsv> <own|all|"C03 C09 ..."> <seeded-dir-name>...
# Applies each seeded change to /repo (git apply), runs the chosen checks (quick tier), undoes it (git checkout -- . ; git clean), and finally re-runs ./check --setup.
# Nothing is ever committed to /repo.  One line per (change, check): id  check  rc  summary
out=$1; which=$2; shift 2
cd /verif
for m in "$@"; do
  d=/verif/seeded/$m
  [ -f $d/patch.diff ] || { echo "$m - NA no patch" >> $out; continue; }
  if ! git -C /repo apply $d/patch.diff 2>/dev/null; then echo -e "$m\t-\tNA\tpatch does not apply" >> $out; continue; fi
  prop=$(echo $m | cut -c1-3)
  case "$which" in own) checks=$prop;; all) checks=$(for i in $(seq -w 1 20); do echo C$i; done);; *) checks=$which;; esac
  for c in $checks; do
    log=$(timeout 1500 ./check $c 2>&1); rc=$?
    echo -e "$m\t$c\t$rc\t$(echo "$log" | grep -E "^VIOLATION|quick seed" | head -2 | tr '\n' ' ' | cut -c1-300)" >> $out
  done
  git -C /repo checkout -- . ; git -C /repo clean -fdq lark 2>/dev/null
done
git -C /repo status --porcelain | grep -v '^??' >> $out
./check --setup > /dev/null 2>&1
echo "DONE" >> $out
