"""Per-property table: Lean modules and theorems that are its proof obligations, fingerprints of the source
functions its model mirrors, and the texts that go into evidence.  (MANIFEST.json is generated from this table by
harness/mkmanifest.py.)"""

PROPS = {}

def prop(pid, **kw):
    PROPS[pid] = kw

prop('C09',
     modules=['LarkVerif.Basic', 'LarkVerif.Repeat', 'LarkVerif.Props.C09', 'LarkVerif.Extracted'],
     theorems=['Props.C09.threshold_ok', 'Props.C09.small_factors_exact', 'Props.C09.repeat_counts', 'Props.C09.repeat_exact',
               'Props.C09.plus_counts', 'Props.C09.star_counts', 'Props.C09.opt_counts', 'Proto.genTree_counts', 'Proto.smallFactors_pos'],
     fingerprints=['lark/utils.py:small_factors', 'lark/load_grammar.py:EBNF_to_BNF._add_repeat_rule', 'lark/load_grammar.py:EBNF_to_BNF._add_repeat_opt_rule',
                   'lark/load_grammar.py:EBNF_to_BNF._generate_repeats', 'lark/load_grammar.py:EBNF_to_BNF.expr', 'lark/load_grammar.py:EBNF_to_BNF._add_rule', 'lark/load_grammar.py:EBNF_to_BNF._add_recurse_rule', 'lark/load_grammar.py:SimplifyRule_Visitor.expansion'],
     rule='EBNF level: repetition-heavy grammar ASTs (bounds around the break threshold, repeated groups with alternatives) vs their explicit expansion into helper rules. (a) small_factors(n, f) of the real code vs the Lean smallFactors for every n below a bound and f in 3..9; (b) the helper-rule tree the real '
          'EBNF_to_BNF._generate_repeats builds vs the Lean genTree (the function repeat_counts is about) for (mn, mx) pairs; (c) end to end: grammars '
          'x~mn..mx / x? / x* / x+ with x a terminal, rule, group or template argument, rule side and terminal side, Earley and LALR, parsed on k '
          'repetitions for k around the bounds: accepted iff the theorem says k is in range, and exactly k consecutive children without helper nodes. '
          'A case is non-trivial when its bounds reach the factored branch (mx >= REPEAT_BREAK_THRESHOLD) or it is an end-to-end parse; distinct by canonical hash. Terminal side: repeated sequences with alternation groups and literal brackets. Rule side: several operators on one item side by side (A? A~0..2, A~1..3 A~1..3, (A?)~60, ...) must build and match exactly the counts between the sums of the bounds.',
     not_proved=['terminal side: that the regex quantifier {n,m} produced by TerminalTreeToPattern.expr matches n..m occurrences is a property of Python re (parameter); checked end to end only',
                 'that helper rules are invisible in the tree follows from C03 buildList_eq_shapeList (helper names start with "_"); the naming itself is checked by correspondence'],
     assumptions=['the regex engine implements {n,m} quantifiers as counted repetition'],
     level_text='Theorem repeat_counts: for all 0<=mn<=mx the helper-rule tree computed by the Lean mirror of _generate_repeats (thresholds extracted from the source on every run, side '
                'condition by decide) matches exactly mn..mx occurrences; small_factors_exact for all n. Tie to the code: the real small_factors and the real helper rules are compared '
                'structurally with the Lean functions on every run, and grammars are parsed end to end around the bounds.',
     level_note='Trusted: Lean kernel, standard axioms, extractor + harness. Modelled not verified: the grammar front end that calls _generate_repeats, Python re for the terminal side.',
     technique='Lean 4 theorem (induction over factor lists) about an executable mirror of _generate_repeats + structural correspondence with the real helper rules',
     design_ref='DESIGN.md §5 C09')

prop('C06',
     modules=['LarkVerif.LineCounter', 'LarkVerif.Shape', 'LarkVerif.Positions', 'LarkVerif.Props.C06'],
     theorems=['Props.C06.token_stamp_exact', 'Props.C06.lexer_loop_exact', 'Props.C06.dynamic_stamp_exact', 'Props.C06.window_start_exact', 'Props.C06.tree_meta_exact',
               'LCProto.feed_exact', 'LCProto.advanceTo_exact', 'LCProto.resume_exact', 'LCProto.dynAt_eq_coord', 'PosProto.evalP_inv', 'PosProto.metas_exact'],
     fingerprints=['lark/lexer.py:LineCounter.feed', 'lark/lexer.py:LineCounter.advance_to', 'lark/lexer.py:LineCounter.from_text_slice', 'lark/lexer.py:BasicLexer.next_token',
                   'lark/lexer.py:BasicLexer.__init__', 'lark/parsers/xearley.py:Parser._parse', 'lark/parse_tree_builder.py:PropagatePositions.__call__', 'lark/parse_tree_builder.py:PropagatePositions._pp_get_meta',
                   'lark/parse_tree_builder.py:ChildFilter.__call__', 'lark/parse_tree_builder.py:ExpandSingleChild.__call__'],
     rule='(a) the real LineCounter under random feed(token, flag)/advance_to sequences vs the Lean feed/advanceTo; (b) random terminal sets drawn from a table of regex spellings '
          '(literals, classes, negated classes, \\W \\D \\s, ranges, octal/hex/unicode escapes, inline and trailing flags) x random texts with newlines x '
          '{lalr/basic, lalr/contextual, earley/basic, earley/dynamic, earley/dynamic_complete} x str/bytes: every token of every result (and of Lark.lex) must satisfy '
          'text[start:end]==token and carry the stamp the Lean model computes for its span (proved equal to the source coordinates); the hypothesis of the theorem '
          '(terminals outside newline_types are newline-free strings) is evaluated on every generated lexer; (c) tree meta: raw derivations extracted from every engine on feature-rich grammars '
          '(C03 stream with newline-bearing %ignore, propagate_positions=True) are fed, with the real tokens\' offsets, to the Lean model of PropagatePositions (Positions.lean, on top of the shape model): '
          'the meta of every Tree of the real result must equal the span of what its rule matched (property) and what the model computes (correspondence); the theorem\'s hypothesis cleanB '
          '(= outside finding F19) is evaluated by the driver per derivation, and inside that region the real metas must be exactly the model\'s. Non-trivial = the text contains a newline; distinct by canonical hash.',
     not_proved=['tree_meta_exact speaks of trees whose rule matched at least one token (the property\'s "non-empty" nodes); a tree that matched nothing may be handed the span of the ?rule that inlined it (model and code agree)',
                 'line/column of a meta are the token\'s own line/column at that offset (token half of the property); the model works on offsets'],
     assumptions=['str.count / str.rindex behave as specified', 'a PatternStr without a newline cannot match one'],
     level_text='Theorems token_stamp_exact / lexer_loop_exact / dynamic_stamp_exact: for every text and tiling the stamps written by the (modelled) lexer loop are exactly the 1-based '
                'source coordinates, provided terminals outside newline_types cannot match a newline. The model functions are run against the real LineCounter and against every token the real '
                'lexers produce on random terminal sets and texts; the hypothesis is evaluated on the real lexer objects. Theorem tree_meta_exact: for every derivation outside the decidable region of finding F19, '
                'the callback chain ChildFilter/ExpandSingleChild/PropagatePositions gives every non-empty tree exactly the span of what its rule matched, and containers the span of the returning derivation; '
                'the executable model is run against Tree.meta of every engine.',
     level_note='Trusted: Lean kernel, standard axioms, harness (incl. the raw-derivation extraction). Modelled not verified: Python re (which text a terminal matches), str.count/rindex, attribute protocol of Meta (hasattr/getattr).',
     technique='Lean 4 invariant proofs (LineCounter lexer loop; PropagatePositions over derivations) + differential correspondence on real tokens and Tree.meta',
     design_ref='DESIGN.md §5 C06')

prop('C18',
     modules=['LarkVerif.Indenter', 'LarkVerif.IndenterRef', 'LarkVerif.Props.C18'],
     theorems=['Props.C18.balanced', 'Props.C18.process_resets', 'Props.C18.nl_in_brackets', 'Props.C18.indent_iff', 'Props.C18.handle_nl_is_reference', 'Props.C18.stack_invariant_initially', 'Props.C18.stack_invariant_preserved', 'Props.C18.dedent_error_iff', 'IndProto.processFrom_balance', 'IndProto.popWhile_eq_filter'],
     fingerprints=['lark/indenter.py:Indenter.handle_NL', 'lark/indenter.py:Indenter._process', 'lark/indenter.py:Indenter.process'],
     rule='(a) random histories of 1-4 token streams (newline tokens with space/tab indentation and several physical lines, nested brackets, unmatched closers, '
          'streams abandoned after k outputs, failing streams) processed by ONE real Indenter object (tab_len 8/4/1) vs the Lean model restarted from its initial state '
          'for each stream: emitted INDENT/DEDENT/token sequence, DedentError/AssertionError and the point where it is raised; (b) random source texts lexed through '
          'Lark(postlex=Indenter) vs CPython tokenize (first logical line unindented, spaces only). Non-trivial = the stream contains a newline token; distinct by canonical hash. A quarter of the plain tokens have empty text.',
     not_proved=['the reference algorithm is stated per logical line (handle_nl_is_reference); its agreement with CPython\'s tokenizer itself is compared on generated sources, not proved'],
     assumptions=['str.rsplit/count as specified; tabs count tab_len columns each (lark\'s documented rule, not CPython\'s)'],
     level_text='Theorems: every stream that does not raise has equally many INDENT and DEDENT (for all streams, by induction over the verbatim model of handle_NL/_process/process); process is a '
                'function of the stream alone (state reset); NL inside brackets emits nothing; handle_NL equals the Python language reference\'s stack algorithm (stated with membership and filters) on every reachable stack, DedentError iff the column is not an open level. The model is run against the real Indenter on random '
                'histories of streams on one object, and the real Indenter against CPython tokenize.',
     level_note='Trusted: Lean kernel, standard axioms, harness. Modelled not verified: Token/str methods; CPython tokenize is an extra oracle only.',
     technique='Lean 4 invariant proof over the Indenter state machine + differential correspondence (histories on one object) + CPython tokenize oracle',
     design_ref='DESIGN.md §5 C18')

prop('C07',
     modules=['LarkVerif.Lexer', 'LarkVerif.LexModel', 'LarkVerif.LexTiling', 'LarkVerif.LexEmit', 'LarkVerif.LexCtxTiling', 'LarkVerif.LexFast', 'LarkVerif.Props.C07', 'LarkVerif.Extracted'],
     theorems=['Props.C07.sort_key_is_documented', 'Props.C07.executable_lexer_tiles', 'Props.C07.basic_lexer_emits_the_tiling', 'Props.C07.contextual_lexer_tiles', 'Props.C07.scan_order_sorted', 'Props.C07.lex_tiles', 'Props.C07.chunking_irrelevant', 'Props.C07.contextual_refines_basic',
               'Props.C07.keyword_exception', 'Props.C07.keyword_candidates', 'Props.C07.string_terminals_keep_type', 'LexModel.termLe_trans', 'LexModel.termLe_total'],
     fingerprints=['lark/lexer.py:_create_unless', 'lark/lexer.py:Scanner._build_mres', 'lark/lexer.py:Scanner.match', 'lark/lexer.py:BasicLexer.__init__', 'lark/lexer.py:BasicLexer._build_scanner',
                   'lark/lexer.py:BasicLexer.next_token', 'lark/lexer.py:ContextualLexer.__init__', 'lark/lexer.py:ContextualLexer.lex'],
     rule='random terminal sets (keyword/identifier pairs, prefixes, priorities -1..2, i flags on strings and regexps, ordered alternations, every 25th case with 101-125 extra terminals) in flat '
          'and sequential LALR grammars x 3 texts x str/bytes: (a) Lark.lex token list or UnexpectedCharacters(pos, allowed) vs the Lean model lexBasic; (b) the contextual lexer driven token by token through '
          'parse_interactive, with the terminal set of each parser state recorded, vs lexCtx (incl. the root-lexer retry that turns the error into UnexpectedToken); (c) with at most one regexp terminal: '
          'basic parse ok => contextual parse ok with the same tree. Regex facts come from individually compiled patterns. Non-trivial = two terminals match at one position; distinct by canonical hash. The basic lexer of the saved-and-loaded parser (Lark.save/Lark.load) is compared with the same model; regexps carry i/m/s/x flags. The maximal width of the documented order is computed by the harness from the regexp with its flags (not read from lark\'s Pattern objects); verbose-flag terminals whose layout changes the width.',
     not_proved=['for the contextual variant lexCtx the tiling and the error clause are proved (contextual_lexer_tiles); that a successful basic-lexer parse implies the same tokens under the contextual lexer (non-overlapping regexps) rests on the list lemma contextual_refines_basic plus comparison, because it also involves the parser\'s accept sets'],
     assumptions=['Python re: a top-level alternation picks the first matching branch with that branch\'s own preferred length; sre max_width as computed by lark'],
     level_text='Theorems: the scan order is the documented total order (sorted permutation; key re-extracted from source and compared by decide); the lexer loop tiles the text with first-match pieces up to the end or the '
                'error position; chunking is irrelevant; restricting to a sub-list containing the winner keeps the winner (contextual refines basic); the keyword exception as decision logic. The executable model '
                '(sort, _create_unless, per-state sub-lexers, root retry) is compared token by token with the real basic and contextual lexers.',
     level_note='Trusted: Lean kernel, standard axioms, harness (regex tables from individually compiled patterns). Modelled not verified: Python re.',
     technique='Lean 4 list lemmas + order proof about an executable lexer model; token-level differential correspondence with both real lexers',
     design_ref='DESIGN.md §5 C07')

prop('C01',
     modules=['LarkVerif.Earley', 'LarkVerif.Saturate', 'LarkVerif.EarleyExec', 'LarkVerif.Props.C01'],
     theorems=['Props.C01.accepts_iff_language', 'Props.C01.basic_accept_iff', 'Props.C01.chart_is_deduction', 'Props.C01.chart_sound', 'Props.C01.recogniser_total',
               'EarleyProto.Chart.advance', 'Sat.saturate_closed', 'Sat.saturate_least'],
     fingerprints=['lark/parsers/earley.py:Parser.predict_and_complete', 'lark/parsers/earley.py:Parser._parse', 'lark/parsers/earley.py:Parser.parse', 'lark/parsers/xearley.py:Parser._parse',
                   'lark/parsers/grammar_analysis.py:calculate_sets', 'lark/parsers/grammar_analysis.py:GrammarAnalyzer.expand_rule'],
     rule='random CFGs (1-4 nonterminals, biased to left/right/hidden-left recursion, nullable chains, unit cycles, empty alternatives, %ignore) over string and regexp terminals x '
          '{basic, dynamic, dynamic_complete} x texts (60% sampled sentences, a third of them mutated by delete/insert/truncate/reverse, plus random strings). The Lean recogniser `accepts` runs on the lattice the '
          'PROPERTY prescribes (basic: the token chain; dynamic: longest member prefix per terminal and position; dynamic_complete: every member prefix; built with re.fullmatch on substrings, not with lark\'s '
          'procedure); by accepts_iff its verdict is membership in the language, compared with parse() succeeding; every chart column is also compared with lark\'s columns[i] and to_scan (snapshots through a wrapper on '
          'predict_and_complete). Non-trivial = non-empty text; distinct by canonical hash. Loader stream: a grammar AST rendered as written (anonymous literals incl. punctuation whose automatic names collide with user terminals, unreachable rule chains holding keywords, unused terminals) and as meant (own reachability, explicit names): both must accept the same texts under basic, dynamic and dynamic_complete. The loader stream also carries large ranged repetitions written out on the as-meant side and terminals defined by alternatives (as meant: one terminal per alternative; dynamic_complete only); the removal rule for unused rules is lark\'s own (a rule goes when no other remaining rule mentions it), computed independently. The EBNF desugaring oracle of C03 runs here too.',
     not_proved=['EBNF-to-BNF compilation is outside this model (C09 covers the repetition operators, C03 the shaping); the grammars here are plain BNF plus %ignore',
                 'compile_error_iff_duplicate_alternatives (last sentence of C01) is checked only as "construction of duplicate-free grammars never fails or hangs"'],
     assumptions=['Python re.fullmatch decides membership of a substring in a terminal\'s regular language', 'the terminal pool stays outside known finding F6 (ordered alternation / lazy quantifiers)'],
     level_text='Theorem accepts_iff_language: for every grammar, every well-formed token lattice and start symbol, the executable recogniser accepts iff some lattice path (ignore edges anywhere) spells a sentence '
                '(soundness + completeness, unbounded). The recogniser is total. Its verdict on the property\'s own lattice is compared with the real parser (accept/reject = property-level), and its chart with '
                'lark\'s real columns (model tie).',
     level_note='Trusted: Lean kernel, standard axioms, harness. Modelled not verified: Python re, the basic lexer (C07), EBNF compilation.',
     technique='Lean 4 soundness+completeness proof of an executable lattice-Earley recogniser (saturation fixpoint) + differential correspondence of verdicts and chart columns',
     design_ref='DESIGN.md §5 C01')

prop('C08',
     modules=['LarkVerif.Earley', 'LarkVerif.EarleyExec', 'LarkVerif.EarleyExpected', 'LarkVerif.LR0', 'LarkVerif.LR0Viable', 'LarkVerif.LR', 'LarkVerif.LRError', 'LarkVerif.LRViable', 'LarkVerif.LRComplete', 'LarkVerif.Props.C08'],
     theorems=['Props.C08.earley_viable_prefix_alive', 'Props.C08.earley_expected_backed', 'Props.C08.lalr_viable_prefix_shifts',
               'Props.C08.earley_expected_complete', 'Props.C08.earley_expected_exact', 'Props.C08.earley_expected_needs_productive', 'Props.C08.lalr_shifted_terminal_is_legal', 'Props.C08.lalr_accepted_terminal_is_legal', 'Props.C08.lalr_accepts_are_legal', 'Props.C08.lalr_consumed_is_viable_prefix', 'Props.C08.lalr_consumed_prefix_begins_sentence'],
     fingerprints=['lark/parsers/earley.py:Parser._parse', 'lark/parsers/earley.py:Parser.parse', 'lark/parsers/xearley.py:Parser._parse', 'lark/parsers/lalr_parser_state.py:ParserState.feed_token',
                   'lark/parsers/lalr_interactive_parser.py:InteractiveParser.accepts', 'lark/lexer.py:BasicLexer.next_token', 'lark/lexer.py:ContextualLexer.lex'],
     rule='rejected inputs of the C01 stream (random CFGs x Earley lexers; sampled sentences mutated by delete/insert/truncate/reverse, random strings): the exception class, position (offset, line, column), and the '
          'expected/allowed set must be those of the last non-empty column of the verified chart: dynamic lexers UnexpectedCharacters at that offset with exactly the terminals expected there; basic lexer UnexpectedToken '
          'at that token with a superset; UnexpectedEOF with the final column\'s expectations when the whole text is a viable prefix. LALR: random grammars x token strings, the model LR driver on lark\'s own exported table '
          'gives the index of the offending token; accepts() is compared with trial feeding and must be a subset of expected. Any other exception type or a timeout is a violation. Non-trivial: every rejected case; distinct by hash. Earley grammars carry aliases. LALR: a third of the parsers read their tokens through a post-lexer that re-creates every token with shifted coordinates; an unexpected $END must carry the coordinates of the last token fed.',
     not_proved=['exactness of the dynamic expected set in the direction "every reported terminal can legally come next" is proved for grammars whose rules are all productive (earley_expected_exact; the decidable certificate productiveB is evaluated by the driver on every generated grammar and the split is counted in the distribution); for unproductive grammars it is false of lark and of the chart alike (earley_expected_needs_productive) and only backed-by-a-derivation holds',
                 'the claim that no other exception type escapes is observed on every generated case, not proved'],
     assumptions=['grammars with a post-lexer (Indenter) may raise DedentError and are outside this check (C18)'],
     level_text='Theorems: a lattice prefix that can be extended to a sentence keeps the Earley chart column non-empty (so the error is raised at the first dead position), every chart item is backed by a derivation of the '
                'consumed text, the continuation set of a column contains every terminal that can legally come next (all grammars) and nothing else (productive grammars: exactness, with a verified certificate checker and a counterexample showing the hypothesis is needed), and for any LALR table passing the completeness certificate a viable token prefix is consumed without error. The verified chart / the model LR driver give the expected position and '
                'continuation sets, which are compared with the real exceptions.',
     level_note='Trusted: Lean kernel, standard axioms, harness. Modelled not verified: exception construction (line/column are read from the token / LineCounter: C06).',
     technique='Lean 4 viable-prefix theorems (Earley chart, LALR driver) + differential correspondence of error class, position and continuation sets',
     design_ref='DESIGN.md §5 C08')

prop('C02',
     modules=['LarkVerif.Earley', 'LarkVerif.LR', 'LarkVerif.LR0', 'LarkVerif.LRCheck', 'LarkVerif.LRComplete', 'LarkVerif.FirstSets', 'LarkVerif.LRClosedCheck', 'LarkVerif.LALRTable', 'LarkVerif.Props.C02'],
     theorems=['Props.C02.accepted_is_sentence', 'Props.C02.certified_table_accepts_every_sentence', 'LRProto.checkClosed_sound', 'Props.C02.driver_sound', 'Props.C02.driver_complete', 'Props.C02.error_iff_unresolved_conflict', 'Props.C02.no_winner_iff',
               'Props.C02.shift_wins', 'Props.C02.winner_order_independent', 'LRProto.checkSafe_sound', 'LRProto.viable_prefix_shifts', 'LRProto.firstOf_of_tables',
               'Props.C02.state_is_closure_of_kernel', 'Props.C02.checked_automaton_is_lr0'],
     fingerprints=['lark/parsers/lalr_analysis.py:digraph', 'lark/parsers/lalr_analysis.py:traverse', 'lark/parsers/lalr_analysis.py:LALR_Analyzer.compute_lr0_states',
                   'lark/parsers/lalr_analysis.py:LALR_Analyzer.compute_reads_relations', 'lark/parsers/lalr_analysis.py:LALR_Analyzer.compute_includes_lookback',
                   'lark/parsers/lalr_analysis.py:LALR_Analyzer.compute_lookaheads', 'lark/parsers/lalr_analysis.py:LALR_Analyzer.compute_lalr1_states',
                   'lark/parsers/lalr_parser_state.py:ParserState.feed_token', 'lark/parsers/grammar_analysis.py:calculate_sets'],
     rule='random CFGs (half unconstrained, half LALR-friendly shapes: lists, expression towers, nullable suffixes, shared LR(0) cores, nested recursion; a quarter with rule priorities) -> lark\'s LALR_Analyzer run directly. '
          'Per grammar: (a) the Lean decision logic `build` on lark\'s own per-state lookahead sets must reproduce GrammarError yes/no and every action row; (b) lark\'s lookahead sets vs canonical LR(1) merged by core '
          '(independent oracle) and `build` on those; (c) the compiled driver evaluates on lark\'s own table the soundness certificate checkSafe (=> sound for all inputs) and the completeness certificate checkClosed with lark\'s NULLABLE/FIRST and an item-lookahead annotation (=> every sentence accepted; every conflict-free table must pass, no table with conflicts may). Per token string '
          '(sampled sentences, mutated, random): parse() vs the Lean LR driver on lark\'s table, vs membership decided by the verified Earley recogniser (soundness always, completeness when the grammar has no conflict), '
          'choices()/accepts() after every prefix vs the model row / trial feeding, error token index. Non-trivial: > 3 states or non-empty string; distinct by canonical hash. LR(0) stream: the item sets, kernels and transitions of lark\'s own analyzer are passed to the Lean checker LR0.checkLR0 (every state = closure of its kernel, every transition = advanced kernel, no expected symbol without transition) for every generated grammar, including an indirect-left-recursion shape; when it fails, every sentence of the grammar up to length 7 is parsed in search of a rejected one.',
     not_proved=['that lark\'s DeRemer-Pennello computation yields the LALR(1) lookaheads for all grammars (dp_eq_propagation) is not proved; it is compared per grammar with canonical-LR(1)-merge',
                 'the completeness certificate is evaluated with item lookaheads supplied by the Python LR(1)-merge oracle (untrusted: the verified checker validates them) and lark\'s own NULLABLE/FIRST; tables with conflicts are not certified (completeness is not claimed there)'],
     assumptions=['dict/set iteration order does not matter (winner_order_independent covers the priority choice)'],
     level_text='Theorems: the LR driver accepts only sentences for ANY table passing a local certificate, and lark\'s own table is certified per grammar by the verified checker (checkSafe_sound); it accepts every sentence for any table '
                'closed under the LALR conditions; construction fails iff some lookahead has >= 2 rules without a strict priority winner; shift wins over reduce; the winner is order-independent. Model functions run on lark\'s '
                'exported analyzer state and tables.',
     level_note='Trusted: Lean kernel, standard axioms, harness (export of LALR_Analyzer state). The LR(1)-merge oracle is Python and only searches for failing inputs / cross-checks lookaheads.',
     technique='Lean 4 validator-style proofs (certificate => driver sound/complete) + reflection on lark\'s exported tables + decision-logic theorem for conflict reporting + differential correspondence',
     design_ref='DESIGN.md §5 C02')

prop('C03',
     modules=['LarkVerif.Shape', 'LarkVerif.RuleSize', 'LarkVerif.Extracted', 'LarkVerif.Props.C03'],
     theorems=['Props.C03.built_tree_is_documented_shaping', 'Props.C03.placeholders_in_grammar_order', 'Props.C03.expand1_single', 'Props.C03.alias_never_inlined', 'ShapeProto.applyPlan_eq_spec',
               'Props.C03.placeholder_count_is_longest_alternative', 'Props.C03.nested_placeholder', 'Props.C03.find_rule_size_source_is_modelled'],
     fingerprints=['lark/parse_tree_builder.py:maybe_create_child_filter', 'lark/parse_tree_builder.py:ChildFilter.__call__', 'lark/parse_tree_builder.py:ChildFilterLALR.__call__',
                   'lark/parse_tree_builder.py:ChildFilterLALR_NoPlaceholders.__call__', 'lark/parse_tree_builder.py:ExpandSingleChild.__call__', 'lark/parse_tree_builder.py:ParseTreeBuilder._init_builders',
                   'lark/parse_tree_builder.py:ParseTreeBuilder.create_callback', 'lark/load_grammar.py:EBNF_to_BNF.expr', 'lark/load_grammar.py:EBNF_to_BNF._add_rule', 'lark/load_grammar.py:EBNF_to_BNF.maybe', 'lark/load_grammar.py:FindRuleSize._will_not_get_removed',
                   'lark/load_grammar.py:FindRuleSize._args_as_int', 'lark/load_grammar.py:FindRuleSize.expansion', 'lark/load_grammar.py:FindRuleSize.expansions'],
     rule='EBNF level: random grammar ASTs are rendered to Lark EBNF and, independently, desugared by the harness into plain BNF with explicit inlined helper rules (kept-all under ! rules); both are compiled by lark and must agree (Earley, explicit ambiguity, acyclic only) on language and tree sets. random Lark sources using ?, !, _rules, _TERMINALS, aliases, [..], ?, *, +, ~n, ~n..m, groups, templates, priorities x keep_all_tokens x maybe_placeholders, compiled by the real front end; sentences sampled '
          'from the compiled rules; engines earley/{dynamic,basic,dynamic_complete}, lalr/{contextual,basic}, cyk. For each engine the RAW derivation it found is obtained by running the same engine with raw '
          '(rule, children) builders in place of the callback chain; the Lean buildList (proved equal to the documented shapeList) turns it into the expected tree (node and token identities carried as unique labels), '
          'compared with the tree parse() returns. For inputs with a single derivation all engines that accept must return equal trees. Non-trivial = derivation with > 1 rule node; distinct by canonical hash. A tenth of the shape-stream grammars import rules (filtered tokens, private dependencies) from a module file; the model\'s keep_all flag is the rule\'s ! or the instance\'s keep_all_tokens option.',
     not_proved=['EBNF->BNF compilation (placeholder sizing by FindRuleSize, helper rules) is exercised through the real front end but not modelled: the theorem starts from lark\'s compiled rules and their options',
                 'CYK: revert_cnf is covered by the raw-derivation comparison only'],
     assumptions=['both runs of an engine (normal and raw builders) pick the same derivation (resolution is deterministic: C05)'],
     level_text='Theorem built_tree_is_documented_shaping: for every annotated derivation forest the bottom-up callback chain (child filter with run-length/carry None placement, inlining, expand1, alias) yields exactly the documented '
                'shaping. The Lean function is run on the raw derivations the real engines produce and compared with the trees they return, for all six engine/lexer pairs.',
     level_note='Trusted: Lean kernel, standard axioms, harness (raw-builder substitution, label bookkeeping). Modelled not verified: load_grammar compilation, the engines\' search for a derivation (C01/C02).',
     technique='Lean 4 structural-induction proof (code = documented shaping) over derivation forests + translation-validation style comparison on raw derivations from the real engines',
     design_ref='DESIGN.md §5 C03')

prop('C13',
     modules=['LarkVerif.Shape', 'LarkVerif.Heap', 'LarkVerif.DeepCopy', 'LarkVerif.LR', 'LarkVerif.LRComplete', 'LarkVerif.LRError', 'LarkVerif.Props.C13'],
     theorems=['Props.C13.denotation_frame', 'Props.C13.fork_independent', 'Props.C13.in_place_adoption_is_pure', 'Props.C13.feed_then_eof_eq_parse', 'Props.C13.resume_eq_parse',
               'Props.C13.error_state_is_a_parser_state', 'Props.C13.error_state_has_no_action', 'Props.C13.resume_from_error_state_sound', 'Props.C13.accepts_is_exact', 'LRProto.reduceLoop_vs_reductionsOn',
               'Props.C13.deepcopy_is_fresh_and_equal', 'Props.C13.fork_survives_mutation_of_original', 'Props.C13.original_survives_mutation_of_fork'],
     fingerprints=['lark/parsers/lalr_parser_state.py:ParserState.copy', 'lark/parsers/lalr_parser_state.py:ParserState.feed_token', 'lark/parsers/lalr_interactive_parser.py:InteractiveParser.copy',
                   'lark/parsers/lalr_interactive_parser.py:InteractiveParser.as_immutable', 'lark/parsers/lalr_interactive_parser.py:InteractiveParser.accepts', 'lark/parse_tree_builder.py:ChildFilterLALR.__call__',
                   'lark/tree.py:Tree.__deepcopy__'],
     rule='random feature-rich LALR grammars (C03 generator) x propagate_positions/maybe_placeholders/keep_all_tokens; 3 token sequences sharing prefixes (a sampled sentence and mutations); a random tree of 6-22 operations over '
          'interactive parsers: feed_token (in place / ImmutableInteractiveParser.feed_token), copy(), as_immutable(), as_mutable(), switching a fork to another sequence with the same consumed prefix, accepts() vs trial feeding of '
          'every terminal; then every cursor is finished in random order (immutable ones twice, after all others ran). Every result (tree with all meta fields incl. container_*) or error index must equal parse() of the cursor\'s own '
          'sequence. Non-trivial = more than 2 cursors; distinct by canonical hash of the operation log. After every operation the state stack is compared with a reference stepper over lark\'s own table and with the Lean reduceLoop/reductionsOn (driver op lr_feed); a cursor whose feed raised goes on from its error state with the offending token dropped and must end as stepping the table does. Lexer-driven forks: parse_interactive(text) advanced half way, as_immutable()/copy(), exhaust_lexer in random order, each must end with parse(text).',
     not_proved=['that a deep copy establishes the disjointness hypothesis of fork_independent is proved for the model of deepcopy (deepcopy_is_fresh_and_equal: fresh objects, old ones untouched, same denotation); that Python\'s copy.deepcopy / Tree.__deepcopy__ is that function is observed: freshness (no shared Tree, child list or Meta by id) and equality of the stacks on every generated copy(); Tree meta sharing was the one violation (F10, fixed)',
                 'accepts() exactness is compared with trial feeding here and with the model driver in the C02 check'],
     assumptions=['copy.deepcopy on lists/Trees/Tokens copies every reachable mutable list'],
     level_text='Theorems (heap model with mutable child lists): a state\'s denotation depends only on reachable list objects; an in-place extension of a child list by one fork leaves every fork with disjoint reachable objects '
                'unchanged and gives the reducing fork exactly the pure tree; feeding token by token then $END is parse; resuming after a shifted prefix equals the parse of the whole sequence. The real interactive parsers are driven '
                'through random fork trees and every leaf compared with parse().',
     level_note='Trusted: Lean kernel, standard axioms, harness. Modelled not verified: copy.deepcopy, Python object identity.',
     technique='Lean 4 frame/separation lemmas over an explicit heap of mutable lists + pure LR driver; randomised fork-tree differential testing against parse()',
     design_ref='DESIGN.md §5 C13')

prop('C14',
     modules=['LarkVerif.Scan', 'LarkVerif.Props.C14'],
     theorems=['Props.C14.ordered_disjoint', 'Props.C14.each_match_longest', 'Props.C14.no_miss', 'Props.C14.driver_runs_verified_loop'],
     fingerprints=['lark/parser_frontends.py:ParsingFrontend.scan', 'lark/lexer.py:Scanner.search', 'lark/lexer.py:LineCounter.from_text_slice', 'lark/lexer.py:LineCounter.advance_to'],
     rule='two streams of LALR grammars x {basic, contextual} x str/bytes x TextSlice windows: (safe) prefix-free single-character terminals with blank ignored; (rich) keywords, identifiers, numbers, comments, '
          'newline-bearing ignores. For each text: the verified loop scanRaw runs on oracle tables (search: earliest position where a non-ignored terminal of the start state matches, from individually compiled regexes; '
          'attempt: longest token prefix after which $END is accepted, from the real lexer and interactive parser started at every offset) and must reproduce scan()\'s ranges; every match value must equal parse() of the '
          'snippet as a TextSlice (trees, token positions and all meta fields in full-buffer coordinates); on the safe stream ranges must equal brute-force leftmost-longest over all substrings that parse. '
          'Non-trivial = at least one match; distinct by canonical hash. Also: random LALR shapes with merged lookaheads and \'same sub-rule in an end-rejecting and an end-accepting context\' shapes (with the brute-force oracle), and %ignore patterns that overlap start terminals (model loop only).',
     not_proved=['SearchSound (a position the search jumps over starts no non-ignored terminal) and the oracles\' range lemmas are hypotheses of the theorems, sampled on every case through the tables',
                 'value = parse(snippet) is compared, not proved (it rests on C06 window_start_exact and C13 replay)'],
     assumptions=['known finding F9: the no-miss clause is relative to the tokenisation of the text (a token is never split by a snippet end)'],
     level_text='Theorems over the _scan loop with abstract search/attempt oracles: matches are ordered, non-empty and disjoint; each is the longest token prefix the parser completes from its start; under SearchSound no skipped '
                'position starts a completable snippet. The same loop (proved equal to the proof-carrying one) is run by the driver on tables extracted from the real lexer/parser and compared with scan().',
     level_note='Trusted: Lean kernel, standard axioms, harness (oracle tables). Modelled not verified: Python re search, the lexer and LALR driver (C07/C02).',
     technique='Lean 4 invariant proofs over the scan loop with oracle parameters + table-driven correspondence + brute-force substring oracle on prefix-free terminal sets',
     design_ref='DESIGN.md §5 C14')

prop('C15',
     modules=['LarkVerif.LineCounter', 'LarkVerif.Props.C06', 'LarkVerif.Props.C15'],
     theorems=['Props.C15.window_begins_with_buffer_coordinates', 'Props.C15.window_tokens_in_buffer_coordinates', 'Props.C15.snapshot_resume_exact', 'Props.C15.coord_shift'],
     fingerprints=['lark/utils.py:TextSlice.__post_init__', 'lark/lexer.py:Scanner.match', 'lark/lexer.py:LineCounter.from_text_slice', 'lark/lexer.py:LineCounter.advance_to', 'lark/parsers/xearley.py:Parser._parse',
                   'lark/lexer.py:ContextualLexer.lex'],
     rule='random CFGs over string/regexp terminals with newline-bearing ignores x {lalr/basic, lalr/contextual, earley/basic, earley/dynamic, earley/dynamic_complete, cyk} x ASCII texts (sampled sentences, mutated, random) '
          'embedded in random buffers with newlines before and after: the text is parsed as str, as bytes (use_bytes), as TextSlice(buffer, a, b) and as TextSlice over bytes. Compared: acceptance, tree shape, token types/values, '
          'offsets relative to the window start, error class and position; line/column of every token, meta and error of the window results against the Lean stamp model evaluated on the whole buffer. '
          'Non-trivial = non-empty text in a window that does not start at 0; distinct by canonical hash. LALR: the same comparison through on_error recovery that skips unmatched characters. Custom lexer classes of interface 0 and 1 over windows: the result must be a TypeError or the parse of the window.',
     not_proved=['equality of tree shape/token values between representations is compared, not proved (it needs the regex engine to agree on str and bytes and to be window-invariant: named hypotheses)'],
     assumptions=['Python re matches ASCII text identically as str and as bytes', 'no terminal uses look-behind across the window start'],
     level_text='Theorems: a counter positioned on a window starts with the buffer\'s coordinates, every token then stamped carries the buffer\'s offsets/lines/columns, snapshot resume is exact, and coordinates shift by the '
                'newlines of the prefix. Three-way (four-way) differential comparison of str / bytes / TextSlice results on the real code, with window coordinates checked against the verified stamp model.',
     level_note='Trusted: Lean kernel, standard axioms, harness. Modelled not verified: Python re on bytes vs str.',
     technique='Lean 4 coordinate theorems (LineCounter on windows) + representation-differential testing with model-checked coordinates',
     design_ref='DESIGN.md §5 C15')

prop('C16',
     modules=['LarkVerif.Shape', 'LarkVerif.Transform', 'LarkVerif.TransformEmbed', 'LarkVerif.TransformInPlace', 'LarkVerif.IterSubtrees', 'LarkVerif.Props.C16'],
     theorems=['Props.C16.embedded_eq_transform_after', 'Props.C16.nonrecursive_eq_recursive', 'Props.C16.inplace_eq_recursive', 'Props.C16.stack_machine_postorder',
               'Props.C16.iter_subtrees_children_first', 'Props.C16.iter_subtrees_complete', 'EmbedProto.applyPlan_rel', 'EmbedProto.buildListT_rel'],
     fingerprints=['lark/parse_tree_builder.py:ParseTreeBuilder.create_callback', 'lark/parsers/lalr_parser_state.py:ParserState.feed_token', 'lark/visitors.py:Transformer._transform_tree',
                   'lark/visitors.py:Transformer_NonRecursive.transform', 'lark/visitors.py:Transformer_InPlace.transform', 'lark/tree.py:Tree.iter_subtrees'],
     rule='random feature-rich LALR grammars x maybe_placeholders/keep_all_tokens x a random pure transformer class (callbacks on a random subset of rule names, aliases, template names and named terminals; styles plain, '
          'v_args(inline=True), v_args(tree=True); callbacks are free constructors ("cb", name, children), so equal results under them imply equal results under every pure callback). Per sampled sentence: '
          'Lark(transformer=T).parse vs T.transform(Lark().parse) vs the Lean embedded chain buildListT and the Lean transform-after trV (both on the raw derivation of the real parser); Transformer, Transformer_NonRecursive, '
          'Transformer_InPlace, Transformer_InPlaceRecursive on deep copies of the parse tree: results, multiset of calls (once per node) and children-before-parents order, vs the Lean tr / runStack. '
          'Non-trivial = at least one callback applies; distinct by canonical hash. A fifth of the chosen callbacks return None. A third of the chosen terminal callbacks return None; in a third of the four-variant comparisons __default__ is overridden in a mixin the concrete class inherits from.',
     not_proved=['inplace_eq_recursive assumes the walk processes a node after its child subtrees: proved for the mirror of iter_subtrees on proper trees (iter_subtrees_children_first, order compared with the real iter_subtrees on random trees) and observed on every call log; the identity de-duplication of iter_subtrees on DAGs (shared subtrees) is not modelled; Transformer_InPlaceRecursive is, as a function of a proper tree, the recursion of Transformer and is compared on every case', 'known finding F8: callbacks on inlined (_) rules are excluded (hypothesis of the theorem)'],
     assumptions=['callbacks are pure and total; __default__/__default_token__ at their defaults; Discard and meta arguments excepted as the property says'],
     level_text='Theorems: for every derivation (inlined rules not ?-rules) and arbitrary rule/token callbacks not attached to inlined rules, the embedded callback chain computes exactly Transformer.transform of the plain tree; '
                'the post-order stack machine of Transformer_NonRecursive equals the recursive transformer for callbacks into any type. Both Lean functions run on the real parser\'s raw derivations / trees with free-constructor '
                'callbacks and are compared with the four real transformer classes and the embedded parser.',
     level_note='Trusted: Lean kernel, standard axioms, harness. Modelled not verified: v_args wrappers (exercised in three styles), deepcopy.',
     technique='Lean 4 structural-induction proofs (embedded chain = transform-after; stack machine = recursion) + free-callback differential testing',
     design_ref='DESIGN.md §5 C16')

prop('C12',
     modules=['LarkVerif.Cache', 'LarkVerif.Props.C12', 'LarkVerif.Extracted'],
     theorems=['Props.C12.cache_is_only_an_optimisation', 'Props.C12.invariant_preserved', 'Props.C12.invariant_initially', 'Props.C12.open_leaves_valid_file', 'Props.C12.key_shape_injective', 'Props.C12.key_covers_grammar_options_versions',
               'Props.C12.unhashable_options_are_declared'],
     fingerprints=['lark/lark.py:Lark.__init__', 'lark/lark.py:Lark._load', 'lark/lark.py:Lark.save'],
     rule='random histories (4-12 operations) against ONE cache path in a fresh temp directory, over a pool of 4 requests drawn from 8 grammars (two importing a module whose file content varies, the F4 pair) x 7 option sets: '
          'completed construction, crash during the write (a strict prefix of the rewritten file is left), external truncation at a random offset, deletion, a complete file written for another request. After every '
          'operation the real file is classified (absent / undecodable / complete file of request r, by its header line learned from lark itself) and compared with the verified state machine; every completed construction '
          'must not raise and must behave (10 probe inputs: trees with positions or error class/position) like an uncached build of its own request and current import content. Non-trivial = the history contains a fault; '
          'distinct by canonical hash. Requests also differ in priority (None/normal/invert) on a grammar with colliding prioritised terminals, and import their module through a package loader (PackageResource in used_files). Cache files written under a simulated other Python minor version / other lark version (the module globals the key is computed from are swapped) must be replaced, not served.',
     not_proved=['corruption of the pickled body that keeps framing and header valid is known finding F5 (no checksum) and is outside the modelled fault set; body byte flips are therefore not generated',
                 'pickle (self-delimiting) and sha256/hash injectivity are parameters (Env.key_inj/hash_inj)'],
     assumptions=['pickle.load fails on every strict prefix of a pickle', 'sha256 is injective on the inputs met', 'a non-atomic write may leave any prefix'],
     level_text='Theorem cache_is_only_an_optimisation: for every history of constructions, crashes mid-write, truncations, deletions and foreign files from any reachable file state, every completed construction returns build(request); '
                'the invariant is inductive; a completed construction leaves a valid file for its request; the key in the source is an injective encoding (extracted, by decide). The state machine is run against real cache '
                'files operation by operation.',
     level_note='Trusted: Lean kernel, standard axioms, harness. Modelled not verified: pickle framing, sha256, OS write atomicity (any prefix), logging.',
     technique='Lean 4 refinement/invariant proof of the cache state machine + operation-by-operation correspondence on real cache files with injected truncations and crashes',
     design_ref='DESIGN.md §5 C12')

prop('C11',
     modules=['LarkVerif.Serialize', 'LarkVerif.TableSer', 'LarkVerif.Props.C11', 'LarkVerif.Extracted'],
     theorems=['Props.C11.roundtrip_identity', 'Props.C11.frozenset_not_restored', 'Props.C11.flags_roundtrip_with_hook', 'Props.C11.behaviour_fields_serialised', 'Props.C11.load_allowed_are_options',
               'Props.C11.structural_options_not_load_allowed', 'Props.C11.parse_table_reencoding_roundtrip', 'TableSer.serStates_spec', 'TableSer.get_spec'],
     fingerprints=['lark/utils.py:Serialize.serialize', 'lark/utils.py:Serialize.deserialize', 'lark/utils.py:_serialize', 'lark/utils.py:_deserialize', 'lark/lark.py:Lark._load', 'lark/lark.py:Lark.save', 'lark/lark.py:Lark.__init__', 'lark/parsers/lalr_analysis.py:ParseTableBase.serialize', 'lark/parsers/lalr_analysis.py:ParseTableBase.deserialize', 'lark/utils.py:Enumerator.get', 'lark/utils.py:Enumerator.reversed'],
     rule='(a) random plain Python values (None, ints, strings, lists, dicts, frozensets) through the real _serialize/_deserialize vs the Lean ser/deser; (b) random feature-rich LALR grammars (C03 generator; terminals varied '
          'with i/s flags, priorities, regexps, alternations) x keep_all_tokens, maybe_placeholders, propagate_positions, lexer, g_regex_flags, bytes mode: the original instance vs Lark.load(save), vs a second construction served '
          'from the cache file, vs cache=True under a second option set, vs the generated stand-alone module (every third case; instantiated once with a load-time option and then plainly), on 3 sampled sentences and 3 random texts '
          'each: parse (full canonical trees with positions and meta, or error class, position and expected set), interactive parse with accepts() after every token, and scan(). Non-trivial: every grammar case; values containing a frozenset. Import histories: a grammar importing a module file, random sequences of (construct through the cache | edit the imported file): every cached parser must behave like a direct build of the grammar as it is now.',
     not_proved=['behaviour equality of the restored instance is compared, not proved: the Lean theorems cover the field-wise round trip on plain data, the frozenset gap and its hook, and that every field the behaviour reads is in the '
                 'extracted field tables', 'the parse-table re-encoding is proved a round trip for the Lean TableSer mirror (all tables); that ParseTableBase.serialize/deserialize are that mirror is compared on every generated table (encoded form and decoded table), not proved'],
     assumptions=['pickle round-trips the serialised dict faithfully'],
     level_text='Theorems: deserialize(serialize(v)) = v for every value without a frozenset; a frozenset comes back as a list unless a hook restores it (the F3 mechanism and its repair); the field lists extracted from the current source '
                'contain every field the lexer/parser behaviour reads; load-time options are options and none is structural. The Lean ser/deser run against the real functions; restored, cached and stand-alone parsers are compared '
                'with the original on parse / interactive / scan.',
     level_note='Trusted: Lean kernel, standard axioms, extractor, harness. Modelled not verified: pickle, the stand-alone generator\'s source extraction (exercised end to end).',
     technique='Lean 4 round-trip theorems on the serialisation core + extracted field-table side conditions by decide + four-way differential testing (original / load / cache / stand-alone)',
     design_ref='DESIGN.md §5 C11')

prop('C10',
     modules=['LarkVerif.Threads', 'LarkVerif.Indenter', 'LarkVerif.Instance', 'LarkVerif.Extracted', 'LarkVerif.Props.C10'],
     theorems=['Props.C10.lazy_init_safe_under_every_schedule', 'Props.C10.publish_before_merge_is_unsafe', 'Props.C10.indenter_history_independent', 'ThProto.run_fixed_safe',
               'Props.C10.instance_history_independent', 'Props.C10.instance_state_is_the_modelled_state', 'InstProto.step_spec', 'InstProto.same_call_same_result'],
     fingerprints=['lark/lexer.py:BasicLexer._build_scanner', 'lark/lexer.py:BasicLexer.next_token', 'lark/indenter.py:Indenter.process', 'lark/indenter.py:Indenter._process', 'lark/parsers/earley.py:Parser.parse',
                   'lark/parser_frontends.py:ParsingFrontend.scan'],
     rule='(a) the order "merge user callbacks / publish self.callback" is read from the current source text of BasicLexer._build_scanner and selects the Lean model variant; all 70 interleavings of two real threads (thorough: plus 400 sampled '
          'interleavings of three) through the first use of a fresh instance with a user lexer callback are executed with a sys.settrace gate scheduler (gates: read _scanner, assign callback, [merge loop], return of _build_scanner, '
          'read callback) and compared with the Lean small-step run; every token must carry the callback\'s effect. (b) 4 free-running threads x several rounds on fresh instances (switch interval 1 microsecond) for LALR/Earley configurations. '
          '(c) random histories of 3-9 calls (parse, lex, scan, parse_interactive; succeeding, failing, generators abandoned after k items; other instances created in between; every fourth history with a stateful Indenter post-lexer) on ONE '
          'instance, each call compared with the same call on a fresh instance. Non-trivial: schedules that interleave, histories of > 2 calls; distinct by canonical hash. A quarter of the histories use instances that share one cache location under differing options (priority None/normal/invert, keep_all_tokens, maybe_placeholders, lexer, propagate_positions): every instance created through the location is compared with an uncached build of its own options. 30% of the histories use an Earley instance (basic/dynamic/dynamic_complete, resolve/explicit); the empty text and blank-only texts occur after other calls; other instances are also compiled from the shared instance\'s Grammar object under another priority mode (fixed finding F26).',
     not_proved=['history independence is proved for the InstProto model (persistent state = lazily initialised fields computed from the configuration); that the real classes are such instances rests on (a) the state inventory extracted from the source on every run matching the modelled list (obligation instance_state_is_the_modelled_state, by decide) and (b) the call-by-call comparison against fresh instances; that each lazy field\'s initialiser reads nothing but the configuration is not proved',
                 'atomicity granularity (one attribute read/write under the GIL) is assumed; free-threaded builds and C-level races inside re are outside the model'],
     assumptions=['attribute reads/writes are atomic under the GIL', 'user callbacks are stateless (the property excludes stateful ones)'],
     level_text='Theorems: for an instance whose only persistent state is lazily initialised fields, every call after any history of completed, failed and abandoned calls returns what it returns on a fresh instance (instance_history_independent); the attributes written after construction in the current source are exactly the modelled ones (regenerated from the source on every run, by decide); with the publish-once ordering (the ordering found in the current source on every run) every schedule of any number of threads through the lazy scanner/callback initialisation gives every token the user callbacks; '
                'the publish-before-merge ordering has a concrete failing schedule; the Indenter\'s outcome is independent of earlier streams. The Lean small-step semantics is run against real threads stepped gate by gate through '
                'every 2-thread interleaving.',
     level_note='Trusted: Lean kernel, standard axioms, harness (gate scheduler). Modelled not verified: CPython GIL granularity; partial: runtime races outside the modelled attributes are only stress-tested.',
     technique='Lean 4 invariant proof over all interleavings of a small-step model + exhaustive deterministic scheduling of real threads (sys.settrace gates) + call-history differential testing',
     design_ref='DESIGN.md §5 C10')

prop('C17',
     modules=['LarkVerif.Earley', 'LarkVerif.Rename', 'LarkVerif.Mangle', 'LarkVerif.Prune', 'LarkVerif.Props.C17'],
     theorems=['Props.C17.renaming_preserves_language', 'Props.C17.mangle_is_injective', 'Props.C17.mangle_preserves_inlining', 'Props.C17.imported_name_is_alias', 'MangleProto.core_injective', 'Props.C17.prune_unused_preserves_language', 'PruneProto.closedB_sound', 'PruneProto.derives_pruned'],
     fingerprints=['lark/load_grammar.py:GrammarBuilder.do_import', 'lark/load_grammar.py:_get_mangle', 'lark/load_grammar.py:_mangle_definition_tree', 'lark/load_grammar.py:GrammarBuilder._extend', 'lark/load_grammar.py:GrammarBuilder._define'],
     rule='(a) random names/prefixes/alias tables through the real _get_mangle vs the Lean mangle; (b) a random grammar is split into a main file and a module (optionally a nested module imported by the module): imports with and '
          'without "->" renames, inlined _helper rules, a local rule named like a non-imported module rule, %override and %extend of imported rules, an imported template; the module files are written to a temp directory and the '
          'importing grammar is compared with a hand-inlined text produced by the generator itself (independent of lark\'s import code): both must build or both fail, and on 6 inputs each (Earley explicit ambiguity and LALR) '
          'give the same error class or the same trees modulo the documented module__ prefix. Non-trivial: every split; distinct by canonical hash. Module rules and overriding definitions carry their own ?/! modifiers; a third of the cases run with keep_all_tokens=True. A quarter of the cases are diamond imports (a second module importing from the first next to the direct import); the module\'s template parameter may be spelled like a rule of the importing grammar.',
     not_proved=['_remove_unused (pruning), %override/%extend and template substitution are compared against the hand-inlined text, not proved', 'freedom from clashes with local names is sampled (local rule named like a non-imported module rule)'],
     assumptions=['module prefixes do not begin with an underscore (hypothesis of mangle_is_injective)'],
     level_text='Theorems: an injective renaming of nonterminals preserves the language exactly; _get_mangle (mirrored in Lean, compared with the real function) is injective on non-aliased names, preserves the leading-underscore (inlining) '
                'status, and maps explicitly imported names to their aliases. Importing grammars are compared with independently hand-inlined texts.',
     level_note='Trusted: Lean kernel, standard axioms, harness (its own inliner). Modelled not verified: the grammar-of-grammars parser, file lookup.',
     technique='Lean 4 renaming-invariance and injectivity proofs + differential testing of import/override/extend/template against hand-inlined grammars',
     design_ref='DESIGN.md §5 C17')

prop('C04',
     modules=['LarkVerif.Earley', 'LarkVerif.Forest', 'LarkVerif.Priority', 'LarkVerif.Shape', 'LarkVerif.Props.C04', 'LarkVerif.Props.C03'],
     theorems=['Props.C04.every_derivation_is_in_the_forest', 'Props.C04.every_parse_is_in_the_forest', 'Props.C04.alternatives_append', 'Props.C04.children_multiply', 'Props.C03.built_tree_is_documented_shaping'],
     fingerprints=['lark/parsers/earley.py:Parser.predict_and_complete', 'lark/parsers/earley.py:Parser._parse', 'lark/parsers/xearley.py:Parser._parse', 'lark/parsers/earley_forest.py:ForestVisitor.visit', 'lark/parsers/earley_forest.py:ForestToParseTree.visit_packed_node_in', 'lark/parsers/earley_forest.py:PackedNode.sort_key', 'lark/parsers/earley_forest.py:PackedNode.__eq__', 'lark/parsers/earley_forest.py:PackedNode.__init__', 'lark/parsers/earley_forest.py:SymbolNode.add_family', 'lark/parsers/earley_forest.py:SymbolNode.is_ambiguous', 'lark/parsers/earley_forest.py:ForestToParseTree.on_cycle', 'lark/parsers/earley_forest.py:ForestSumVisitor.visit_packed_node_out', 'lark/parsers/earley_forest.py:ForestSumVisitor.visit_symbol_node_out', 'lark/visitors.py:CollapseAmbiguities.__default__'],
     rule='random ambiguous grammars (2-4 rules incl. inlined and ?-rules, aliases, x?, empty alternatives, unit cycles) over single-character terminals with blank ignored x {basic, dynamic, dynamic_complete} x maybe_placeholders; '
          'texts sampled from the rules plus random ones. For acyclic grammars ALL derivations of the token string are enumerated by an independent brute-force oracle over lark\'s compiled rules (capped at 200), each is shaped by the '
          'Lean buildList, and the set must equal the set obtained by expanding the _ambig nodes of the explicit-ambiguity result (own expander) and by CollapseAmbiguities; accept/reject must agree. For cyclic grammars the parse must terminate. '
          'Second stream: EBNF grammars generated as ASTs are compiled by lark and, independently, hand-desugared into plain BNF with explicit inlined helper rules; on acyclic pairs the '
          'expanded explicit-ambiguity tree sets of the two must be equal (derivations lost or invented by EBNF compilation are invisible to the first stream, which starts from the compiled rules); '
          'the region of finding F24 (two vanishing alternatives with different aliases) is computed from the AST and only there may the EBNF set be a proper subset. '
          'Non-trivial = more than one derivation, or a cyclic grammar; distinct by canonical hash. Third stream (ambiguity inside terminals): random acyclic grammars over regexp terminals (truncation-closed pool, outside F6) under dynamic_complete; all derivations of the character lattice (every member prefix of every terminal at every offset, ignored text skipped between tokens) are enumerated by a lattice-level oracle and compared with the expanded explicit result as sets of trees with token types, texts and offsets.',
     not_proved=['soundness of the forest (every encoded tree is a derivation) and the AmbiguousExpander/AmbiguousIntermediateExpander lifting are compared against the brute-force enumeration, not proved',
                 'for cyclic grammars only termination is observed'],
     assumptions=['the brute-force enumerator (Python, oracle_derivs.py) is an independent oracle, not part of the proof chain'],
     level_text='Theorems: every derivation of the input has all its dotted positions among the chart facts, i.e. every node and packed family of every derivation is in the forest (completeness, for all grammars and lattices); the shaped tree of a '
                'derivation is the documented shaping (C03). The explicit-ambiguity result is compared with the Lean-shaped brute-force derivation set.',
     level_note='Trusted: Lean kernel, standard axioms, harness, the Python enumeration oracle for the per-case comparison.',
     technique='Lean 4 forest-completeness proof + Lean-shaped brute-force derivation sets compared with expanded _ambig results',
     design_ref='DESIGN.md §5 C04')
prop('C05',
     modules=['LarkVerif.Priority', 'LarkVerif.Choice', 'LarkVerif.Props.C05', 'LarkVerif.Extracted'],
     theorems=['Props.C05.forest_walk_is_max_over_derivations', 'Props.C05.no_derivation_beats_the_root', 'Props.C05.invert_is_min', 'Props.C05.derivs_negate', 'Props.C05.packed_sort_key_is_documented', 'Props.C05.empty_alternative_only_if_nothing_else', 'Props.C05.chosen_alternative_has_max_priority', 'Props.C05.ties_go_to_the_first_alternative', 'ChoiceProto.choose_min'],
     fingerprints=['lark/parsers/earley.py:Parser.predict_and_complete', 'lark/parsers/earley.py:Parser._parse', 'lark/parsers/xearley.py:Parser._parse', 'lark/parsers/earley_forest.py:ForestVisitor.visit', 'lark/parsers/earley_forest.py:ForestToParseTree.visit_packed_node_in', 'lark/parsers/earley_forest.py:PackedNode.sort_key', 'lark/parsers/earley_forest.py:PackedNode.__eq__', 'lark/parsers/earley_forest.py:PackedNode.__init__', 'lark/parsers/earley_forest.py:SymbolNode.add_family', 'lark/parsers/earley_forest.py:SymbolNode.is_ambiguous', 'lark/parsers/earley_forest.py:ForestToParseTree.on_cycle', 'lark/parsers/earley_forest.py:ForestSumVisitor.visit_packed_node_out', 'lark/parsers/earley_forest.py:ForestSumVisitor.visit_symbol_node_out', 'lark/visitors.py:CollapseAmbiguities.__default__'] + ['lark/lark.py:Lark.__init__'],
     rule='random prioritised ambiguous grammars (rule priorities -2..3, terminal priorities, inlined/?-rules, empty alternatives) x {basic, dynamic, dynamic_complete} x priority in {normal, invert, None}: the derivation the real parser '
          'chose (recovered with raw builders) must be one of the brute-force derivations, and for grammars without directly empty alternatives its total priority (rule priorities as written, plus terminal priorities under the dynamic lexers) '
          'must be the maximum (minimum under invert) over all derivations; the real SPPF is exported (tree-unfolded, with ForestSumVisitor\'s weights) and its root priority compared with the Lean prio and best(derivs); a batch of '
          'parses is repeated in subprocesses under 3 (thorough: 12) PYTHONHASHSEED values and must be byte-identical. Non-trivial = more than one derivation; distinct by canonical hash. The built-in precedence clause is checked on the chosen derivation: a directly empty alternative may be used only where no other alternative of the rule consists of nullable symbols only (acyclic grammars). Prioritised rules also carry [x] items (separate RuleOptions per alternative) and an overlapping terminal. Every ambiguous symbol node of the real forests is replayed on the Lean choose (Choice.lean). Stress shape keyword-vs-identifier: two prioritised terminals reading the same text as unit alternatives.',
     not_proved=['the choice function of ForestToParseTree (first family in sort order) and its agreement with the DP value is compared per case, not proved', 'the empty-alternative precedence clause is not checked beyond "the result is a derivation"',
                 'independence from hash order is sampled across PYTHONHASHSEED values (Lean cannot exhibit CPython set iteration order)', 'cyclic grammars: optimality not claimed'],
     assumptions=['acyclic grammars without directly empty alternatives for the optimality clause'],
     level_text='Theorems: the bottom-up forest walk computes, for every node, the maximum total priority over all derivations below it; no derivation beats the root value; with negated weights (invert) it is the minimum; the alternative sort key in the '
                'source is (is_empty, -priority, rule order). The Lean prio runs on the exported real forests; the chosen derivation is compared with the brute-force optimum.',
     level_note='Trusted: Lean kernel, standard axioms, extractor, harness, the Python enumeration oracle. Modelled not verified: CPython hash order.',
     technique='Lean 4 max/sum dynamic-programming proof over AND-OR forests + export of the real SPPF + brute-force optimum + multi-hash-seed determinism runs',
     design_ref='DESIGN.md §5 C05')
prop('C20',
     modules=['LarkVerif.Earley', 'LarkVerif.Forest', 'LarkVerif.ForestVisit', 'LarkVerif.ForestCert', 'LarkVerif.Priority', 'LarkVerif.Props.C04', 'LarkVerif.Props.C20'],
     theorems=['Props.C04.every_derivation_is_in_the_forest', 'Props.C04.every_parse_is_in_the_forest', 'Props.C04.alternatives_append', 'Props.C04.children_multiply',
               'Props.C20.walk_terminates', 'Props.C20.walk_is_depth_first_and_reports_cycles', 'Props.C20.single_visit_enters_each_node_once', 'Props.C20.sub_walk_restores_the_path',
               'VisitProto.visitKids_visited', 'VisitProto.remaining_lt', 'Props.C20.certified_forest_encodes_only_parses', 'Props.C20.certified_forest_nodes_sound', 'ForestCert.ignReach_sound'],
     fingerprints=['lark/parsers/earley.py:Parser.predict_and_complete', 'lark/parsers/earley.py:Parser._parse', 'lark/parsers/xearley.py:Parser._parse', 'lark/parsers/earley_forest.py:ForestVisitor.visit', 'lark/parsers/earley_forest.py:ForestToParseTree.visit_packed_node_in', 'lark/parsers/earley_forest.py:PackedNode.sort_key', 'lark/parsers/earley_forest.py:PackedNode.__eq__', 'lark/parsers/earley_forest.py:PackedNode.__init__', 'lark/parsers/earley_forest.py:SymbolNode.add_family', 'lark/parsers/earley_forest.py:SymbolNode.is_ambiguous', 'lark/parsers/earley_forest.py:ForestToParseTree.on_cycle', 'lark/parsers/earley_forest.py:ForestSumVisitor.visit_packed_node_out', 'lark/parsers/earley_forest.py:ForestSumVisitor.visit_symbol_node_out', 'lark/visitors.py:CollapseAmbiguities.__default__'],
     rule='random ambiguous/nullable/cyclic grammars x {basic, dynamic, dynamic_complete}: the forest root from ambiguity="forest" is transformed with TreeForestTransformer(resolve_ambiguity=False), the _ambig nodes expanded, and the set of '
          'unshaped trees compared with the brute-force derivation set (none missing, none extra, none twice); resolve_ambiguity=True must give a member; is_ambiguous must be False for a single derivation; ForestVisitor (plain and '
          'single_visit), ForestTransformer, ForestSumVisitor and both TreeForestTransformer settings must terminate on every forest including cyclic ones (8 s guard), with on_cycle counted. Non-trivial = more than one derivation or cyclic; '
          'distinct by canonical hash. Tiling stream: terminals that may contain the ignored characters, dynamic and dynamic_complete: every tree encoded by the explicit result and by the forest must tile the input (tokens ordered, disjoint, matching their terminal; every gap ignored text). One overlapping terminal AB: /[ab]/ with a derivation oracle that reads a token as any terminal matching it. The tiling stream includes terminals with an optional suffix (a proper prefix of a match may match only partially).',
     not_proved=['forest soundness is certified per forest (ForestCert.checkForest with the soundness theorem), not proved once for all grammars: that lark\'s construction always yields a forest that passes the checker is what the run observes',
                 'the walk theorems are about VisitProto.visit, the Lean mirror of ForestVisitor.visit with the default callbacks (children handed out in order); that the real loop is this function is checked by comparing the complete event sequence (in/out/token/on_cycle per node) on every exported forest; visitor subclasses that hand back other children (ForestToParseTree, user visitors) are covered by the Python DFS-discipline detector only'],
     assumptions=['the brute-force enumerator is an independent oracle'],
     level_text='Theorems: every derivation of the input is present in the forest with all its nodes and packed families (completeness over the chart proved correct in C01); the forest walk (ForestVisitor.visit as a total function, termination measure = nodes off the path) '
                'terminates on every finite graph, cyclic or not, is a proper depth-first walk (no node entered while on the path, in/out nested, on_cycle only for on-path nodes), and single_visit enters no node twice. The real forest is expanded and compared with the brute-force '
                'derivation set; the Lean walk is run on every exported real forest and its event sequence compared with the real visitor\'s; all visitor/transformer classes are run on every forest.',
     level_note='Trusted: Lean kernel, standard axioms, harness, the Python enumeration oracle.',
     technique='Lean 4 forest-completeness proof + Lean 4 termination/DFS-discipline proof of the forest walk (well-founded recursion on cyclic graphs) tied by event-sequence correspondence + expansion of the real forest compared with brute-force derivations',
     design_ref='DESIGN.md §5 C20')

prop('C19',
     modules=['LarkVerif.Recons', 'LarkVerif.Props.C19'],
     theorems=['Props.C19.emitted_tokens_reparse_to_the_tree', 'Props.C19.assembly_only_inserts_blanks', 'Props.C19.identifiers_are_separated'],
     fingerprints=['lark/reconstruct.py:Reconstructor.reconstruct', 'lark/reconstruct.py:Reconstructor._reconstruct', 'lark/tree_matcher.py:TreeMatcher.match_tree', 'lark/tree_matcher.py:TreeMatcher._build_recons_rules'],
     rule='random feature-rich grammars (C03 generator, maybe_placeholders=False; 40% with multi-character keywords, identifiers, numbers and punctuation to exercise the spacing rule) filtered to the supported class (every '
          'filtered terminal a string literal, every alternative keeps an unfiltered symbol other than the rule itself, no derivation cycle, input unambiguous by Earley explicit) x {lalr, earley}: for each parse tree of a sampled '
          'sentence, parse(reconstruct(tree)) must equal the tree; the list of items the Reconstructor emits is passed to the Lean joinItems (identifier characters taken from lark\'s is_id_continue) and the assembled text compared. '
          'Non-trivial = more than one emitted item; distinct by canonical hash. Corpus stream: five realistic conflict-free grammars (nested ?rules with several children, calls with repetition, rule names that are prefixes of one another), long sampled inputs, four trees through one Reconstructor in random order, each compared with a fresh Reconstructor and round-tripped. One corpus grammar uses everyday rule and alias names (literal, args, token, value, match, rule).',
     not_proved=['that the tree matcher returns a derivation whose shape is the tree (hypothesis hrec of the composition theorem) is not modelled; it is observed through the round trip',
                 'lexical separability of adjacent tokens after assembly (JoinSafe) is a hypothesis: known finding F7 shows it can fail for multi-character punctuation; the generator keeps punctuation single-character'],
     assumptions=['terminal sets of the generator are lexically separable under the spacing rule (outside F7)'],
     level_text='Theorems: composition (sound+complete parser, unambiguous grammar, reconstructor returning a derivation with the tree\'s shape => re-parse gives the tree); the assembly loop only inserts blanks and never glues identifier '
                'characters of consecutive tokens. The Lean assembly function runs on the items the real Reconstructor emits; the round trip is checked on random supported-class grammars. Partial: the matcher itself is not modelled.',
     level_note='Trusted: Lean kernel, standard axioms, harness. Modelled not verified: TreeMatcher (an Earley parse over tree children), unicode is_id_continue.',
     technique='Lean 4 composition theorem + model of the text-assembly loop; round-trip differential testing on the supported grammar class',
     design_ref='DESIGN.md §5 C19')


# ---- streams added while strengthening against the fourth round of seeded changes (DESIGN.md §11.3); appended to the rule texts above
_ROUND4 = {
    'C02': 'Spaced stream: inputs whose tokens are separated by ignored blanks and newlines; the line, column and pos_in_stream of every LALR error (UnexpectedToken, UnexpectedCharacters, UnexpectedEOF with its $END token) are compared with the coordinates computed from the text.',
    'C08': 'Spaced stream: the error token of every LALR failure over blank- and newline-separated inputs carries the coordinates of its first character in the text (end coordinates one past its last).',
    'C03': 'Corpus: alternatives of three and more symbols whose names run together when joined by "_" (helper names of the CYK normal form), aliases on such alternatives; replay of fixed finding F31 (template instances shared across filter_out).',
    'C05': 'Lattice-level priority stream: terminals that may contain the ignored blank, dynamic and dynamic_complete; the chosen derivation (with the spans of its tokens) must be among the lattice derivations and of optimal priority; choose() of the Lean Choice model is run on the families of the root.',
    'C06': 'Optional-tail terminals (a terminal with an optional suffix that the next terminal could also match), every token of every derivation under dynamic_complete + explicit ambiguity; meta of ?-inlined rules with filtered brackets.',
    'C07': 'Join-collision shape: terminals whose names or patterns coincide after lark joins anonymous literal names, so that a wrong merge changes which terminal wins.',
    'C09': 'Language comparison (accept/reject only) on EBNF pairs whose expansion is cyclic, where the tree comparison does not apply.',
    'C10': 'Stress threads call scan()/lex() concurrently with parse() on the shared instance.',
    'C12': 'A grammar whose only difference between two builds is a regex flag on one terminal (and the g_regex_flags option) must not share a cache file.',
    'C13': 'Lexer-driven forks on an immutable copy: feed_eof on as_immutable() copies must not disturb the original and must agree with the stepper.',
    'C14': 'Grammars with several start rules; the contextual lexer is compared per start symbol.',
    'C16': 'Imported grammars with namespaced rule and terminal callbacks (lib__rule, LIB__TERM) in every transformer entry point.',
    'C17': 'Templates whose body carries a priority, instantiated from two import paths (diamond); under LALR only construction is compared where the tie is name-dependent.',
}
for _pid, _txt in _ROUND4.items():
    PROPS[_pid]['rule'] = PROPS[_pid]['rule'].rstrip() + ' ' + _txt
