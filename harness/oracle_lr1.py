"""Independent oracle (Python, not part of the trusted proof chain): canonical LR(1) item sets merged by LR(0) core = LALR(1) lookaheads.
Used to *search for failing inputs* and to cross-check the C02 conflict clause; it does not decide the property by itself."""

def lr1_lalr(rules, start):
    R = list(rules) + [('$root', ((False, start),))]
    root = len(R) - 1
    by_lhs = {}
    for i, (l, r) in enumerate(R): by_lhs.setdefault(l, []).append(i)
    nullable = set(); ch = True
    while ch:
        ch = False
        for l, r in R:
            if l not in nullable and all((not t) and n in nullable for t, n in r): nullable.add(l); ch = True
    first = {}
    ch = True
    while ch:
        ch = False
        for l, r in R:
            for t, n in r:
                add = {n} if t else first.get(n, set())
                if not add <= first.setdefault(l, set()): first[l] |= add; ch = True
                if t or n not in nullable: break
    def first_seq(beta, la):
        f = set()
        for t, n in beta:
            f |= ({n} if t else first.get(n, set()))
            if t or n not in nullable: return f
        return f | {la}
    def closure(items):
        c = set(items); work = list(items)
        while work:
            ri, d, la = work.pop()
            rhs = R[ri][1]
            if d < len(rhs) and not rhs[d][0]:
                for b in first_seq(rhs[d+1:], la):
                    for rj in by_lhs.get(rhs[d][1], []):
                        it = (rj, 0, b)
                        if it not in c: c.add(it); work.append(it)
        return frozenset(c)
    q0 = closure({(root, 0, '$END')})
    states = {q0}; work = [q0]
    while work:
        q = work.pop()
        syms = {R[ri][1][d] for ri, d, la in q if d < len(R[ri][1])}
        for s in syms:
            q2 = closure({(ri, d+1, la) for ri, d, la in q if d < len(R[ri][1]) and R[ri][1][d] == s})
            if q2 not in states: states.add(q2); work.append(q2)
    merged = {}
    item_las = {}
    for q in states:
        core = frozenset((ri, d) for ri, d, la in q)
        m = merged.setdefault(core, {})
        il = item_las.setdefault(core, {})
        for ri, d, la in q:
            il.setdefault((ri, d), set()).add(la)
            if d == len(R[ri][1]) and ri != root: m.setdefault(ri, set()).add(la)
    lr1_lalr.item_las = item_las       # lookaheads of *every* item per merged state (annotation for the completeness certificate)
    return merged, len(states)

