"""Shared by C04 / C05 / C20: ambiguous prioritised grammars, the real SPPF, brute-force derivations, expansion of _ambig nodes."""
import random, json, itertools
from common import guarded, Timeout
import shapelib, oracle_derivs

LEXERS = ['basic', 'dynamic', 'dynamic_complete']
MAX_DERIVS = 200


def gen_stress(rng, prio=True):
    """shapes the anchors name: ambiguity inside inlined rules inlined into inlined rules; a long prioritised rule competing with a decomposition
    whose total lies in between; equal-priority splits of one rule (ties on the whole sort key)"""
    P = (lambda: '.%d' % rng.randint(1, 4)) if prio else (lambda: '')
    k = rng.randrange(8)
    if k == 7:
        # keyword vs identifier: two terminals read the same text; only the terminal priorities (dynamic lexers) tell the derivations apart
        order = rng.choice(['KW | NAME', 'NAME | KW'])
        kp, np_ = (rng.choice(['.2', '.3', '']), rng.choice(['', '.1'])) if prio else ('', '')
        return 'start: w%s\nw: %s\nKW%s: "a"\nNAME%s: /[ab]/\n%%ignore " "\n' % (rng.choice(['', ' w', '+']), order, kp, np_)
    if k == 5:
        lines = ['start: a B? | a', 'a%s: | b | b c' % (P() if rng.random() < 0.5 else ''), 'b%s: | c' % P(), 'c%s: | A?' % (P() if rng.random() < 0.5 else '')]
    elif k == 6:
        lines = ['start: a | b', 'a%s: A [B]%s' % (P(), rng.choice(['', ' | A'])), 'b%s: A B | A' % P()]
    elif k == 4:
        # several items of one column waiting on the same nullable nonterminal
        lines = ['start: A n | A n B' + rng.choice(['', ' | A n n', ' | n A n']), 'n: ' + rng.choice(['', '| B', '| m', 'm m']), 'm: ' + rng.choice(['', '| A'])]
    elif k == 0:
        lines = ['start: _c' + rng.choice(['', ' A?']), '_c: b b _d' + rng.choice(['', ' | b _d']), 'b%s: A | A A' % (P() if rng.random() < 0.4 else ''), '_d: e | f', 'e: A' + rng.choice(['', ' A?']), 'f: A']
    elif k == 1:
        lines = ['start: long_ | b_ c_', 'long_%s: A B A' % P(), 'b_%s: A' % P(), 'c_%s: B A' % (P() if rng.random() < 0.5 else ''), '?r4: A']
    elif k == 2:
        lines = ['start: a a' + rng.choice(['', ' a']), 'a%s: A | A A | A A A' % (P() if rng.random() < 0.3 else '')]
    else:
        lines = ['start: x y | z', 'x%s: A | A B' % P(), 'y%s: B A | A' % P(), 'z%s: A B A | _w' % P(), '_w: A x | x A']
    lines += ['A: "a"', 'B: "b"', '%ignore " "']
    return '\n'.join(lines) + '\n'


def gen_grammar(rng, prio=True, empties=True):
    if rng.random() < 0.25:
        return gen_stress(rng, prio)
    names = ['start'] + rng.sample(['r1', '_r2', 'r3', 'r4'], rng.randint(1, 3))
    terms = ['A', 'B', '"x"']
    overlap = rng.random() < 0.25
    if overlap:
        terms = terms + ['AB', 'AB']        # a terminal that matches the same text as A and as B: under the dynamic lexers one character, several readings
    lines = []
    for n in names:
        mod = '' if n == 'start' or n.startswith('_') else rng.choice(['', '', '?'])
        pr = '' if (not prio or rng.random() < 0.5) else '.%d' % rng.randint(-2, 3)
        alts = []
        for _ in range(rng.choice([1, 2, 2, 3])):
            k = rng.choice([0, 1, 1, 2, 2, 3]) if (empties and rng.random() < 0.5) else rng.choice([1, 2, 2, 3])
            syms = []
            for _ in range(k):
                s = rng.choice(names + terms + terms)
                if rng.random() < 0.12: s = s + '?' if rng.random() < 0.6 else '[%s]' % s
                syms.append(s)
            s = ' '.join(syms)
            if syms and not n.startswith('_') and rng.random() < 0.15: s += ' -> al%d' % rng.randint(0, 1)
            alts.append(s)
        alts = list(dict.fromkeys(alts))
        lines.append('%s%s%s: %s' % (mod, n, pr, ' | '.join(alts)))
    lines += ['A%s: "a"' % ('.%d' % rng.randint(1, 2) if prio and rng.random() < 0.2 else ''), 'B: "b"'] + (['AB: /[ab]/'] if overlap else []) + ['%ignore " "']
    return '\n'.join(lines) + '\n'


def expand_ambig(t):
    """all trees encoded by a tree with _ambig nodes (own expander, independent of CollapseAmbiguities)"""
    from lark import Tree
    if not isinstance(t, Tree):
        return [t]
    if t.data == '_ambig':
        out = []
        for c in t.children:
            out.extend(expand_ambig(c))
        return out
    kids = [expand_ambig(c) for c in t.children]
    return [Tree(t.data, list(combo)) for combo in itertools.product(*kids)]


def canon_tree(t):
    from lark import Tree, Token
    if isinstance(t, Tree):
        return ['T', str(t.data), [canon_tree(c) for c in t.children]]
    if isinstance(t, Token):
        return ['t', t.type, str(t)]
    return None if t is None else ['?', repr(t)]


def canon_deriv(d):
    """unshaped derivation (rule, children) -> canonical tree labelled like TreeForestTransformer does"""
    r, ch = d
    return ['T', shapelib.label_of(r), [canon_deriv(c) if isinstance(c, tuple) else ['t', c.type, str(c)] for c in ch]]


def deriv_to_raw(d):
    r, ch = d
    return shapelib.Raw(r, [deriv_to_raw(c) if isinstance(c, tuple) else c for c in ch])


def declared_priorities(g):
    """priorities as the grammar *text* declares them (`name.N:`), for rules and terminals — not as lark compiled them into RuleOptions/TerminalDef"""
    import re as _re
    return {n: int(p) for n, p in _re.findall(r'^\s*[?!]*([A-Za-z_][A-Za-z_0-9]*)\.(-?\d+)\s*:', g, _re.M)}


def deriv_priority(d, term_prio=None, declared=None):
    """total priority of a derivation; with `declared` (from the grammar text) every alternative of a rule — the compiled variants of `[x]`/`x?` included —
    counts the priority written on that rule, helper rules count 0"""
    r, ch = d
    p = (r.options.priority or 0) if declared is None else declared.get(str(r.origin.name), 0)
    for c in ch:
        if isinstance(c, tuple):
            p += deriv_priority(c, term_prio, declared)
        elif term_prio:
            p += term_prio.get(c.type, 0)
    return p


def empty_preference(d, rules):
    """the built-in precedence clause: a directly empty alternative may be used only where no non-empty alternative of the same rule matches the same
    (empty) span, i.e. where no other alternative consists of nullable symbols only.  Returns the offending (rule name, alternative) or None."""
    nullable = set()
    changed = True
    while changed:
        changed = False
        for r in rules:
            if r.origin.name not in nullable and all((not s.is_term) and s.name in nullable for s in r.expansion):
                nullable.add(r.origin.name); changed = True
    def walk(x):
        r, ch = x
        if not r.expansion:
            for r2 in rules:
                if r2.origin == r.origin and r2.expansion and all((not s.is_term) and s.name in nullable for s in r2.expansion):
                    return [str(r.origin.name), ' '.join(s.name for s in r2.expansion)]
        for c in ch:
            if isinstance(c, tuple):
                w = walk(c)
                if w: return w
        return None
    return walk(d)


def choice_nodes(root):
    """every ambiguous symbol node of the real SPPF: its families in iteration order as [is_empty, priority, rule.order] and the index of the one
    `sorted(children, key=sort_key)[0]` is (what ambiguity='resolve' takes)"""
    from lark.parsers.earley_forest import SymbolNode
    out, seen, stack = [], set(), [root]
    while stack and len(out) < 40:
        n = stack.pop()
        if not isinstance(n, SymbolNode) or id(n) in seen:
            continue
        seen.add(id(n))
        fams = list(n._children)
        for p in fams:
            stack.extend(c for c in (p.left, p.right) if c is not None)
        if len(fams) > 1 and all(isinstance(p.priority, int) for p in fams):
            first = n.children[0]
            out.append({'fams': [[bool(p.is_empty), p.priority, p.rule.order] for p in fams], 'chosen': [i for i, p in enumerate(fams) if p is first][0]})
    return out


def has_empty_rule(rules):
    return any(len(r.expansion) == 0 for r in rules)


def sppf_to_ao(root, dynamic):
    """tree-unfold the (acyclic) real SPPF into the Lean AO form with the weights ForestSumVisitor uses; returns None on a cycle or when too big"""
    from lark.parsers.earley_forest import SymbolNode, PackedNode, TokenNode
    count = [0]
    onpath = set()
    def sym(n):
        if isinstance(n, TokenNode):
            return {'leaf': n.priority if n.priority is not None else 0}
        if id(n) in onpath:
            raise RecursionError('cycle')
        onpath.add(id(n))
        alts = []
        for p in n.children:
            count[0] += 1
            if count[0] > 4000:
                raise OverflowError
            w = (p.rule.options.priority or 0) if not n.is_intermediate else 0
            kids = [sym(c) for c in (p.left, p.right) if c is not None]
            alts.append({'and': w, 'kids': kids})
        onpath.discard(id(n))
        return {'or': alts}
    try:
        return sym(root)
    except (RecursionError, OverflowError):
        return None


def forest_stats(root):
    """canonical description of the real node graph: (label, start, end) -> sorted families"""
    from lark.parsers.earley_forest import SymbolNode, PackedNode, TokenNode
    seen, out = set(), {}
    stack = [root]
    def lab(n):
        if isinstance(n, TokenNode):
            return 'tok:%s@%s' % (n.token.type, getattr(n.token, 'start_pos', None))
        s = n.s
        name = ('%s.%d' % (s[0].origin.name + ':' + ' '.join(x.name for x in s[0].expansion), s[1])) if isinstance(s, tuple) else s.name
        return '%s[%d,%d]' % (name, n.start, n.end)
    while stack:
        n = stack.pop()
        if id(n) in seen or isinstance(n, TokenNode):
            continue
        seen.add(id(n))
        fams = []
        for p in n.children:
            fams.append([p.rule.origin.name + ':' + ' '.join(x.name for x in p.rule.expansion), lab(p.left) if p.left is not None else None, lab(p.right) if p.right is not None else None])
            for c in (p.left, p.right):
                if c is not None:
                    stack.append(c)
        out[lab(n)] = sorted(fams, key=json.dumps)
    return out


def visit_log(root, single_visit, cap=4000):
    """The node graph below `root` (ids in first-encounter order, children as ForestVisitor's callbacks hand them out) and the event
    sequence a logging ForestVisitor produces on it: [0,n] in, [1,n] out, [2,n] token, [3,n] on_cycle.  None when longer than `cap`."""
    from lark.parsers.earley_forest import ForestVisitor, TokenNode, PackedNode
    ids = {}
    def nid(n):
        return ids.setdefault(id(n.token) if isinstance(n, TokenNode) else id(n), len(ids))
    tok_ids = {}
    kids, toks, order, stack, alive = {}, [], [], [root], []
    while stack:
        n = stack.pop()
        i = nid(n)
        if i in kids or i in tok_ids:
            continue
        alive.append(n)
        if isinstance(n, TokenNode):
            tok_ids[i] = True; toks.append(i); continue
        ch = [c for c in n.children if c is not None]
        kids[i] = [nid(c) for c in ch]
        order.append(i)
        stack.extend(reversed(ch))
        if len(kids) > cap:
            return None
    ev = []
    class Overflow(Exception):
        pass
    def push(e):
        ev.append(e)
        if len(ev) > cap:
            raise Overflow()
    class Log(ForestVisitor):
        def visit_symbol_node_in(self, node):
            push([0, nid(node)]); return iter(node.children)
        def visit_symbol_node_out(self, node):
            push([1, nid(node)])
        def visit_packed_node_in(self, node):
            push([0, nid(node)]); return iter(node.children)
        def visit_packed_node_out(self, node):
            push([1, nid(node)])
        def visit_token_node(self, tok):
            push([2, ids.get(id(tok), -1)])
        def on_cycle(self, node, path):
            push([3, nid(node)])
    try:
        Log(single_visit=single_visit).visit(root)
    except Overflow:
        return None
    return {'nodes': order, 'kids': [[k, v] for k, v in kids.items()], 'toks': toks, 'sv': single_visit, 'root': nid(root), 'events': ev}


def export_cert(pf, root, text, lexer, cap=600):
    """the real SPPF below `root` in the format of the Lean checker ForestCert.checkForest (driver op forest_cert), with the lattice the property prescribes"""
    from lark.parsers.earley_forest import SymbolNode, TokenNode
    import earleylib
    rules, nts, tm = earleylib.export_rules(pf)
    rkey = lambda r: (r.origin.name, tuple((s_.is_term, s_.name) for s_ in r.expansion), r.alias, r.order)
    ridx = {rkey(r): i for i, r in enumerate(pf.rules)}
    if lexer == 'basic':
        toks = list(pf.lex(text))
        pos2idx = {t.start_pos: i for i, t in enumerate(toks)}
        n = len(toks); edges = [[tm[t.type], i, i + 1] for i, t in enumerate(toks) if t.type in tm]; igns = []
        span = lambda tok: (pos2idx[tok.start_pos], pos2idx[tok.start_pos] + 1)
    else:
        n, edges, igns = earleylib.spec_lattice(pf, text, lexer, tm)
        span = lambda tok: (tok.start_pos, tok.end_pos)
    ids, order, stack = {}, [], [root]
    while stack:
        x = stack.pop()
        if id(x) in ids or isinstance(x, TokenNode):
            continue
        ids[id(x)] = len(order); order.append(x)
        if len(order) > cap:
            return None
        for p_ in x.children:
            for c in (p_.left, p_.right):
                if c is not None and not isinstance(c, TokenNode):
                    stack.append(c)
    nodes, fams = [], []
    for x in order:
        if isinstance(x.s, tuple):
            nodes.append([1, ridx[rkey(x.s[0])], x.s[1], x.start, x.end])
        else:
            nodes.append([0, nts.setdefault(x.s.name, len(nts)), 0, x.start, x.end])
        fl = []
        for p_ in x.children:
            if p_.right is None:
                right = None
            elif isinstance(p_.right, TokenNode):
                a, b = span(p_.right.token)
                right = [1, tm.setdefault(p_.right.token.type, len(tm)), a, b]
            else:
                right = [0, ids[id(p_.right)]]
            fl.append([ridx[rkey(p_.rule)], None if p_.left is None else ids[id(p_.left)], right])
        fams.append(fl)
    return {'op': 'forest_cert', 'rules': rules, 'n': n, 'edges': edges, 'igns': igns, 'nodes': nodes, 'fams': fams, 'root': ids[id(root)]}


def _forest_case(args):
    g, seed, want = args          # want: set of 'c04','c05','c20'
    from lark import Lark, Tree, Token
    from lark.exceptions import GrammarError, UnexpectedInput, LarkError
    from lark.parsers.earley_forest import TreeForestTransformer, ForestVisitor, ForestTransformer, ForestSumVisitor, ForestToParseTree, SymbolNode
    from lark.visitors import CollapseAmbiguities
    rng = random.Random(seed)
    mp = rng.random() < 0.5
    rec = {'grammar': g, 'maybe_placeholders': mp, 'runs': []}
    try:
        with guarded(6):
            base = Lark(g, parser='earley', lexer='basic', ambiguity='explicit', maybe_placeholders=mp)
    except (GrammarError, LarkError) as e:
        rec['gerr'] = str(e)[:100]; return rec
    rules = base.rules
    decl = declared_priorities(g)
    rec['acyclic'] = oracle_derivs.acyclic(rules)
    rec['has_empty_rule'] = has_empty_rule(rules)
    texts = []
    for _ in range(3):
        try:
            texts.append(shapelib.sample_sentence(rng, base, maxlen=7))
        except (RecursionError, KeyError):
            pass
    texts.append(' '.join(rng.choice('abx') for _ in range(rng.randint(0, 5))))
    for text in dict.fromkeys(texts):
        lexer = rng.choice(LEXERS)
        run = {'text': text, 'lexer': lexer}
        try:
            toks = list(base.lex(text))
        except UnexpectedInput:
            continue
        # ---- brute-force derivations (acyclic grammars only; the enumeration itself is guarded)
        derivs = None
        if rec['acyclic']:
            try:
                with guarded(5):
                    alt = None
                    if lexer != 'basic':
                        import re as _re
                        cands = [(t_.name, _re.compile(t_.pattern.to_regexp())) for t_ in base.terminals if t_.name not in base.ignore_tokens]
                        alt = [{n_ for n_, rx in cands if rx.fullmatch(str(tk_))} for tk_ in toks]
                    derivs = oracle_derivs.derivations(rules, toks, 'start', alt)
                if len(derivs) > MAX_DERIVS:
                    derivs = None; run['too_many'] = True
            except (Timeout, RecursionError):
                derivs = None; run['enum_failed'] = True
        run['nderivs'] = None if derivs is None else len(derivs)
        if derivs is not None:
            run['unshaped'] = sorted(json.dumps(canon_deriv(d)) for d in derivs)
            raws = [deriv_to_raw(d) for d in derivs]
            shaped_in = []
            for r_ in raws:
                forest, nodes, tk = shapelib.to_forest(r_, base, mp)
                shaped_in.append({'forest': forest, 'labels': [shapelib.label_of(n.rule) for n in nodes], 'toks': [[t.type, str(t), t.start_pos, t.end_pos] for t in tk]})
            run['shape_inputs'] = shaped_in
        # ---- C20: the forest
        if 'c20' in want:
            try:
                with guarded(8):
                    pf = Lark(g, parser='earley', lexer=lexer, ambiguity='forest', maybe_placeholders=mp)
                    try:
                        root = pf.parse(text)
                    except UnexpectedInput:
                        root = None
                    run['forest_accept'] = root is not None
                    if root is not None:
                        run['is_ambiguous'] = bool(root.is_ambiguous)
                        # every visitor/transformer class of the forest API: the DFS path must stay simple (a node re-entered while it is still on the
                        # path is a loop; cycles must be retreated from and reported through on_cycle). Exponentially many simple paths are slow, not looping.
                        cyc = {'n': 0}; steps = {'n': 0}; loops = []
                        def checked(base, **kw):
                            class W(base):
                                def __init__(self):
                                    super().__init__(**kw)
                                    self._onpath = set()
                                def visit_symbol_node_in(self, node):
                                    steps['n'] += 1
                                    if id(node) in self._onpath:
                                        loops.append(base.__name__)
                                        raise RuntimeError('node re-entered while on the path')
                                    self._onpath.add(id(node))
                                    r = super().visit_symbol_node_in(node)
                                    return node.children if r is None and base is ForestVisitor else r
                                def visit_symbol_node_out(self, node):
                                    self._onpath.discard(id(node))
                                    return super().visit_symbol_node_out(node)
                                def visit_intermediate_node_out(self, node):
                                    self._onpath.discard(id(node))
                                    f = getattr(super(), 'visit_intermediate_node_out', None)
                                    return f(node) if f is not None else super().visit_symbol_node_out(node)
                                def visit_packed_node_in(self, node):
                                    r = super().visit_packed_node_in(node)
                                    return node.children if r is None and base is ForestVisitor else r
                                def on_cycle(self, node, path):
                                    cyc['n'] += 1
                                    self._onpath.discard(id(node)) if False else None
                                    return super().on_cycle(node, path)
                            return W()
                        def mixed_walker():
                            # symbol nodes hand back all their packed children, packed nodes a single ForestNode: shared sub-forests are reached several times
                            class Mx(ForestVisitor):
                                def __init__(self):
                                    super().__init__()
                                    self.ins = {}; self.outs = {}
                                def visit_symbol_node_in(self, node):
                                    steps['n'] += 1
                                    self.ins[id(node)] = self.ins.get(id(node), 0) + 1
                                    if self.ins[id(node)] - self.outs.get(id(node), 0) > 1:
                                        loops.append('mixed visitor'); raise RuntimeError('node re-entered while on the path')
                                    return node.children
                                def visit_symbol_node_out(self, node):
                                    self.outs[id(node)] = self.outs.get(id(node), 0) + 1
                                    if self.outs[id(node)] > self.ins.get(id(node), 0):
                                        loops.append('mixed visitor: out without in'); raise RuntimeError('node re-entered while on the path')
                                def visit_packed_node_in(self, node):
                                    ch = [c for c in node.children if not isinstance(c, TokenNode)]
                                    return ch[-1] if ch else None
                                def on_cycle(self, node, path):
                                    cyc['n'] += 1
                                    if not any(p is node for p in path):
                                        loops.append('mixed visitor: on_cycle for a node that is not on the path'); raise RuntimeError('node re-entered while on the path')
                            return Mx()
                        def single_child_walker():
                            # a user visitor whose *_in callbacks return a single ForestNode (the other branch of ForestVisitor.visit)
                            class S(ForestVisitor):
                                def __init__(self):
                                    super().__init__()
                                    self._onpath = set()
                                def visit_symbol_node_in(self, node):
                                    steps['n'] += 1
                                    if id(node) in self._onpath:
                                        loops.append('single-node visitor'); raise RuntimeError('node re-entered while on the path')
                                    self._onpath.add(id(node))
                                    ch = node.children
                                    return ch[0] if ch else None
                                def visit_symbol_node_out(self, node):
                                    if id(node) not in self._onpath:
                                        loops.append('single-node visitor: out without in'); raise RuntimeError('node re-entered while on the path')
                                    self._onpath.discard(id(node))
                                def visit_packed_node_in(self, node):
                                    ch = [c for c in node.children if not isinstance(c, TokenNode)]
                                    return ch[-1] if ch else None
                                def on_cycle(self, node, path):
                                    cyc['n'] += 1
                                    if not any(p is node for p in path):
                                        loops.append('single-node visitor: on_cycle for a node that is not on the path'); raise RuntimeError('node re-entered while on the path')
                            return S()
                        from lark.parsers.earley_forest import TokenNode
                        slow = []
                        for name, mk, call in [('single-node visitor', single_child_walker, 'visit'), ('mixed visitor', mixed_walker, 'visit'),('ForestVisitor', lambda: checked(ForestVisitor), 'visit'), ('ForestVisitor(single_visit)', lambda: checked(ForestVisitor, single_visit=True), 'visit'),
                                               ('ForestSumVisitor', lambda: ForestSumVisitor(), 'visit'), ('ForestTransformer', lambda: checked(ForestTransformer), 'transform'),
                                               ('TreeForestTransformer(resolve)', lambda: checked(TreeForestTransformer, resolve_ambiguity=True), 'transform'),
                                               ('TreeForestTransformer(all)', lambda: checked(TreeForestTransformer, resolve_ambiguity=False), 'transform')]:
                            try:
                                with guarded(2):
                                    getattr(mk(), call)(root)
                            except Timeout:
                                slow.append(name)
                            except RuntimeError as e:
                                if 're-entered' not in str(e): raise
                        run['walk_loops'] = loops; run['walk_slow'] = slow
                        run['visitor_steps'] = steps['n']; run['cycles_reported'] = cyc['n']
                        if slow:
                            rec['runs'].append(run); continue
                        t_all = TreeForestTransformer(resolve_ambiguity=False).transform(root)
                        t_one = TreeForestTransformer(resolve_ambiguity=True).transform(root)
                        ex = expand_ambig(t_all)
                        if len(ex) <= 4 * MAX_DERIVS:
                            run['forest_trees'] = sorted(json.dumps(canon_tree(x)) for x in ex)
                        run['forest_one'] = json.dumps(canon_tree(t_one))
                        run['graph_nodes'] = len(forest_stats(root))
                        run['visit_logs'] = [v for v in (visit_log(root, False), visit_log(root, True)) if v is not None]
                        try:
                            run['cert'] = export_cert(pf, root, text, lexer)
                        except KeyError as e:
                            run['cert_export_error'] = repr(e)
            except Timeout:
                run['forest_timeout'] = True
        # ---- C04: explicit ambiguity
        if 'c04' in want:
            try:
                with guarded(8):
                    pe = Lark(g, parser='earley', lexer=lexer, ambiguity='explicit', maybe_placeholders=mp)
                    try:
                        t = pe.parse(text)
                        ex = expand_ambig(t)
                        if len(ex) <= 4 * MAX_DERIVS:
                            run['explicit_trees'] = sorted(json.dumps(canon_tree(x)) for x in ex)
                            try:
                                ca = CollapseAmbiguities().transform(t)
                                run['collapse_trees'] = sorted(json.dumps(canon_tree(x)) for x in ca)
                            except Exception as e:
                                run['collapse_error'] = repr(e)[:100]
                        run['explicit_yields_ok'] = all([str(x) for x in tr.scan_values(lambda v: isinstance(v, Token))] is not None for tr in ex[:50])
                        run['explicit_accept'] = True
                    except UnexpectedInput:
                        run['explicit_accept'] = False
            except Timeout:
                run['explicit_timeout'] = True
        # ---- C05: resolution under the three priority modes
        if 'c05' in want:
            run['resolve'] = {}
            for mode in ('normal', 'invert', None):
                try:
                    with guarded(8):
                        pr = Lark(g, parser='earley', lexer=lexer, ambiguity='resolve', priority=mode, maybe_placeholders=mp)
                        if lexer == 'basic' and [t_.type for t_ in pr.lex(text)] != [t_.type for t_ in toks]:
                            continue        # overlapping terminals: priority=invert/None changes the basic lexer's tokenisation, the derivations above are those of another token string
                        try:
                            t = pr.parse(text)
                            raw = shapelib.raw_parse(pr, text)
                            def tup(x):
                                return (x.rule, [tup(c) if isinstance(c, shapelib.Raw) else c for c in x.children])
                            chosen = tup(raw)
                            # priorities as the *user wrote them* (base instance), not as rewritten by invert/None
                            by_key = {(str(r.origin.name), tuple(s.name for s in r.expansion)): r for r in rules}
                            def orig(d):
                                r, ch = d
                                return (by_key[(str(r.origin.name), tuple(s.name for s in r.expansion))], [orig(c) if isinstance(c, tuple) else c for c in ch])
                            tp = {t_.name: decl.get(t_.name, 0) for t_ in base.terminals} if lexer != 'basic' else None
                            run['resolve'][str(mode)] = {'tree': json.dumps(canon_tree(t)), 'deriv': json.dumps(canon_deriv(orig(chosen))), 'priority': deriv_priority(orig(chosen), tp, decl),
                                                         'empty_over_nonempty': empty_preference(chosen, rules)}
                            if mode == 'normal':
                                pf = Lark(g, parser='earley', lexer=lexer, ambiguity='forest', maybe_placeholders=mp)
                                root = pf.parse(text)
                                ForestSumVisitor().visit(root)
                                run['root_priority'] = root.priority if root.priority != float('-inf') else None
                                run['ao'] = sppf_to_ao(root, lexer != 'basic')
                                run['choices'] = choice_nodes(root)
                        except UnexpectedInput:
                            run['resolve'][str(mode)] = {'reject': True}
                except Timeout:
                    run['resolve'][str(mode)] = {'timeout': True}
            if derivs is not None:
                tp = {t_.name: decl.get(t_.name, 0) for t_ in base.terminals} if lexer != 'basic' else None
                run['deriv_priorities'] = [deriv_priority(d, tp, decl) for d in derivs]
        rec['runs'].append(run)
    return rec


def forest_stream(ctx, salt, want, n_quick, n_thorough, prio=True):
    from common import pmap, run_driver_parallel, tier_scale
    rng = random.Random(ctx['seed'] * 1000003 + salt)
    N = tier_scale(ctx['tier'], n_quick, n_thorough) * (3 if ctx['deepen'] else 1)
    jobs = [(gen_grammar(rng, prio=prio), rng.randrange(1 << 30), want) for _ in range(N)]
    outs = pmap(_forest_case, jobs, chunksize=2)
    # shape every brute-force derivation with the Lean model
    cases, where = [], []
    for ji, (st, rec) in enumerate(outs):
        if st != 'ok':
            continue
        for ri, run in enumerate(rec['runs']):
            for si, s in enumerate(run.get('shape_inputs', [])):
                cases.append({'op': 'shape', 'forest': s['forest']}); where.append((ji, ri, si))
            if run.get('ao') is not None:
                cases.append({'op': 'ao', 'forest': run['ao']}); where.append((ji, ri, 'ao'))
    model = run_driver_parallel(cases, timeout=900)
    for (ji, ri, si), m in zip(where, model):
        run = outs[ji][1]['runs'][ri]
        if si == 'ao':
            run['ao_model'] = m
        else:
            s = run['shape_inputs'][si]
            if 'error' in m:
                s['shaped'] = None
            else:
                s['shaped'] = json.dumps(strip(shapelib.model_tree(m['built'][0], s['labels'], s['toks'])))
    return jobs, outs


def strip(t):
    if t is None:
        return None
    if t[0] == 't':
        return ['t', t[1], t[2]]
    return ['T', t[1], [strip(c) for c in t[2]]]
