"""Regenerates lean/LarkVerif/Extracted.lean from /repo's *source text* (ast only; nothing is imported
or executed).  The property theorems in Props/ are stated over these values, with side conditions
closed by `decide`, so an edit of one of these constants/keys/field lists re-checks (and may break) a
proof obligation.  Also computes AST fingerprints of the functions the hand-written models mirror."""
import ast, json, hashlib, sys
from pathlib import Path
from common import REPO, LEAN, VERIF

class ExtractError(Exception):
    pass

def _parse(rel):
    p = REPO / rel
    try:
        return ast.parse(p.read_text())
    except Exception as e:
        raise ExtractError('%s: %s' % (rel, e))

def _module_const(tree, name, rel):
    for node in tree.body:
        if isinstance(node, ast.Assign) and any(isinstance(t, ast.Name) and t.id == name for t in node.targets):
            return ast.literal_eval(node.value)
    raise ExtractError('%s: constant %s not found' % (rel, name))

def _find(tree, path, rel):
    """path like 'Class.method' or 'func' → ast node"""
    cur = tree.body
    node = None
    for part in path.split('.'):
        node = None
        for n in cur:
            if isinstance(n, (ast.FunctionDef, ast.ClassDef, ast.AsyncFunctionDef)) and n.name == part:
                node = n          # the last definition wins (typing overloads come first)
        if node is None:
            raise ExtractError('%s: %s not found' % (rel, path))
        cur = node.body
    return node

def _tag_expr(e):
    """describe one component of a sort key: [sign, attribute path]"""
    sign = '+'
    if isinstance(e, ast.UnaryOp) and isinstance(e.op, ast.USub):
        sign = '-'
        e = e.operand
    if isinstance(e, ast.Call) and isinstance(e.func, ast.Name) and e.func.id == 'len':
        return [sign, 'len(' + _attr(e.args[0]) + ')']
    return [sign, _attr(e)]

def _attr(e):
    if isinstance(e, ast.Attribute):
        return _attr(e.value) + '.' + e.attr
    if isinstance(e, ast.Name):
        return e.id
    return ast.dump(e)

def lexer_sort_key(tree):
    """the lambda in `terminals.sort(key=lambda x: (...))` of BasicLexer.__init__"""
    init = _find(tree, 'BasicLexer.__init__', 'lark/lexer.py')
    for n in ast.walk(init):
        if isinstance(n, ast.Call) and isinstance(n.func, ast.Attribute) and n.func.attr == 'sort' and _attr(n.func.value) == 'terminals':
            for kw in n.keywords:
                if kw.arg == 'key' and isinstance(kw.value, ast.Lambda) and isinstance(kw.value.body, ast.Tuple):
                    return [_tag_expr(e) for e in kw.value.body.elts]
    raise ExtractError('lark/lexer.py: terminals.sort(key=lambda ...) not found in BasicLexer.__init__')

def packed_sort_key(tree):
    fn = _find(tree, 'PackedNode.sort_key', 'lark/parsers/earley_forest.py')
    for n in ast.walk(fn):
        if isinstance(n, ast.Return) and isinstance(n.value, ast.Tuple):
            return [_tag_expr(e) for e in n.value.elts]
    raise ExtractError('PackedNode.sort_key: tuple return not found')

def serialize_fields():
    out = {}
    for rel in ['lark/common.py', 'lark/lexer.py', 'lark/grammar.py', 'lark/parser_frontends.py', 'lark/lark.py', 'lark/utils.py']:
        tree = _parse(rel)
        for cls in [n for n in ast.walk(tree) if isinstance(n, ast.ClassDef)]:
            for st in cls.body:
                if isinstance(st, ast.Assign) and any(isinstance(t, ast.Name) and t.id == '__serialize_fields__' for t in st.targets):
                    v = ast.literal_eval(st.value)
                    out[cls.name] = [v] if isinstance(v, str) else list(v)
    return out

def unhashable(tree):
    init = _find(tree, 'Lark.__init__', 'lark/lark.py')
    for n in ast.walk(init):
        if isinstance(n, ast.Assign) and any(isinstance(t, ast.Name) and t.id == 'unhashable' for t in n.targets):
            return list(ast.literal_eval(n.value))
    raise ExtractError('lark/lark.py: unhashable tuple not found')

def option_defaults(tree):
    cls = _find(tree, 'LarkOptions', 'lark/lark.py')
    for st in cls.body:
        tgt = None
        if isinstance(st, ast.AnnAssign) and isinstance(st.target, ast.Name):
            tgt, val = st.target.id, st.value
        elif isinstance(st, ast.Assign) and isinstance(st.targets[0], ast.Name):
            tgt, val = st.targets[0].id, st.value
        if tgt == '_defaults' and isinstance(val, ast.Dict):
            return [ast.literal_eval(k) for k in val.keys]
    raise ExtractError('LarkOptions._defaults not found')

def cache_key_shape(tree):
    """how the cache key string is built: 'repr-tuple' (injective) or 'concat' (F4)"""
    init = _find(tree, 'Lark.__init__', 'lark/lark.py')
    for n in ast.walk(init):
        if isinstance(n, ast.Assign) and any(isinstance(t, ast.Name) and t.id == 's' for t in n.targets):
            v = n.value
            if isinstance(v, ast.Call) and isinstance(v.func, ast.Name) and v.func.id == 'repr' and isinstance(v.args[0], ast.Tuple):
                return ['repr-tuple'] + [_attr(e) if not isinstance(e, ast.Subscript) else _attr(e.value) + '[]' for e in v.args[0].elts]
            if isinstance(v, ast.BinOp):
                return ['concat']
    return ['unknown']

MODELLED = {
    # rel path : functions mirrored by a Lean model (fingerprinted so that an edit is visible in evidence
    # and deepens the correspondence run for the properties that depend on it)
    'lark/utils.py': ['small_factors', 'TextSlice.__post_init__', 'Serialize.serialize', 'Serialize.deserialize', '_serialize', '_deserialize', 'Enumerator.get', 'Enumerator.reversed'],
    'lark/load_grammar.py': ['EBNF_to_BNF._add_repeat_rule', 'EBNF_to_BNF._add_repeat_opt_rule', 'EBNF_to_BNF._generate_repeats', 'EBNF_to_BNF.expr',
                             'GrammarBuilder.do_import', '_get_mangle', '_mangle_definition_tree', 'GrammarBuilder._extend', 'GrammarBuilder._define', 'SimplifyRule_Visitor.expansion',
                             'EBNF_to_BNF._add_rule', 'EBNF_to_BNF._add_recurse_rule', 'EBNF_to_BNF.maybe', 'FindRuleSize._will_not_get_removed', 'FindRuleSize._args_as_int', 'FindRuleSize.expansion', 'FindRuleSize.expansions'],
    'lark/lexer.py': ['LineCounter.feed', 'LineCounter.advance_to', 'LineCounter.from_text_slice', '_create_unless', 'Scanner._build_mres', 'Scanner.match', 'Scanner.search',
                      'BasicLexer.__init__', 'BasicLexer._build_scanner', 'BasicLexer.next_token', 'ContextualLexer.__init__', 'ContextualLexer.lex'],
    'lark/parsers/earley.py': ['Parser.predict_and_complete', 'Parser._parse', 'Parser.parse'],
    'lark/parsers/xearley.py': ['Parser._parse'],
    'lark/parsers/earley_forest.py': ['PackedNode.sort_key', 'PackedNode.__eq__', 'PackedNode.__init__', 'SymbolNode.add_family', 'SymbolNode.is_ambiguous', 'ForestToParseTree.on_cycle', 'TreeForestTransformer._call_rule_func', 'ForestSumVisitor.visit_packed_node_out', 'ForestSumVisitor.visit_symbol_node_out', 'ForestVisitor.visit', 'ForestToParseTree.visit_packed_node_in'],
    'lark/parsers/grammar_analysis.py': ['calculate_sets', 'GrammarAnalyzer.expand_rule'],
    'lark/parsers/lalr_analysis.py': ['ParseTableBase.serialize', 'ParseTableBase.deserialize', 'digraph', 'traverse', 'LALR_Analyzer.compute_lr0_states', 'LALR_Analyzer.compute_reads_relations', 'LALR_Analyzer.compute_includes_lookback',
                                      'LALR_Analyzer.compute_lookaheads', 'LALR_Analyzer.compute_lalr1_states'],
    'lark/parsers/lalr_parser_state.py': ['ParserState.feed_token', 'ParserState.copy'],
    'lark/parsers/lalr_interactive_parser.py': ['InteractiveParser.accepts', 'InteractiveParser.copy', 'InteractiveParser.as_immutable'],
    'lark/parse_tree_builder.py': ['maybe_create_child_filter', 'ChildFilter.__call__', 'ChildFilterLALR.__call__', 'ChildFilterLALR_NoPlaceholders.__call__', 'ExpandSingleChild.__call__',
                                   'PropagatePositions.__call__', 'PropagatePositions._pp_get_meta', 'ParseTreeBuilder._init_builders', 'ParseTreeBuilder.create_callback'],
    'lark/parser_frontends.py': ['ParsingFrontend._scan' if False else 'ParsingFrontend.scan'],
    'lark/indenter.py': ['Indenter.handle_NL', 'Indenter._process', 'Indenter.process'],
    'lark/visitors.py': ['Transformer._transform_tree', 'Transformer_NonRecursive.transform', 'Transformer_InPlace.transform', 'CollapseAmbiguities.__default__'],
    'lark/tree.py': ['Tree.__deepcopy__', 'Tree.iter_subtrees'],
    'lark/lark.py': ['Lark.__init__', 'Lark._load', 'Lark.save'],
    'lark/reconstruct.py': ['Reconstructor.reconstruct', 'Reconstructor._reconstruct'],
    'lark/tree_matcher.py': ['TreeMatcher.match_tree', 'TreeMatcher._build_recons_rules'],
}

def fingerprints():
    out = {}
    missing = []
    for rel, names in MODELLED.items():
        try:
            tree = _parse(rel)
        except ExtractError as e:
            missing.append(str(e)); continue
        for name in names:
            try:
                node = _find(tree, name, rel)
            except ExtractError:
                missing.append('%s:%s' % (rel, name)); continue
            out['%s:%s' % (rel, name)] = hashlib.sha256(ast.dump(node, annotate_fields=False, include_attributes=False).encode()).hexdigest()[:16]
    return out, missing

# ---- inventory of state written after construction (C10): every attribute of `self` that a method other than a constructor assigns, deletes, subscripts
# for writing or mutates through a container method, and every module-level name written from inside a function, in the files on the parse path
STATE_FILES = ['lark/lexer.py', 'lark/lark.py', 'lark/parser_frontends.py', 'lark/parsers/lalr_parser.py', 'lark/parsers/lalr_parser_state.py',
               'lark/parsers/lalr_interactive_parser.py', 'lark/parsers/earley.py', 'lark/parsers/xearley.py', 'lark/parsers/earley_common.py', 'lark/parse_tree_builder.py',
               'lark/indenter.py', 'lark/tree_matcher.py', 'lark/reconstruct.py', 'lark/visitors.py', 'lark/common.py', 'lark/grammar.py', 'lark/parsers/cyk.py',
               'lark/parsers/earley_forest.py', 'lark/utils.py', 'lark/tree.py', 'lark/exceptions.py']
_CTOR = {'__init__', '__post_init__', '__new__', '__setstate__', '__deepcopy__', '_deserialize', 'deserialize', '__copy__'}
_MUT = {'append', 'add', 'update', 'setdefault', 'pop', 'clear', 'extend', 'insert', 'remove', 'discard', 'popitem', 'appendleft', 'sort', 'reverse'}

def state_inventory():
    out = {}
    for f in STATE_FILES:
        try:
            t = _parse(f)
        except ExtractError:
            continue
        mod = f.split('/')[-1]
        modnames = {tg.id for n in t.body if isinstance(n, ast.Assign) for tg in n.targets if isinstance(tg, ast.Name)}
        def is_self_attr(y):
            return isinstance(y, ast.Attribute) and isinstance(y.value, ast.Name) and y.value.id == 'self'
        for cls in [n for n in ast.walk(t) if isinstance(n, ast.ClassDef)]:
            for fn in [n for n in cls.body if isinstance(n, ast.FunctionDef)]:
                if fn.name in _CTOR:
                    continue
                for n in ast.walk(fn):
                    tg = []
                    if isinstance(n, ast.Assign): tg = n.targets
                    elif isinstance(n, (ast.AugAssign, ast.AnnAssign)): tg = [n.target]
                    elif isinstance(n, ast.Delete): tg = n.targets
                    for x in tg:
                        for y in ast.walk(x):
                            if is_self_attr(y) and isinstance(y.ctx, (ast.Store, ast.Del)):
                                out.setdefault(mod + ':' + cls.name, set()).add(y.attr)
                            if isinstance(y, ast.Subscript) and is_self_attr(y.value):
                                out.setdefault(mod + ':' + cls.name, set()).add(y.value.attr + '[]')
                    if isinstance(n, ast.Call) and isinstance(n.func, ast.Attribute) and n.func.attr in _MUT and is_self_attr(n.func.value):
                        out.setdefault(mod + ':' + cls.name, set()).add(n.func.value.attr + '.' + n.func.attr)
        for fn in [n for n in ast.walk(t) if isinstance(n, ast.FunctionDef)]:
            for n in ast.walk(fn):
                if isinstance(n, ast.Global):
                    out.setdefault(mod + ':<module>', set()).update(n.names)
                tg = []
                if isinstance(n, ast.Assign): tg = n.targets
                elif isinstance(n, ast.AugAssign): tg = [n.target]
                for x in tg:
                    if isinstance(x, ast.Subscript) and isinstance(x.value, ast.Name) and x.value.id in modnames:
                        out.setdefault(mod + ':<module>', set()).add(x.value.id + '[]')
                if isinstance(n, ast.Call) and isinstance(n.func, ast.Attribute) and n.func.attr in _MUT and isinstance(n.func.value, ast.Name) and n.func.value.id in modnames:
                    out.setdefault(mod + ':<module>', set()).add(n.func.value.id + '.' + n.func.attr)
            for d in fn.decorator_list:
                sd = ast.unparse(d)
                if 'cache' in sd.lower() or 'memo' in sd.lower():
                    out.setdefault(mod + ':<module>', set()).add('@' + sd + ' ' + fn.name)
    return {k: sorted(v) for k, v in sorted(out.items())}

def find_rule_size(tree):
    """load_grammar.FindRuleSize: which aggregate each method applies, and when a symbol counts"""
    out = []
    for meth in ('expansion', 'expansions'):
        fn = _find(tree, 'FindRuleSize.' + meth, 'lark/load_grammar.py')
        rets = [n for n in ast.walk(fn) if isinstance(n, ast.Return)]
        if len(rets) != 1 or not isinstance(rets[0].value, ast.Call) or not isinstance(rets[0].value.func, ast.Name):
            raise ExtractError('FindRuleSize.%s: not of the form `return f(...)`' % meth)
        out.append((meth, rets[0].value.func.id + '(' + ', '.join(ast.unparse(a) for a in rets[0].value.args) + ')'))
    fn = _find(tree, 'FindRuleSize._will_not_get_removed', 'lark/load_grammar.py')
    for n in fn.body:
        if isinstance(n, ast.If) and len(n.body) == 1 and isinstance(n.body[0], ast.Return):
            out.append((ast.unparse(n.test), ast.unparse(n.body[0].value)))
    fn = _find(tree, 'FindRuleSize._args_as_int', 'lark/load_grammar.py')
    for n in ast.walk(fn):
        if isinstance(n, ast.Yield):
            out.append(('yield', ast.unparse(n.value)))
    return out

def lean_str_list(l):
    return '[' + ', '.join(json.dumps(x) for x in l) + ']'

def extract():
    lg = _parse('lark/load_grammar.py')
    lx = _parse('lark/lexer.py')
    ef = _parse('lark/parsers/earley_forest.py')
    lk = _parse('lark/lark.py')
    vals = {
        'smallFactorThreshold': _module_const(lg, 'SMALL_FACTOR_THRESHOLD', 'lark/load_grammar.py'),
        'repeatBreakThreshold': _module_const(lg, 'REPEAT_BREAK_THRESHOLD', 'lark/load_grammar.py'),
        'lexerSortKey': lexer_sort_key(lx),
        'packedSortKey': packed_sort_key(ef),
        'serializeFields': serialize_fields(),
        'loadAllowedOptions': sorted(_module_const(lk, '_LOAD_ALLOWED_OPTIONS', 'lark/lark.py')),
        'unhashableOptions': unhashable(lk),
        'optionDefaults': option_defaults(lk),
        'cacheKeyShape': cache_key_shape(lk),
        'findRuleSize': find_rule_size(lg),
        'stateInventory': state_inventory(),
    }
    return vals

def render(vals):
    L = []
    L.append('/-! GENERATED by harness/extract.py from the source text of /repo on every run — do not edit. -/')
    L.append('namespace Extracted')
    L.append('def smallFactorThreshold : Nat := %d' % vals['smallFactorThreshold'])
    L.append('def repeatBreakThreshold : Nat := %d' % vals['repeatBreakThreshold'])
    def keylist(k):
        return '[' + ', '.join('(%s, %s)' % (json.dumps(s), json.dumps(a)) for s, a in k) + ']'
    L.append('/-- lark/lexer.py BasicLexer.__init__: `terminals.sort(key=lambda x: (...))` as (sign, expression) -/')
    L.append('def lexerSortKey : List (String × String) := ' + keylist(vals['lexerSortKey']))
    L.append('/-- lark/parsers/earley_forest.py PackedNode.sort_key -/')
    L.append('def packedSortKey : List (String × String) := ' + keylist(vals['packedSortKey']))
    L.append('def serializeFields : List (String × List String) := [' + ', '.join('(%s, %s)' % (json.dumps(c), lean_str_list(f)) for c, f in sorted(vals['serializeFields'].items())) + ']')
    L.append('def loadAllowedOptions : List String := ' + lean_str_list(vals['loadAllowedOptions']))
    L.append('def unhashableOptions : List String := ' + lean_str_list(vals['unhashableOptions']))
    L.append('def optionDefaults : List String := ' + lean_str_list(vals['optionDefaults']))
    L.append('def cacheKeyShape : List String := ' + lean_str_list(vals['cacheKeyShape']))
    L.append('/-- lark/load_grammar.py FindRuleSize: (method or condition, expression) -/')
    L.append('def findRuleSize : List (String × String) := ' + keylist(vals['findRuleSize']))
    L.append('/-- attributes of `self` written by methods other than constructors (assignment, deletion, subscript store, container mutators) and module-level names')
    L.append('    written from inside functions, per class, in the files on the parse path -/')
    L.append('def stateInventory : List (String × List String) := [' + ', '.join('(%s, %s)' % (json.dumps(c), lean_str_list(f)) for c, f in sorted(vals['stateInventory'].items())) + ']')
    L.append('end Extracted')
    return '\n'.join(L) + '\n'

def main(write=True):
    """returns (vals, fingerprints, missing, changed_fingerprints)"""
    vals = extract()
    text = render(vals)
    target = LEAN / 'LarkVerif' / 'Extracted.lean'
    if write and (not target.exists() or target.read_text() != text):
        target.write_text(text)
    fp, missing = fingerprints()
    base_p = VERIF / 'harness' / 'fingerprints.json'
    changed = []
    if base_p.exists():
        base = json.loads(base_p.read_text())
        changed = sorted(k for k in set(base) | set(fp) if base.get(k) != fp.get(k))
    return vals, fp, missing, changed

if __name__ == '__main__':
    vals, fp, missing, changed = main()
    if '--pin' in sys.argv:
        (VERIF / 'harness' / 'fingerprints.json').write_text(json.dumps(fp, indent=1, sort_keys=True) + '\n')
        print('pinned', len(fp), 'fingerprints')
    print(json.dumps(vals, indent=1)[:3000])
    print('missing:', missing)
    print('changed:', changed)
