"""Step 1+2 of every check (DESIGN §2.5): regenerate Extracted.lean from /repo, `lake build`, audit the proofs."""
import os, re, subprocess, fcntl, time, json
from pathlib import Path
from common import LEAN, VERIF
import extract as extractor
import registry

ALLOWED_AXIOMS = {'propext', 'Classical.choice', 'Quot.sound'}
FORBIDDEN = re.compile(r'\bsorry\b|\badmit\b|^\s*axiom\s|native_decide|bv_decide|implemented_by|\bunsafe\s|maxHeartbeats\s+0|^\s*partial\s')

def _strip_comments(text):
    text = re.sub(r'/-.*?-/', lambda m: '\n' * m.group(0).count('\n'), text, flags=re.S)
    return '\n'.join(l.split('--')[0] for l in text.split('\n'))

def grep_forbidden():
    hits = []
    for p in sorted((LEAN / 'LarkVerif').rglob('*.lean')):
        for i, line in enumerate(_strip_comments(p.read_text()).split('\n'), 1):
            if FORBIDDEN.search(line):
                hits.append('%s:%d: %s' % (p.relative_to(LEAN), i, line.strip()[:100]))
    return hits

def _run(cmd, timeout=1800):
    env = dict(os.environ)
    p = subprocess.run(cmd, cwd=str(LEAN), capture_output=True, text=True, timeout=timeout, env=env)
    return p.returncode, p.stdout + p.stderr

def build():
    """returns dict(ok, failed_modules, log, extract_error, changed_fingerprints, missing_functions, wall_s)"""
    t0 = time.time()
    info = {'ok': True, 'failed_modules': [], 'log': '', 'extract_error': None, 'changed_fingerprints': [], 'missing_functions': []}
    lock = open(LEAN / '.build.lock', 'w')
    fcntl.flock(lock, fcntl.LOCK_EX)
    try:
        try:
            vals, fp, missing, changed = extractor.main()
            info['extracted'] = vals
            info['changed_fingerprints'] = changed
            info['missing_functions'] = missing
        except extractor.ExtractError as e:
            info['extract_error'] = str(e)
            info['ok'] = False
        rc, out = _run(['lake', 'build', 'LarkVerif', 'driver'])
        out = '\n'.join(l for l in out.split('\n') if 'WARNING' not in l)
        if rc != 0:
            info['ok'] = False
            info['failed_modules'] = sorted(set(re.findall(r'✖ \[\d+/\d+\] (?:Building|Built|Running|Compiling|Linking) (\S+)', out)) | set(re.findall(r'error: (LarkVerif/\S+?\.lean)', out)))
            info['log'] = out[-6000:]
    finally:
        fcntl.flock(lock, fcntl.LOCK_UN)
        lock.close()
    info['wall_s'] = round(time.time() - t0, 2)
    return info

def audit(theorems, modules=('LarkVerif',)):
    """`#print axioms` for each theorem name → {name: [axioms] | None (missing)}"""
    src = ''.join('import %s\n' % m for m in modules) + '\n'.join('#print axioms %s' % t for t in theorems) + '\n'
    path = LEAN / ('.audit_%d.lean' % os.getpid())
    path.write_text(src)
    try:
        rc, out = _run(['lake', 'env', 'lean', path.name], timeout=900)
    finally:
        try: path.unlink()
        except OSError: pass
    res = {}
    out = out.replace('\n  ', ' ')
    for t in theorems:
        m = re.search(r"'%s' depends on axioms: \[([^\]]*)\]" % re.escape(t), out)
        if m:
            res[t] = [a.strip() for a in m.group(1).replace('\n', ' ').split(',') if a.strip()]
        elif re.search(r"'%s' does not depend on any axioms" % re.escape(t), out):
            res[t] = []
        else:
            res[t] = None
    return res, out

def leanchecker(modules):
    rc, out = _run(['lake', 'env', 'leanchecker'] + modules, timeout=3600)
    return rc == 0, out[-2000:]

def proof_status(pid, binfo, thorough=False):
    """Evaluates the proof obligations of property `pid`.  Returns dict with obligations/discharged/broken list."""
    reg = registry.PROPS[pid]
    thms = reg['theorems']
    st = {'obligations': len(thms), 'discharged': 0, 'broken': [], 'axioms': {}, 'theorems': thms,
          'checker_cmd': 'cd lean && lake build LarkVerif driver && lake env lean <generated #print axioms file>' + (' && lake env leanchecker ' + ' '.join(reg['modules']) if thorough else ''),
          'forbidden_hits': []}
    if binfo.get('extract_error'):
        st['broken'].append('extractor: ' + binfo['extract_error'])
    mods = set(reg['modules'])
    failed = [m for m in binfo.get('failed_modules', []) if m.replace('/', '.').replace('.lean', '') in mods or m in mods]
    if not binfo['ok'] and (failed or not binfo.get('failed_modules')):
        st['broken'].append('lake build failed for: %s' % (failed or 'unknown target'))
        st['build_log'] = binfo.get('log', '')[-3000:]
        return st
    if not binfo['ok']:
        # some other property's module failed; our own modules may still have built. Audit decides.
        pass
    hits = grep_forbidden()
    st['forbidden_hits'] = hits
    if hits:
        st['broken'].append('forbidden constructs in the Lean library: %s' % hits[:5])
    ax, raw = audit(thms, reg['modules'])
    for t in thms:
        a = ax.get(t)
        st['axioms'][t] = a
        if a is None:
            st['broken'].append('theorem %s is missing or does not check' % t)
        elif not set(a) <= ALLOWED_AXIOMS:
            st['broken'].append('theorem %s depends on non-standard axioms %s' % (t, sorted(set(a) - ALLOWED_AXIOMS)))
        else:
            st['discharged'] += 1
    if thorough and not st['broken']:
        ok, out = leanchecker(reg['modules'])
        st['leanchecker'] = 'ok' if ok else out
        if not ok:
            st['broken'].append('leanchecker rejected the compiled modules')
    return st
