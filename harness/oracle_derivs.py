"""Independent oracle (Python): brute-force enumeration of all derivations of a token string in lark's compiled BNF rules (fixpoint-pruned), and the
derivation-cycle test.  Used to decide C04/C05/C20 on concrete cases together with the Lean shape/priority models."""

def acyclic(rules):
    by = {}
    for r in rules: by.setdefault(r.origin.name, []).append(r)
    nullable = set(); ch = True
    while ch:
        ch = False
        for r in rules:
            if r.origin.name not in nullable and all((not s.is_term) and s.name in nullable for s in r.expansion):
                nullable.add(r.origin.name); ch = True
    edges = {}
    for r in rules:
        for i, s in enumerate(r.expansion):
            if not s.is_term and all((not t.is_term) and t.name in nullable for j, t in enumerate(r.expansion) if j != i):
                edges.setdefault(r.origin.name, set()).add(s.name)
    # cycle detection
    color = {}
    def dfs(u):
        color[u] = 1
        for v in edges.get(u, ()):
            if color.get(v) == 1: return False
            if v not in color and not dfs(v): return False
        color[u] = 2; return True
    return all(dfs(u) for u in list(by) if u not in color)

def derivations(rules, toks, start, alt_types=None):
    """alt_types[i]: the set of terminal names token i may be read as (dynamic lexers with overlapping terminals); default: its own type"""
    def is_(i, name):
        return toks[i].type == name if alt_types is None else name in alt_types[i]
    def leaf(i, name):
        if toks[i].type == name: return toks[i]
        from lark import Token
        return Token.new_borrow_pos(name, str(toks[i]), toks[i])
    by = {}
    for r in rules: by.setdefault(r.origin.name, []).append(r)
    n = len(toks)
    # 1. derivable triples by fixpoint
    D = set()
    def feas(syms, i, j, memo):
        key = (syms, i, j)
        if key in memo: return memo[key]
        if not syms: r = (i == j)
        else:
            s = syms[0]; r = False
            if s.is_term:
                r = i < j and is_(i, s.name) and feas(syms[1:], i + 1, j, memo)
            else:
                r = any((s.name, i, k) in D and feas(syms[1:], k, j, memo) for k in range(i, j + 1))
        memo[key] = r; return r
    ch = True
    while ch:
        ch = False; memo = {}
        for r in rules:
            for i in range(n + 1):
                for j in range(i, n + 1):
                    if (r.origin.name, i, j) not in D and feas(tuple(r.expansion), i, j, memo):
                        D.add((r.origin.name, i, j)); ch = True
    fm = {}
    memo2 = {}
    def seqs(syms, i, j):
        if not syms: return [[]] if i == j else []
        out = []; s = syms[0]
        if s.is_term:
            if i < j and is_(i, s.name) and feas(syms[1:], i + 1, j, fm):
                for rest in seqs(syms[1:], i + 1, j): out.append([leaf(i, s.name)] + rest)
        else:
            for k in range(i, j + 1):
                if (s.name, i, k) in D and feas(syms[1:], k, j, fm):
                    ds = nt(s.name, i, k)
                    for rest in seqs(syms[1:], k, j):
                        for d in ds: out.append([d] + rest)
        return out
    def nt(A, i, j):
        key = (A, i, j)
        if key in memo2:
            if memo2[key] is None: raise RecursionError('cycle')
            return memo2[key]
        memo2[key] = None
        res = []
        for r in by.get(A, []):
            if feas(tuple(r.expansion), i, j, fm):
                for ch in seqs(tuple(r.expansion), i, j): res.append((r, ch))
        memo2[key] = res
        return res
    if (start, 0, n) not in D: return []
    return nt(start, 0, n)



def derivations_lattice(rules, n, term_spans, start, end_ok, limit=400):
    """All derivations of a character lattice (dynamic lexers): positions are offsets 0..n; `term_spans(name, i)` lists the (i', j') a terminal can
    occupy when it is expected at offset i (ignored text between i and i' already skipped); `end_ok(j)`: the rest of the input after j is ignorable.
    A derivation is (rule, children); a terminal child is (name, i', j').  Returns None when more than `limit` derivations exist."""
    by = {}
    for r in rules: by.setdefault(r.origin.name, []).append(r)
    D = set()
    def feas(syms, i, j, memo):
        key = (syms, i, j)
        if key in memo: return memo[key]
        if not syms: r = (i == j)
        else:
            s = syms[0]
            if s.is_term:
                r = any(jj <= j and feas(syms[1:], jj, j, memo) for _ii, jj in term_spans(s.name, i))
            else:
                r = any((s.name, i, k) in D and feas(syms[1:], k, j, memo) for k in range(i, j + 1))
        memo[key] = r; return r
    ch = True
    while ch:
        ch = False; memo = {}
        for r in rules:
            for i in range(n + 1):
                for j in range(i, n + 1):
                    if (r.origin.name, i, j) not in D and feas(tuple(r.expansion), i, j, memo):
                        D.add((r.origin.name, i, j)); ch = True
    fm, memo2 = {}, {}
    count = [0]
    class TooMany(Exception): pass
    def seqs(syms, i, j):
        if not syms: return [[]] if i == j else []
        out = []; s = syms[0]
        if s.is_term:
            for ii, jj in term_spans(s.name, i):
                if jj <= j and feas(syms[1:], jj, j, fm):
                    for rest in seqs(syms[1:], jj, j): out.append([(s.name, ii, jj)] + rest)
        else:
            for k in range(i, j + 1):
                if (s.name, i, k) in D and feas(syms[1:], k, j, fm):
                    ds = nt(s.name, i, k)
                    for rest in seqs(syms[1:], k, j):
                        for d in ds: out.append([d] + rest)
        if len(out) > limit: raise TooMany
        return out
    def nt(A, i, j):
        key = (A, i, j)
        if key in memo2:
            if memo2[key] is None: raise RecursionError('cycle')
            return memo2[key]
        memo2[key] = None
        res = []
        for r in by.get(A, []):
            if feas(tuple(r.expansion), i, j, fm):
                for ch_ in seqs(tuple(r.expansion), i, j): res.append((r, ch_))
        if len(res) > limit: raise TooMany
        memo2[key] = res
        return res
    out = []
    try:
        for j in range(n + 1):
            if end_ok(j) and (start, 0, j) in D:
                out.extend(nt(start, 0, j))
    except TooMany:
        return None
    return out if len(out) <= limit else None
