"""Seeded structured generators shared by several properties."""
import random

# (lark spelling, can_match_newline, ascii_only, kind)
TERM_SPELLINGS = [
    ('"a"', False, True, 'str'), ('"b"', False, True, 'str'), ('"ab"', False, True, 'str'), ('"c"', False, True, 'str'),
    ('"\\n"', True, True, 'str'), ('"a\\nb"', True, True, 'str'), ('" "', False, True, 'str'), ('"\\t"', False, True, 'str'),
    ('"if"i', False, True, 'str'), ('"-"', False, True, 'str'), ('"--"', False, True, 'str'),
    ('/a+/', False, True, 're'), ('/[ab]+/', False, True, 're'), ('/\\n/', True, True, 're'), ('/\\n+/', True, True, 're'),
    ('/[ \\t]+/', False, True, 're'), ('/\\s+/', True, True, 're'), ('/\\s/', True, True, 're'), ('/\\W/', True, True, 're'),
    ('/\\W+/', True, True, 're'), ('/\\D/', True, True, 're'), ('/[^a]/', True, True, 're'), ('/[^ab]+/', True, True, 're'),
    ('/./s', True, True, 're'), ('/(?s:.)/', True, True, 're'), ('/./', False, True, 're'), ('/[\\x00-\\x7f]/', True, True, 're'),
    ('/\\012/', True, True, 're'), ('/\\x0a/', True, True, 're'), ('/\\u000a/', True, False, 're'),
    ('/(?:a|\\n)+/', True, True, 're'), ('/a*\\n/', True, True, 're'), ('/\\n */', True, True, 're'), ('/[\\s]/', True, True, 're'),
    ('/[^\\S ]/', True, True, 're'), ('/a\\nb/', True, True, 're'), ('/\\d+/', False, True, 're'), ('/[a-c]+/', False, True, 're'),
    ('/b+?\\n/', True, True, 're'), ('/\\r?\\n/', True, True, 're'), ('/\\n\\r?/', True, True, 're'), ('/[\\t-\\r]/', True, True, 're'),
    ('/c|\\n/', True, True, 're'), ('/[^\\w ]/', True, True, 're'), ('/(?i:A)\\n?/', True, True, 're'), ('/\\S+/', False, True, 're'),
    ('/\\w+/', False, True, 're'), ('/é+/', False, False, 're'), ('/[^\\x00-\\x09\\x0b-\\x7f]?\\n/', True, True, 're'),
    # an optional multi-character tail: a proper prefix of a match may be matched only partially (dynamic_complete tries the prefixes)
    ('/a(\\n\\nb)?/', True, True, 're'), ('/a(bc)?/', False, True, 're'), ('/0+(-0+)?/', False, True, 're'), ('/b(\\n c)?/', True, True, 're'),
]

ALPHABET = ['a', 'b', 'c', ' ', '\n', '\n', '\t', '0', '-', 'A', '\r']


def term_set(rng, n_min=1, n_max=5, ascii_only=False, allow_ignore=True):
    """returns (list of (name, spelling, can_nl), ignore index or None)"""
    pool = [t for t in TERM_SPELLINGS if t[2] or not ascii_only]
    k = rng.randint(n_min, n_max)
    chosen = rng.sample(pool, k)
    terms = [('T%d' % i, sp, nl) for i, (sp, nl, _a, _k) in enumerate(chosen)]
    ign = None
    if allow_ignore and rng.random() < 0.45:
        sp, nl, _a, _k = rng.choice([t for t in pool if t[3] == 're' or rng.random() < 0.5])
        terms.append(('IGN', sp, nl))
        ign = len(terms) - 1
    return terms, ign


def term_grammar(terms, ign, prio=None):
    names = [n for n, _s, _nl in terms if n != 'IGN']
    g = 'start: (%s)*\n' % ' | '.join(names)
    for i, (n, sp, _nl) in enumerate(terms):
        p = ''
        if prio and prio.get(n):
            p = '.%d' % prio[n]
        g += '%s%s: %s\n' % (n, p, sp)
    if ign is not None:
        g += '%ignore IGN\n'
    return g


def rand_text(rng, max_len=12, alphabet=None, nonascii=False):
    al = list(alphabet or ALPHABET)
    if nonascii:
        al = al + ['é', 'é']
    return ''.join(rng.choice(al) for _ in range(rng.randint(0, max_len)))
