"""Shared infrastructure of the lark verification harness (see DESIGN.md §2).

Everything here is deterministic given VERIF_SEED.  The real code under test is imported from
the *current working tree* of /repo (override with LARK_REPO for scratch copies)."""
import os, sys, json, time, random, signal, resource, hashlib, subprocess, traceback, fcntl
from pathlib import Path

VERIF = Path(__file__).resolve().parent.parent
REPO = Path(os.environ.get('LARK_REPO', '/repo'))
LEAN = VERIF / 'lean'
DRIVER = LEAN / '.lake' / 'build' / 'bin' / 'driver'
if str(REPO) not in sys.path:
    sys.path.insert(0, str(REPO))
os.environ.setdefault('LARK_VERIF', '1')      # MANIFEST.hooks.guard (no guarded code exists; reserved)

AS_LIMIT = 4 << 30


class Timeout(BaseException):    # BaseException: must not be swallowed by an `except Exception` inside the code under test
    pass


def _alarm(signum, frame):
    raise Timeout()


def guard_init():
    """Called in every worker: soft address-space limit + SIGALRM → Timeout."""
    soft, hard = resource.getrlimit(resource.RLIMIT_AS)
    try:
        resource.setrlimit(resource.RLIMIT_AS, (AS_LIMIT, hard))
    except Exception:
        pass
    signal.signal(signal.SIGALRM, _alarm)
    sys.setrecursionlimit(20000)


def lift_limits():
    """preexec_fn for the Lean driver: a Lean exe that inherits RLIMIT_AS cannot start threads."""
    soft, hard = resource.getrlimit(resource.RLIMIT_AS)
    resource.setrlimit(resource.RLIMIT_AS, (hard, hard))


class guarded:
    """with guarded(seconds): ...   raises Timeout; MemoryError passes through."""
    def __init__(self, seconds):
        self.seconds = seconds
    def __enter__(self):
        signal.setitimer(signal.ITIMER_REAL, self.seconds)
    def __exit__(self, *a):
        signal.setitimer(signal.ITIMER_REAL, 0)
        return False


def _pmap_call(args):
    func, item = args
    try:
        return ('ok', func(item))
    except Timeout:
        return ('timeout', None)
    except MemoryError:
        return ('memory', None)
    except RecursionError:
        return ('recursion', None)
    except Exception:
        return ('exc', traceback.format_exc()[-2000:])


def pmap(func, items, procs=None, chunksize=4):
    """Run func over items in guarded worker processes; func must be a module-level function."""
    import multiprocessing as mp
    items = list(items)
    procs = procs or min(16, os.cpu_count() or 4)
    if procs == 1 or len(items) <= 2:
        guard_init()
        return [_pmap_call((func, it)) for it in items]
    ctx = mp.get_context('fork')
    with ctx.Pool(procs, initializer=guard_init) as pool:
        return pool.map(_pmap_call, [(func, it) for it in items], chunksize=chunksize)


# ------------------------------------------------------------------------------------------
# Lean driver (line protocol, batch mode)

class DriverError(Exception):
    pass


def run_driver(cases, timeout=600):
    """cases: list of JSON-able dicts (each with an "op").  Returns list of decoded results."""
    if not cases:
        return []
    if not DRIVER.exists():
        raise DriverError('driver binary missing: %s' % DRIVER)
    data = '\n'.join(json.dumps(c, separators=(',', ':')) for c in cases) + '\n'
    try:
        p = subprocess.run([str(DRIVER)], input=data, capture_output=True, text=True,
                           timeout=timeout, preexec_fn=lift_limits)
    except subprocess.TimeoutExpired as e:
        out = e.stdout or ''
        if isinstance(out, bytes):
            out = out.decode()
        done = out.count('\n')
        raise DriverError('driver timeout after %d of %d cases; stuck case: %s' % (done, len(cases), json.dumps(cases[done])[:500]))
    lines = p.stdout.splitlines()
    if p.returncode != 0 or len(lines) != len(cases):
        raise DriverError('driver rc=%s lines=%d/%d stderr=%s' % (p.returncode, len(lines), len(cases), p.stderr[-500:]))
    return [json.loads(l) for l in lines]


def run_driver_parallel(cases, procs=8, timeout=600):
    """Split the batch over several driver processes (the driver is single threaded)."""
    if len(cases) < 200 or procs <= 1:
        return run_driver(cases, timeout)
    from concurrent.futures import ThreadPoolExecutor
    k = (len(cases) + procs - 1) // procs
    chunks = [cases[i:i + k] for i in range(0, len(cases), k)]
    with ThreadPoolExecutor(len(chunks)) as ex:
        outs = list(ex.map(lambda c: run_driver(c, timeout), chunks))
    return [r for o in outs for r in o]


# ------------------------------------------------------------------------------------------
# Results, evidence, violations

def canon_hash(obj):
    return hashlib.sha256(json.dumps(obj, sort_keys=True, default=repr).encode()).hexdigest()[:16]


class Result:
    """Accumulates what a property run explored and found."""
    def __init__(self, pid, tier, seed):
        self.pid, self.tier, self.seed = pid, tier, seed
        self.evaluations = 0
        self.distinct = set()
        self.samples = []
        self.stats = {}
        self.violations = []        # property-level failures with concrete replay (dicts)
        self.corr_breaks = []       # model/code disagreements that are not (yet) property failures
        self.known_hits = []        # (finding id, text)
        self.inconclusive = {}
        self.rule = ''
        self.notes = []
        self.extra = {}

    def count(self, key, n=1):
        self.stats[key] = self.stats.get(key, 0) + n

    def case(self, canon, nontrivial=True, sample=None):
        self.evaluations += 1
        if nontrivial:
            self.distinct.add(canon_hash(canon))
        if sample is not None and len(self.samples) < 6:
            self.samples.append(sample)

    def violation(self, what, replay):
        if len(self.violations) < 20:
            self.violations.append({'what': what, 'replay': replay})
        self.count('violations_seen')

    def corr_break(self, what, replay):
        if len(self.corr_breaks) < 20:
            self.corr_breaks.append({'what': what, 'replay': replay})
        self.count('correspondence_breaks_seen')


def write_json(path, obj):
    path = Path(path)
    path.parent.mkdir(parents=True, exist_ok=True)
    tmp = path.with_suffix(path.suffix + '.tmp')
    tmp.write_text(json.dumps(obj, indent=1, sort_keys=False, default=repr) + '\n')
    os.replace(tmp, path)


def exc_in_lark(tb_text):
    """True when the innermost frame of a formatted traceback lies in lark's source (as opposed to the harness)."""
    import re
    files = re.findall(r'File "([^"]+)"', tb_text or '')
    # (a stand-alone module generated by lark.tools.standalone is lark's code too: the C11 harness writes it to <tmp>/larkverif_c11_*/sa_mod.py)
    if not files or '/harness/' in files[-1]:
        return False
    if '/lark/' in files[-1] or '/sa_mod.py' in files[-1]:
        return True
    # raised inside a library lark called (re, interegular, pickle, ...): the exception escaped from lark's code all the same —
    # some lark frame lies between the harness and the raising frame
    last_harness = max([i for i, f in enumerate(files) if '/harness/' in f] or [-1])
    return any('/lark/' in f or '/sa_mod.py' in f for f in files[last_harness + 1:])


class InfraError(Exception):
    pass


def load_known_findings():
    p = VERIF / 'known_findings.json'
    if not p.exists():
        return []
    return json.loads(p.read_text())['findings']


def tier_scale(tier, quick, thorough):
    return thorough if tier == 'thorough' else quick


def sha(s):
    if isinstance(s, str):
        s = s.encode()
    return hashlib.sha256(s).hexdigest()
