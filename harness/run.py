"""Entry point behind /verif/check.   usage: run.py <ID> [--tier quick|thorough] [--replay FILE] | --setup | --all"""
import os, sys, json, time, importlib, traceback, argparse
from pathlib import Path
sys.path.insert(0, str(Path(__file__).resolve().parent))
import common
from common import VERIF, Result, write_json, load_known_findings
import registry, leanbuild

TRUSTED_BASE = [
    'Lean 4.33.0 kernel (thorough tier: re-checked with leanchecker)',
    'axioms: propext, Classical.choice, Quot.sound only (audited with #print axioms on every run)',
    'harness/extract.py (source → Extracted.lean) and the Python correspondence harness',
    'Python re/pickle/hashlib/file system/GIL behaviour: parameters of the models, sampled by the correspondence',
]

def do_setup():
    b = leanbuild.build()
    print('setup: lake build', 'ok' if b['ok'] else 'FAILED', '%.1fs' % b['wall_s'])
    if not b['ok']:
        print(b['log'][-3000:])
        return 2
    return 0

def replay_path(pid, seed, tier):
    return VERIF / 'replays' / ('%s_%s_%s.json' % (pid, tier, seed))

def main(argv):
    ap = argparse.ArgumentParser()
    ap.add_argument('pid', nargs='?')
    ap.add_argument('--tier', default=os.environ.get('VERIF_TIER', 'quick'))
    ap.add_argument('--replay')
    ap.add_argument('--setup', action='store_true')
    a = ap.parse_args(argv)
    if a.setup:
        return do_setup()
    pid = a.pid
    if pid not in registry.PROPS:
        print('unknown property', pid); return 2
    tier = 'thorough' if a.tier == 'thorough' else 'quick'
    try:
        seed = int(os.environ.get('VERIF_SEED', '0'))
    except ValueError:
        seed = 0
    t0 = time.time()
    reg = registry.PROPS[pid]
    binfo = leanbuild.build()
    pst = leanbuild.proof_status(pid, binfo, thorough=(tier == 'thorough'))
    res = Result(pid, tier, seed)
    mod = importlib.import_module('props.' + pid.lower())
    ctx = {'seed': seed, 'tier': tier, 'build': binfo, 'proof': pst, 'replay': a.replay,
           'driver_ok': common.DRIVER.exists() and not any('Driver' in m or 'driver' in m for m in binfo.get('failed_modules', [])) ,
           'deepen': bool(set(binfo.get('changed_fingerprints', [])) & set(reg.get('fingerprints', []))) or bool(pst['broken']),
           'known': [f for f in load_known_findings() if f['property'] == pid]}
    infra_error = None
    try:
        mod.run(ctx, res)
    except common.DriverError as e:
        infra_error = 'driver: %s' % e
    except Exception as e:
        tb = traceback.format_exc()[-3000:]
        if not isinstance(e, common.InfraError) and common.exc_in_lark(tb):
            # lark itself raised something no part of the harness expects (a pinned witness or a direct call behaving in a new way):
            # that is an observation about the code, not a harness failure
            res.violation('lark raised an unexpected %s during the check (a direct call of the harness, e.g. the replay of a pinned witness)' % type(e).__name__, {'traceback': tb})
        else:
            infra_error = tb
    wall = time.time() - t0

    # ---- decide
    lines = []
    exit_code = 0
    for fid, text in res.known_hits:
        lines.append('KNOWN-FINDING: property=%s %s %s' % (pid, fid, text))
    rp = replay_path(pid, seed, tier)
    if res.violations:
        write_json(rp, {'property': pid, 'seed': seed, 'tier': tier, 'kind': 'failing-input', 'violations': res.violations,
                        'broken_obligations': pst['broken'], 'correspondence_breaks': res.corr_breaks[:5],
                        'replay_cmd': './check %s --replay %s' % (pid, rp)})
        lines.append('VIOLATION property=%s replay=%s' % (pid, rp))
        exit_code = 1
    elif pst['broken'] or res.corr_breaks:
        write_json(rp, {'property': pid, 'seed': seed, 'tier': tier, 'kind': 'no-failing-input-found',
                        'broken_obligations': pst['broken'], 'correspondence_breaks': res.corr_breaks,
                        'build_log': pst.get('build_log', ''),
                        'searched': {'evaluations': res.evaluations, 'stats': res.stats},
                        'note': 'the named theorem(s)/correspondence no longer check; the search over model and implementation found no input on which the property fails'})
        lines.append('VIOLATION property=%s replay=%s no-failing-input-found' % (pid, rp))
        exit_code = 1
    if infra_error and exit_code == 0:
        exit_code = 2

    # ---- evidence
    cov = {
        'obligations': max(1, pst['obligations']), 'discharged': pst['discharged'],
        'checker_cmd': pst['checker_cmd'], 'trusted_base': TRUSTED_BASE + reg.get('trusted_extra', []),
        'theorems': pst['axioms'], 'broken_obligations': pst['broken'],
        'evaluations': res.evaluations, 'distinct_nontrivial': len(res.distinct),
        'rule': res.rule or reg.get('rule', ''), 'samples': res.samples or ['(no case was run)'],
        'distribution': res.stats, 'inconclusive': res.inconclusive,
        'correspondence_breaks': len(res.corr_breaks), 'known_findings_reproduced': [k for k, _ in res.known_hits],
        'changed_source_fingerprints': binfo.get('changed_fingerprints', []),
        'not_proved': reg.get('not_proved', []), 'notes': res.notes,
    }
    cov.update(res.extra)
    ev = {'property_id': pid, 'tier': tier, 'seed': seed, 'level': 'proof', 'coverage': cov,
          'assumptions': reg.get('assumptions', []), 'wall_s': round(wall, 2), 'violations': len(res.violations) + (1 if exit_code == 1 and not res.violations else 0)}
    if infra_error:
        ev['coverage']['infrastructure_error'] = infra_error
    write_json(VERIF / 'evidence' / (pid + '.json'), ev)
    for l in lines:
        print(l)
    print('%s %s seed=%d: %d cases (%d distinct non-trivial), %d/%d obligations, %d violations, %d correspondence breaks, %.1fs%s'
          % (pid, tier, seed, res.evaluations, len(res.distinct), pst['discharged'], pst['obligations'], len(res.violations), len(res.corr_breaks), wall,
             '  INFRA-ERROR' if infra_error else ''))
    if infra_error:
        print(infra_error, file=sys.stderr)
    return exit_code

if __name__ == '__main__':
    sys.exit(main(sys.argv[1:]))
