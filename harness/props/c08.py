"""C08 — rejections are UnexpectedInput errors at the first offending position (Earley part; the LALR part is in lalrlib)."""
import json
from common import exc_in_lark, InfraError
import earleylib


def check_earley(ctx, res):
    stream, problems = earleylib.earley_stream(ctx, 8, 2500, 30000, ntexts=5)
    for job, st, detail in problems:
        if st == 'exc':
            if not exc_in_lark(detail):
                raise InfraError(detail)
            res.violation('parse raised an exception that is not a subclass of UnexpectedInput', {'grammar': job[0], 'detail': detail})
        else:
            res.inconclusive[st] = res.inconclusive.get(st, 0) + 1
    for g, rec, m in stream:
        if 'build' in rec:
            continue
        if rec.get('timeout'):
            res.violation('parse did not return (property: never a hang)', {'grammar': g, 'start': rec.get('start_sym', 'start'), 'starts': rec.get('starts', ['start']), 'text': rec['text'], 'lexer': rec['lexer']}); continue
        if m is None or rec['ok']:
            continue
        if 'error' in m:
            raise InfraError('driver: %s' % m['error'])
        if m['accept']:
            continue        # a C01 disagreement, reported there
        text, lexer, n = rec['text'], rec['lexer'], rec['n']
        tn = rec['tnames']
        last = max(i for i, c in enumerate(m['cols']) if c)          # last non-empty chart column = longest viable prefix (Chart.viable)
        exp = sorted(tn[a] for a in m['expected'][last])
        if lexer != 'basic' and not exp and any(a == last for a, _b in rec['igns']):
            res.count('skipped_region_of_F18'); continue      # nothing expected + an ignore match here: known finding F18 (pinned witness below)
        res.case(['c08', g, text, lexer], nontrivial=True,
                 sample={'grammar': g, 'text': text, 'lexer': lexer, 'error': rec['err'], 'pos': rec.get('pos'), 'expected': rec.get('expected')} if last > 0 and last < n else None)
        res.count('earley_%s_%s' % (lexer, rec['err']))
        # Props.C08.earley_expected_exact applies where Lean's certificate checker accepts the grammar as productive: there the model's set IS the set of legal next terminals
        res.count('expected_set_exact_by_theorem' if m.get('productive') is True else 'expected_set_backed_only_unproductive_grammar')
        where = {'grammar': g, 'start': rec.get('start_sym', 'start'), 'starts': rec.get('starts', ['start']), 'text': text, 'lexer': lexer, 'code': {k: rec.get(k) for k in ('err', 'pos', 'line', 'column', 'expected', 'token_type')}}
        if last == n:
            want = {'err': 'UnexpectedEOF', 'expected': exp}
            if rec['err'] == 'UnexpectedToken' and rec.get('token_type') == '$END':
                want['err'] = 'UnexpectedToken'
            ok = rec['err'] == want['err'] and sorted(set(rec['expected'])) == exp
        elif lexer == 'basic':
            pos, line, col = rec['tokpos'][last]
            want = {'err': 'UnexpectedToken', 'pos': pos, 'line': line, 'column': col, 'expected_superset_of': exp}
            ok = rec['err'] == 'UnexpectedToken' and rec['pos'] == pos and (rec['line'], rec['column']) == (line, col) and set(exp) <= set(rec['expected'])
        else:
            line = text.count('\n', 0, last) + 1
            col = last - (text.rfind('\n', 0, last) + 1) + 1
            want = {'err': 'UnexpectedCharacters', 'pos': last, 'line': line, 'column': col, 'expected': exp}
            ok = rec['err'] == 'UnexpectedCharacters' and rec['pos'] == last and (rec['line'], rec['column']) == (line, col) and rec['expected'] == exp
        if not ok:
            where['model'] = want
            res.violation('rejection is not reported at the first offending position with the %s continuation set' % ('exact' if lexer != 'basic' else 'covering'), where)


def replay_known(ctx, res):
    from lark import Lark
    from lark.exceptions import UnexpectedCharacters
    for f in ctx['known']:
        if f['id'] == 'F18' and f['status'] == 'open':
            w = f['witness']
            p = Lark(w['grammar'], parser='earley', lexer=w['lexer'])
            from lark.exceptions import UnexpectedInput
            try:
                p.parse(w['text'])
                res.violation('the pinned witness of F18 behaves in a new way: accepted', dict(w))
            except UnexpectedCharacters as e:
                if e.pos_in_stream != 0:
                    res.known_hits.append(('F18', '%s: %r on %r reports offset %d, first dead offset is 0' % (f['what'], w['grammar'], w['text'], e.pos_in_stream)))
            except UnexpectedInput as e:
                res.violation('the pinned witness of F18 behaves in a new way: %s instead of UnexpectedCharacters' % type(e).__name__, dict(w))


def replay_f36(ctx, res):
    from lark import Lark
    from lark.exceptions import UnexpectedCharacters, UnexpectedInput
    for f in ctx['known']:
        if f['id'] == 'F36' and f['status'] == 'open':
            w = f['witness']
            try:
                Lark(w['grammar'], parser='earley', lexer=w['lexer']).parse(w['text'])
                res.violation('the pinned witness of F36 behaves in a new way: accepted', dict(w))
            except UnexpectedCharacters as e:
                if sorted(e.allowed) == w['reported_allowed']:
                    res.known_hits.append(('F36', '%s: %r on %r reports allowed=%s at offset %d although no sentence of the grammar exists' % (f['what'], w['grammar'], w['text'], sorted(e.allowed), e.pos_in_stream)))
                elif e.allowed:
                    res.violation('the pinned witness of F36 behaves in a new way: allowed=%s' % sorted(e.allowed), dict(w))
            except UnexpectedInput as e:
                res.violation('the pinned witness of F36 behaves in a new way: %s instead of UnexpectedCharacters' % type(e).__name__, dict(w))


def replay_f35(ctx, res):
    from lark import Lark
    from lark.exceptions import UnexpectedCharacters
    for f in ctx['known']:
        if f['id'] == 'F35' and f['status'] == 'fixed':
            w = f['witness']
            for parser, lexer in (('earley', 'basic'), ('lalr', 'basic'), ('lalr', 'contextual')):
                try:
                    Lark(w['grammar'], parser=parser, lexer=lexer).parse(w['text'])
                    got = 'accepted'
                except UnexpectedCharacters as e:
                    got = sorted(e.allowed)
                if got != ['IF', 'NAME']:
                    res.violation('regression of fixed finding F35: ' + f['what'], {'grammar': w['grammar'], 'text': w['text'], 'parser': parser, 'lexer': lexer, 'allowed': got, 'legal_next': ['IF', 'NAME']})


def run(ctx, res):
    replay_known(ctx, res)
    replay_f35(ctx, res)
    replay_f36(ctx, res)
    check_earley(ctx, res)
    # LALR clauses: error at the first token the (model) driver cannot consume, accepts() = trial feeding, accepts within expected, no hang
    from props import c02
    c02.run(ctx, res, focus='c08')
