"""C19 — Reconstructor output re-parses to the same tree."""
import random, json
from common import pmap, run_driver, guarded, Timeout, tier_scale, exc_in_lark, InfraError
import shapelib, lalrlib

# terminals that cannot merge lexically when written next to each other with the Reconstructor's spacing rule (outside finding F7)
EXTRA_TERMS = 'NAME: /[a-z]+/\nNUM: /[0-9]+/\n'


def gen(rng):
    while True:
        g = shapelib.gen_grammar(rng).replace('/z/', '"z"')
        if 'tp{' not in g:       # template instances: known finding F21 (pinned witness)
            break
    if rng.random() < 0.4:
        # identifiers and numbers next to keywords and punctuation: exercises the spacing rule
        g = g.replace('A: "a"', 'A: "aa"').replace('B: "b"', rng.choice(['B: "b"', 'B: /[0-9]+/', 'B: "if"']))
        g = g.replace('"x"', rng.choice(['"x"', '","', '"("', '";"'])).replace('"y"', rng.choice(['"y"', '")"', '"let"', '"="']))
    return g


def f23_region(p):
    for r in p.rules:
        if r.options.expand1:
            kept = [s for s in r.expansion if not (s.is_term and s.filter_out)]
            if len(kept) == 1 and (not kept[0].is_term) and kept[0].name.startswith('_'):
                return True
    return False


def supported(p):
    for r in p.rules:
        kept = [s for s in r.expansion if not (s.is_term and s.filter_out) and s != r.origin]
        if not kept:
            return False
    for t in p.terminals:
        if t.pattern.type != 'str' and any(s.is_term and s.filter_out and s.name == t.name for r in p.rules for s in r.expansion):
            return False
    return True


def sample(rng, p):
    """like shapelib.sample_sentence but with values for regexp terminals"""
    by = {}
    for r in p.rules: by.setdefault(r.origin.name, []).append(r)
    pat = {}
    for t in p.terminals:
        if t.pattern.type == 'str':
            pat[t.name] = [t.pattern.value]
        else:
            pat[t.name] = ['7', '42', '0'] if '0-9' in t.pattern.value else ['q', 'foo', 'bar']
    out = []
    from lark.grammar import NonTerminal
    def expand(sym, depth):
        if len(out) > 10: raise RecursionError
        if sym.is_term: out.append(rng.choice(pat[sym.name])); return
        rs = by[sym.name]
        r = rng.choice(rs) if depth < 6 else min(rs, key=lambda r: len(r.expansion))
        for s in r.expansion: expand(s, depth + 1)
    expand(NonTerminal('start'), 0)
    return ' '.join(out)


def _case(args):
    g, seed = args
    from lark import Lark, Tree, Token
    from lark.exceptions import GrammarError, UnexpectedInput, LarkError
    from lark.reconstruct import Reconstructor
    from lark.utils import is_id_continue
    rng = random.Random(seed)
    recs = []
    for parser in ('lalr', 'earley'):
        try:
            with guarded(8):
                p = Lark(g, parser=parser, maybe_placeholders=False)
                pe = Lark(g, parser='earley', ambiguity='explicit', maybe_placeholders=False)
        except (GrammarError, LarkError):
            recs.append({'parser': parser, 'skip': 'no_build'}); continue
        if not supported(p):
            recs.append({'parser': parser, 'skip': 'outside_supported_class'}); continue
        if f23_region(p):
            recs.append({'parser': parser, 'skip': 'region_of_F23'}); continue
        if lalrlib.has_derivation_cycle([(r.origin.name, tuple((s.is_term, s.name) for s in r.expansion)) for r in p.rules]):
            recs.append({'parser': parser, 'skip': 'cyclic'}); continue
        # "an unambiguous grammar": decided by a sufficient condition — the grammar is LALR(1) without any shift/reduce or reduce/reduce conflict
        try:
            with guarded(8):
                ex = lalrlib.export(g)
            conflict_free = ex['error'] is None and not any(len(c) > 1 or any(sh[0] == la for sh in row['shifts']) for row in ex['rows'] for la, c in row['las'])
        except Exception:
            conflict_free = False
        if not conflict_free:
            recs.append({'parser': parser, 'skip': 'not_provably_unambiguous'}); continue
        with guarded(8):
            rec = Reconstructor(p)
        for _ in range(3):
            try:
                s = sample(rng, p)
            except (RecursionError, KeyError):
                continue
            r = {'parser': parser, 'text': s}
            try:
                with guarded(8):
                    try:
                        t = p.parse(s)
                    except UnexpectedInput:
                        r['skip'] = 'sample_rejected'; recs.append(r); continue
                    if list(pe.parse(s).find_data('_ambig')):
                        r['skip'] = 'ambiguous'; recs.append(r); continue
                    items = [str(x) for x in rec._reconstruct(t)]
                    out = rec.reconstruct(t)
                    r['items'] = items; r['out'] = out
                    r['idchars'] = ''.join(sorted({c for it in items for c in it if is_id_continue(c)}))
                    try:
                        t2 = p.parse(out)
                        r['same'] = (t2 == t)
                        if t2 != t:
                            r['tree'] = str(t)[:300]; r['tree2'] = str(t2)[:300]
                    except UnexpectedInput as e:
                        r['same'] = False; r['reparse_error'] = type(e).__name__
            except Timeout:
                r['skip'] = 'timeout'
            recs.append(r)
    return {'grammar': g, 'recs': recs}


# realistic shapes (unambiguous, conflict-free LALR, inside the supported class): nested ?rules with several children, repetition helpers next to them,
# rule names that are prefixes of one another, several statement kinds in one input — one Reconstructor serves several trees
CORPUS = [
    'start: stmt+\nstmt: NAME "=" sum ";" | call ";"\ncall: NAME "(" sum ("," sum)* ")"\n?sum: product | sum "+" product\n?product: atom | product "*" atom\n?atom: NUM | NAME | "(" sum ")"\n' + EXTRA_TERMS + '%ignore " "\n',
    'start: stmt+\nstmt: "export" names ";" | "use" name ";"\nnames: name ("," name)*\nname: NAME ("." NAME)*\n' + EXTRA_TERMS + '%ignore " "\n',
    'start: item+\nitem: "f" arglist ";" | "g" arg ";"\narglist: "(" arg ("," arg)* ")"\narg: NAME | NUM\n' + EXTRA_TERMS + '%ignore " "\n',
    'start: (decl | expr_stmt)+\ndecl: "let" NAME "=" expr ";"\nexpr_stmt: expr ";"\n?expr: term | expr "-" term\n?term: NUM | NAME | list\nlist: "[" [expr ("," expr)*] "]"\n' + EXTRA_TERMS + '%ignore " "\n',
    'start: pair+\npair: key ":" value ";"\nkey: NAME\n?value: NUM | NAME | obj\nobj: "{" pair* "}"\n' + EXTRA_TERMS + '%ignore " "\n',
    # everyday rule and alias names (they share a namespace with the methods of the transformers the Reconstructor is made of)
    'start: item+\nitem: literal ";" | args ";" | "let" token "=" value ";"\nliteral: NUM | NAME "." NAME -> match\nargs: "(" literal ("," literal)* ")"\ntoken: NAME\n?value: literal | args -> rule\n' + EXTRA_TERMS + '%ignore " "\n',
    # tree names that no root-only rule of the matcher carries: an alias that starts with an underscore, and a ?start rule that keeps its own node
    # only when it has several statements
    '?start: stmt+\nstmt: NAME "=" value ";"\nvalue: NUM | "-" NUM -> _negative | NAME "." NAME -> _path\n' + EXTRA_TERMS + '%ignore " "\n',
    'start: entry+\nentry: key "=" val ";"\nkey: NAME\nval: NUM -> _num | "[" val ("," val)* "]" -> _list | NAME\n' + EXTRA_TERMS + '%ignore " "\n',
    # a terminal whose matches differ in whether their first character continues an identifier ("-7" / "42") right after a word: whether a blank is needed
    # depends on the texts, not on the pair of terminals
    'start: stmt+\nstmt: "set" NAME SNUM ";" | "add" SNUM NAME ";"\nSNUM: /-?[0-9]+/\n' + EXTRA_TERMS + '%ignore " "\n',
    'start: stmt+\nstmt: NAME OP NAME ";"\nOP: "+" | "and" | "-"\n' + EXTRA_TERMS + '%ignore " "\n',
]


def _corpus_case(args):
    gi, seed = args
    from lark import Lark
    from lark.exceptions import UnexpectedInput
    from lark.reconstruct import Reconstructor
    rng = random.Random(seed)
    g = CORPUS[gi]
    p = Lark(g, parser='lalr', maybe_placeholders=False)
    by = {}
    for r in p.rules: by.setdefault(r.origin.name, []).append(r)
    def sample_long():
        out = []
        from lark.grammar import NonTerminal
        def expand(sym, depth):
            if sym.is_term:
                t = [t for t in p.terminals if t.name == sym.name][0]
                out.append(t.pattern.value if t.pattern.type == 'str' else rng.choice(['-7', '42', '-1', '3'] if '-?' in t.pattern.value else ['+', 'and', '-'] if t.name == 'OP' else ['7', '42'] if '0-9' in t.pattern.value else ['q', 'foo', 'b']))
                return
            rs = by[sym.name]
            r = rng.choice(rs) if depth < 5 and len(out) < 40 else min(rs, key=lambda r: len(r.expansion))
            for s_ in r.expansion: expand(s_, depth + 1)
        expand(NonTerminal('start'), 0)
        return ' '.join(out)
    texts = []
    for _ in range(4):
        try:
            texts.append(sample_long())
        except RecursionError:
            pass
    shared = Reconstructor(p)
    fails = []
    order = list(range(len(texts))); rng.shuffle(order)
    with guarded(30):
        for i in order:
            s = texts[i]
            try:
                t = p.parse(s)
            except UnexpectedInput:
                continue
            outs = {}
            for name, rc in (('shared', shared), ('fresh', Reconstructor(p))):
                try:
                    o = rc.reconstruct(t)
                    try:
                        outs[name] = [o, p.parse(o) == t]
                    except UnexpectedInput as e:
                        outs[name] = [o, False]
                except Exception as e:
                    if not exc_in_lark_local(e):
                        raise
                    outs[name] = ['raised ' + repr(e)[:120], False]
            if not outs['fresh'][1] or not outs['shared'][1] or outs['fresh'][0] != outs['shared'][0]:
                fails.append({'text': s, 'reconstructed_by_a_fresh_Reconstructor': outs['fresh'], 'reconstructed_by_the_one_used_for_the_earlier_trees': outs['shared'], 'earlier_texts': [texts[j] for j in order[:order.index(i)]]})
                break
    return {'grammar': g, 'texts': texts, 'fails': fails}


def exc_in_lark_local(e):
    import traceback
    return any('/lark/' in fr.filename for fr in traceback.extract_tb(e.__traceback__))


def run(ctx, res):
    rng = random.Random(ctx['seed'] * 1000003 + 19)
    for f in ctx['known']:
        if f['id'] == 'F7' and f['status'] == 'open':
            from lark import Lark
            from lark.exceptions import UnexpectedInput
            from lark.reconstruct import Reconstructor
            w = f['witness']
            p = Lark(w['grammar'], parser='lalr', maybe_placeholders=False)
            out = Reconstructor(p).reconstruct(p.parse(w['text']))
            try:
                ok = p.parse(out) == p.parse(w['text'])
            except UnexpectedInput:
                ok = False
            if not ok:
                res.known_hits.append(('F7', '%s: %r, reconstruct(parse(%r)) == %r does not re-parse to the same tree' % (f['what'], w['grammar'], w['text'], out)))
        if f['id'] == 'F23' and f['status'] == 'open':
            from lark import Lark
            from lark.reconstruct import Reconstructor
            w = f['witness']
            p = Lark(w['grammar'], parser='lalr', maybe_placeholders=False)
            try:
                ok = p.parse(Reconstructor(p).reconstruct(p.parse(w['text']))) == p.parse(w['text'])
            except Exception:
                ok = False
            if not ok:
                res.known_hits.append(('F23', '%s: %r on the tree of %r' % (f['what'], w['grammar'], w['text'])))
        if f['id'] == 'F21' and f['status'] == 'open':
            from lark import Lark
            from lark.reconstruct import Reconstructor
            w = f['witness']
            p = Lark(w['grammar'], parser='lalr', maybe_placeholders=False)
            try:
                ok = p.parse(Reconstructor(p).reconstruct(p.parse(w['text']))) == p.parse(w['text'])
            except Exception as e:
                ok = False
            if not ok:
                res.known_hits.append(('F21', '%s: %r on the tree of %r' % (f['what'], w['grammar'], w['text'])))
    N = tier_scale(ctx['tier'], 2500, 30000) * (3 if ctx['deepen'] else 1)
    jobs = [(gen(rng), rng.randrange(1 << 30)) for _ in range(N)]
    outs = pmap(_case, jobs, chunksize=4)
    cases, meta = [], []
    for job, (st, rec) in zip(jobs, outs):
        if st != 'ok':
            if st == 'exc':
                if not exc_in_lark(rec):
                    raise InfraError(rec)
                res.violation('the Reconstructor raised on a tree of the supported class', {'grammar': job[0], 'seed': job[1], 'detail': rec})
            else:
                res.inconclusive[st] = res.inconclusive.get(st, 0) + 1
            continue
        for r in rec['recs']:
            if 'skip' in r:
                res.count('skip_' + r['skip']); continue
            cases.append({'op': 'recons_join', 'items': r['items'], 'idchars': r['idchars']}); meta.append((rec['grammar'], r))
    model = run_driver(cases)
    for (g, r), m in zip(meta, model):
        where = {'grammar': g, 'parser': r['parser'], 'text': r['text'], 'reconstructed': r['out']}
        res.case(['c19', g, r['parser'], r['text']], nontrivial=len(r['items']) > 1, sample=dict(where, emitted_items=r['items']) if len(r['items']) > 3 and len(res.samples) < 3 else None)
        res.count('trees_' + r['parser'])
        if isinstance(m, dict):
            raise InfraError('driver: %s' % m)
        if not r['same']:
            res.violation('reconstruct(tree) does not re-parse to an equal tree', dict(where, reparse_error=r.get('reparse_error'), tree=r.get('tree'), reparsed=r.get('tree2'))); continue
        if m != r['out']:
            res.corr_break('text assembly differs from the Lean joinItems', dict(where, model=m, items=r['items']))
    # ---- corpus of realistic shapes, several trees through one Reconstructor
    cj = [(i % len(CORPUS), rng.randrange(1 << 30)) for i in range(tier_scale(ctx['tier'], 150, 3000) * (3 if ctx['deepen'] else 1))]
    for job, (st, rec) in zip(cj, pmap(_corpus_case, cj, chunksize=4)):
        if st != 'ok':
            if st == 'exc':
                if not exc_in_lark(rec):
                    raise InfraError(rec)
                res.violation('the Reconstructor raised on a tree of the supported class', {'grammar': CORPUS[job[0]], 'seed': job[1], 'detail': rec})
            else:
                res.inconclusive[st] = res.inconclusive.get(st, 0) + 1
            continue
        res.case(['c19corpus', job[0], rec['texts']], nontrivial=len(rec['texts']) > 1, sample={'grammar': rec['grammar'], 'texts': rec['texts']} if len(res.samples) < 5 else None)
        res.count('corpus_histories'); res.count('corpus_trees', len(rec['texts']))
        for f in rec['fails']:
            res.violation('reconstruct(tree) does not re-parse to an equal tree, or depends on the trees reconstructed before', dict(f, grammar=rec['grammar']))
