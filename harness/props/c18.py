"""C18 — Indenter emits CPython's INDENT/DEDENT structure (and C10's reset clause for the Indenter)."""
import random, io, tokenize, json
from common import run_driver, pmap, guarded, tier_scale, exc_in_lark, InfraError

TAB_LENS = [8, 4, 1]


def make_stream(rng, tab_len):
    """random token stream; returns (spec tokens for the model, raw (type, value) pairs for the real Indenter)"""
    spec, raw = [], []
    depth = 0
    n = rng.randint(0, 14)
    for _ in range(n):
        r = rng.random()
        if r < 0.40:
            # newline token: possibly several physical lines, indentation after the last '\n'
            pre = ''.join(rng.choice(['\n', '\n  ', '\r\n', '\n\t']) for _ in range(rng.randint(0, 2)))
            ws = ''.join(rng.choice([' ', ' ', ' ', '\t']) if rng.random() < 0.3 else ' ' for _ in range(rng.choice([0, 0, 1, 2, 2, 3, 4, 4, 6, 8])))
            if rng.random() < 0.5:
                ws = ' ' * rng.choice([0, 0, 2, 4, 4, 8])
            val = pre + '\n' + ws
            indent = ws.count(' ') + ws.count('\t') * tab_len
            spec.append(['nl', indent]); raw.append(('_NL', val))
        elif r < 0.55:
            spec.append('('); raw.append((rng.choice(['LPAR', 'LSQB']), '(')); depth += 1
        elif r < 0.68 and (depth > 0 or rng.random() < 0.04):
            spec.append(')'); raw.append((rng.choice(['RPAR', 'RSQB']), ')')); depth -= 1
        else:
            spec.append(['o', 0]); raw.append(('NAME', rng.choice(['x', 'x', 'x', ''])))      # '' : a token with empty text (a str subclass that is falsy)
    return spec, raw


def _run_real(args):
    """one Indenter object, a sequence of streams (history); each stream possibly abandoned after k outputs"""
    tab_len, streams = args
    from lark.indenter import Indenter, DedentError
    from lark.lexer import Token

    Ind = type('Ind', (Indenter,), dict(NL_type='_NL', OPEN_PAREN_types=['LPAR', 'LSQB'], CLOSE_PAREN_types=['RPAR', 'RSQB'],
                                      INDENT_type='_INDENT', DEDENT_type='_DEDENT', tab_len=tab_len))
    ind = Ind()
    results = []
    keep = []          # abandoned stream iterators stay referenced (not closed, not collected) — and are released in the middle of a later stream
    for si_, (raw, abandon) in enumerate(streams):
        toks = [Token(ty, v, i, 1, i + 1) for i, (ty, v) in enumerate(raw)]
        out, err = [], None
        try:
            with guarded(5):
                gen = ind.process(iter(toks))
                keep.append(gen)
                for k, t in enumerate(gen):
                    if abandon is not None and k >= abandon:
                        break
                    if k == 2 and si_ % 3 == 2:
                        del keep[:-1]          # earlier, unfinished iterators are released now
                    if t.type == '_INDENT': out.append('I')
                    elif t.type == '_DEDENT': out.append('D')
                    elif t.type == '_NL':
                        ws = t.rsplit('\n', 1)[1]
                        out.append(['nl', ws.count(' ') + ws.count('\t') * tab_len])
                    elif t.type in ('LPAR', 'LSQB'): out.append('(')
                    elif t.type in ('RPAR', 'RSQB'): out.append(')')
                    else: out.append(['o', 0])
        except DedentError:
            err = 'DedentError'
        except AssertionError:
            err = 'AssertionError'
        results.append({'out': out, 'err': err})
    return results


G_E2E = r'''start: (NAME | LPAR | RPAR | _NL | _INDENT | _DEDENT)*
NAME: /[a-z]+/
LPAR: "("
RPAR: ")"
_NL: /(\r?\n[\t ]*)+/
%declare _INDENT _DEDENT
%ignore /[ \t]+/
'''

def gen_source(rng):
    lines = []; depth = 0
    for _ in range(rng.randint(1, 9)):
        if rng.random() < 0.12:
            lines.append(''); continue
        indent = rng.choice([0, 0, 1, 2, 2, 3, 4, 4, 6, 8])
        body = 'x'
        if rng.random() < 0.25:
            body = 'f ( a'; depth += 1
        elif depth and rng.random() < 0.5:
            body = 'b )'; depth -= 1
        lines.append(' ' * indent + body)
    while depth:
        lines.append(')'); depth -= 1
    if lines and lines[0].startswith(' '):
        lines[0] = lines[0].lstrip()      # CPython comparison is restricted to an unindented first line (DESIGN C18 I)
    if not lines[0]:
        lines[0] = 'x'
    return '\n'.join(lines) + '\n'

def _e2e(text):
    from lark import Lark
    from lark.indenter import Indenter, DedentError
    from lark.exceptions import UnexpectedInput
    class Ind(Indenter):
        NL_type = '_NL'; OPEN_PAREN_types = ['LPAR']; CLOSE_PAREN_types = ['RPAR']
        INDENT_type = '_INDENT'; DEDENT_type = '_DEDENT'; tab_len = 8
    global _P
    try:
        _P
    except NameError:
        _P = Lark(G_E2E, parser='lalr', lexer='basic', postlex=Ind())
    try:
        with guarded(5):
            a = [('I' if t.type == '_INDENT' else 'D') for t in _P.lex(text) if t.type in ('_INDENT', '_DEDENT')]
    except DedentError:
        a = 'DedentError'
    except UnexpectedInput:
        a = 'UnexpectedInput'
    try:
        b = []
        for tok in tokenize.generate_tokens(io.StringIO(text).readline):
            if tok.type == tokenize.INDENT: b.append('I')
            elif tok.type == tokenize.DEDENT: b.append('D')
    except IndentationError:
        b = 'DedentError'
    except tokenize.TokenError:
        b = 'TokenError'
    return a, b


def run(ctx, res):
    rng = random.Random(ctx['seed'] * 1000003 + 18)
    tier = ctx['tier']
    mult = 3 if ctx['deepen'] else 1
    # ---- histories of streams on one Indenter object vs the model (which restarts from St.init: process_resets)
    hist = []
    for _ in range(tier_scale(tier, 20000, 120000) * mult):
        tab_len = rng.choice(TAB_LENS)
        streams, specs = [], []
        for _ in range(rng.randint(1, 4)):
            spec, raw = make_stream(rng, tab_len)
            abandon = rng.randint(0, len(raw)) if rng.random() < 0.2 else None
            streams.append((raw, abandon)); specs.append(spec)
        hist.append((tab_len, streams, specs))
    real = pmap(_run_real, [(h[0], h[1]) for h in hist], chunksize=64)
    flat = [(hi, si) for hi, h in enumerate(hist) for si in range(len(h[2]))]
    model = run_driver([{'op': 'indenter', 'toks': hist[hi][2][si]} for hi, si in flat])
    midx = {key: i for i, key in enumerate(flat)}
    for hi, (st, r) in enumerate(real):
        h = hist[hi]
        for si in range(len(h[2])):
            m = model[midx[(hi, si)]]
            spec = h[2][si]; raw, abandon = h[1][si]
            res.case(['hist', spec, si, abandon], nontrivial=any(isinstance(t, list) and t[0] == 'nl' for t in spec),
                     sample={'tab_len': h[0], 'stream': spec, 'position_in_history': si, 'model': m} if si == 1 and len(spec) > 5 else None)
            res.count('streams')
            if st != 'ok':
                if st == 'exc' and not exc_in_lark(r):
                    raise InfraError(r)
                res.violation('Indenter.process raised an unexpected exception/timeout: %s' % st, {'tab_len': h[0], 'streams': [s for s in h[2]], 'detail': r}); break
            got = r[si]
            if m.get('process') is not None and m['process'] != m['out']:
                res.corr_break('driver: stepwise run differs from IndProto.process', {'stream': spec})
            full = m['out'] + (m.get('partial') or [])
            exp_err = m['err']
            if abandon is not None and abandon < len(full):
                exp_out, exp_err = full[:abandon], None      # generator dropped before it could raise
                res.count('abandoned')
            else:
                exp_out = full
            if exp_err:
                res.count('err_' + exp_err)
            ok = got['err'] == exp_err and got['out'] == exp_out
            if ok and exp_err is None and abandon is None and got['out'].count('I') != got['out'].count('D'):
                res.violation('INDENT/DEDENT unbalanced at end of stream', {'tab_len': h[0], 'history': h[2][:si + 1], 'got': got})
            if not ok:
                # the stream consists of nothing but the tokens, INDENT/DEDENT and the error: any difference from the verified model
                # is a difference in INDENT/DEDENT/DedentError placement or in history-independence, i.e. a property failure
                res.violation('Indenter output differs from the verified model (stream %d of a history on one Indenter object)' % si,
                              {'tab_len': h[0], 'history': h[2][:si + 1], 'abandon_after': [a for _r, a in h[1][:si + 1]], 'got': got,
                               'model': {'out': exp_out, 'err': exp_err}})
                break
    # ---- CPython's tokenizer as an additional oracle (first line unindented, spaces only)
    srcs = [gen_source(rng) for _ in range(tier_scale(tier, 6000, 36000) * mult)]
    outs = pmap(_e2e, srcs, chunksize=64)
    for text, (st, r) in zip(srcs, outs):
        res.case(['cpy', text], nontrivial=True, sample={'source': text, 'lark_vs_cpython': r} if len(res.samples) < 5 and 'I' in str(r) else None)
        res.count('cpython_cases')
        if st != 'ok':
            if st == 'exc' and not exc_in_lark(r):
                raise InfraError(r)
            res.violation('lex with Indenter raised unexpectedly: %s' % st, {'source': text, 'detail': r}); continue
        a, b = r
        if b == 'TokenError' or a == 'UnexpectedInput':
            res.count('cpython_skipped'); continue
        if a != b:
            res.violation('INDENT/DEDENT structure differs from CPython tokenize', {'source': text, 'lark': a, 'cpython': b})
        else:
            res.count('cpython_agree_err' if isinstance(a, str) else 'cpython_agree')
