"""C10 — a Lark instance is a pure function of its input: reusable and thread-safe."""
import random, json, sys, threading, inspect, itertools, time
from common import pmap, run_driver, guarded, Timeout, tier_scale, exc_in_lark, InfraError
import shapelib

# ------------------------------------------------------------------ (a) deterministic schedules of the lazy scanner/callback publication

def gates_of():
    """program points of one thread, found in the current source text: (function name, kind, line)"""
    from lark.lexer import BasicLexer
    def lines(fn):
        src, first = inspect.getsourcelines(fn)
        return [(first + i, l) for i, l in enumerate(src)]
    g = {}
    prop = BasicLexer.scanner.fget
    g['start'] = ('scanner', [n for n, l in lines(prop) if 'self._scanner is None' in l][0])
    bl = lines(BasicLexer._build_scanner)
    assign = [n for n, l in bl if ('self.callback =' in l or ', self.callback =' in l) and 'self.callback[' not in l][0]
    loop = [n for n, l in bl if 'in self.user_callbacks.items()' in l][0]
    g['b1'] = ('_build_scanner', assign)
    fixed = assign > loop            # publish-once: the shared attribute is assigned after the merge loop
    if not fixed:
        g['b2'] = ('_build_scanner', loop)
    g['use'] = ('next_token', [n for n, l in lines(BasicLexer.next_token) if 'self.callback' in l][0])
    return g, fixed


def run_schedule(sched, nthreads, gates, fixed):
    """real threads, stepped gate by gate by a controller; returns the list of observations in completion order"""
    from lark import Lark
    from lark.lexer import LexerThread
    def cb(t): return t.update(value=t.value.upper())
    p = Lark('start: A+\nA: "a"\n', parser='lalr', lexer='basic', lexer_callbacks={'A': cb})
    lexer = p.parser.lexer
    line_gates = {(fn, ln) for k, (fn, ln) in gates.items()}
    at_gate = [threading.Event() for _ in range(nthreads)]
    go = [threading.Event() for _ in range(nthreads)]
    finished = [threading.Event() for _ in range(nthreads)]
    obs, order = {}, []
    lock = threading.Lock()
    def make_tracer(i):
        seen_use = [False]
        seen_lines = set()
        def tracer(frame, event, arg):
            name = frame.f_code.co_name
            if name not in ('scanner', '_build_scanner', 'next_token'):
                return tracer
            hit = False
            if event == 'line' and (name, frame.f_lineno) in line_gates:
                if name == 'next_token':
                    if seen_use[0]:
                        return tracer
                    seen_use[0] = True
                if (name, frame.f_lineno) in seen_lines:
                    return tracer          # a loop header fires once per iteration: gate only its first execution
                seen_lines.add((name, frame.f_lineno))
                hit = True
            elif event == 'return' and name == '_build_scanner':
                hit = True                     # b3: about to assign self._scanner
            if hit:
                at_gate[i].set(); go[i].wait(); go[i].clear()
            return tracer
        return tracer
    def worker(i):
        sys.settrace(make_tracer(i))
        try:
            toks = [str(t) for t in LexerThread.from_text(lexer, 'a').lex(None)]
        finally:
            sys.settrace(None)
        with lock:
            obs[i] = toks == ['A']; order.append(i)
        finished[i].set(); at_gate[i].set()
    ths = [threading.Thread(target=worker, args=(i,), daemon=True) for i in range(nthreads)]
    for t in ths: t.start()
    for i in range(nthreads):
        at_gate[i].wait(5)
    out = []
    for i in sched:
        if i >= nthreads or finished[i].is_set():
            continue
        at_gate[i].clear()
        n_before = len(order)
        go[i].set()
        if not at_gate[i].wait(5):
            raise InfraError('scheduler: thread %d did not reach its next gate' % i)
        with lock:
            for j in order[n_before:]:
                out.append(obs[j])
    # let everybody finish
    for _ in range(12):
        for i in range(nthreads):
            if not finished[i].is_set():
                at_gate[i].clear(); go[i].set(); at_gate[i].wait(5)
    for t in ths: t.join(5)
    return out, [obs.get(i) for i in range(nthreads)]


def _sched_case(args):
    sched, n = args
    gates, fixed = gates_of()
    with guarded(30):
        return run_schedule(sched, n, gates, fixed), fixed


def all_schedules(n, steps):
    base = [i for i in range(n) for _ in range(steps)]
    return sorted(set(itertools.permutations(base)))


# ------------------------------------------------------------------ (b) free-running threads on a fresh instance

def _stress(args):
    g, text, nthreads, rounds, kw = args
    from lark import Lark
    from lark.exceptions import UnexpectedInput
    bad = []
    for r in range(rounds):
        p = Lark(g, **kw)
        ref_p = Lark(g, **kw)
        try:
            ref = repr(ref_p.parse(text))
        except UnexpectedInput as e:
            ref = type(e).__name__
        res = [None] * nthreads
        barrier = threading.Barrier(nthreads)
        lalr = kw.get('parser') == 'lalr'
        def w(i):
            barrier.wait()
            try:
                if lalr and i % 2 == 1:
                    # another kind of call on the same instance at the same time: scan() (its exploratory parses must not disturb a concurrent parse())
                    for _ in range(3):
                        list(p.scan(text + ' ' + text))
                res[i] = repr(p.parse(text))
            except UnexpectedInput as e:
                res[i] = type(e).__name__
            except BaseException as e:
                res[i] = 'EXC ' + repr(e)[:100]
        old = sys.getswitchinterval(); sys.setswitchinterval(1e-6)
        try:
            ths = [threading.Thread(target=w, args=(i,)) for i in range(nthreads)]
            for t in ths: t.start()
            for t in ths: t.join(20)
        finally:
            sys.setswitchinterval(old)
        if any(x != ref for x in res):
            bad.append({'round': r, 'results': res, 'fresh_instance': ref})
            break
    return bad


# ------------------------------------------------------------------ (c) histories of calls on one instance

INDENT_G = r'''start: (NAME | LPAR | RPAR | _NL | _INDENT | _DEDENT)*
NAME: /[a-z]+/
LPAR: "("
RPAR: ")"
_NL: /(\r?\n[\t ]*)+/
%declare _INDENT _DEDENT
%ignore /[ \t]+/
'''

# instances that share a cache location: the options below change the result on these grammars, so a parser restored for the wrong configuration is visible
CACHE_GRAMMARS = ['start: (A | B)+\nA.2: /a/\nB: /a+/\n%ignore " "\n', 'start: [A] "b" A\nA: "a"\n%ignore " "\n', 'start: x+\n?x: "(" A ")" | A\nA: "a"\n%ignore " "\n']
SIBLING_VARIANTS = [{'keep_all_tokens': True}, {'keep_all_tokens': True}, {'maybe_placeholders': False}, {'priority': 'invert'}, {'priority': None}]
CACHE_VARIANTS = [{}, {'priority': None}, {'priority': 'invert'}, {'keep_all_tokens': True}, {'maybe_placeholders': False}, {'priority': 'normal'}, {'lexer': 'basic'}, {'propagate_positions': True}]


def _history(args):
    g, seed, indent = args
    import tempfile, shutil, os, logging
    logging.getLogger('lark').setLevel(logging.CRITICAL)
    try:
        return _history_(g, seed, indent)
    finally:
        import glob
        for d in glob.glob(os.path.join(tempfile.gettempdir(), 'larkverif_c10_%d_*' % os.getpid())):
            shutil.rmtree(d, ignore_errors=True)


def _history_(g, seed, indent):
    import tempfile, os
    from lark import Lark, Tree, Token
    from lark.exceptions import UnexpectedInput, GrammarError, LarkError
    from lark.indenter import Indenter, DedentError
    rng = random.Random(seed)
    Ind = type('Ind', (Indenter,), dict(NL_type='_NL', OPEN_PAREN_types=['LPAR'], CLOSE_PAREN_types=['RPAR'], INDENT_type='_INDENT', DEDENT_type='_DEDENT', tab_len=8))
    cached = (not indent) and rng.random() < 0.25
    cpath = None
    if cached:
        g = rng.choice(CACHE_GRAMMARS)
        cpath = os.path.join(tempfile.mkdtemp(prefix='larkverif_c10_%d_' % os.getpid()), 'cache.bin')
    def mk(cache=None, kw_=None):
        if indent:
            return Lark(INDENT_G, parser='lalr', lexer=rng.choice(['basic', 'contextual']) if False else 'basic', postlex=Ind())
        if cache:
            return Lark(g, parser='lalr', cache=cpath, **(kw if kw_ is None else kw_))
        return Lark(g, parser=engine, **(kw if kw_ is None else kw_))
    kw = dict(lexer=rng.choice(['basic', 'contextual']), propagate_positions=rng.random() < 0.5) if not cached else dict(rng.choice(CACHE_VARIANTS))
    engine = 'lalr'
    if not indent and not cached and rng.random() < 0.3:
        # an Earley instance reused across calls (its chart, items and forest transformer are per-parse objects)
        engine = 'earley'
        kw = dict(lexer=rng.choice(['basic', 'dynamic', 'dynamic_complete']), ambiguity=rng.choice(['resolve', 'explicit']), propagate_positions=rng.random() < 0.5)
    try:
        with guarded(6):
            shared = mk(cache=cached)
    except (GrammarError, LarkError):
        return {'nobuild': True}
    def text():
        if indent:
            return ''.join(rng.choice(['x', ' x', '  x', '\n', '\n  ', '\n    ', '( ', ')', 'f (a\n b)\n']) for _ in range(rng.randint(0, 8)))
        try:
            s = shapelib.sample_sentence(rng, shared)
        except (RecursionError, KeyError):
            s = 'a'
        if rng.random() < 0.35 and s:
            k = rng.randrange(len(s)); s = s[:k] + rng.choice('abcx(') + s[k + 1:]
        if rng.random() < 0.15:
            s = rng.choice(['', ' ', ''])          # the empty text (and ignored characters only) after other calls
        return s
    def canon(t):
        if isinstance(t, Tree): return [str(t.data), [canon(c) for c in t.children]]
        if isinstance(t, Token): return [t.type, str(t), t.start_pos, t.line, t.column]
        return t
    def call(p, op, s, k):
        try:
            if op == 'parse':
                return canon(p.parse(s))
            if op in ('lex', 'lex_dont_ignore'):
                out = []
                gen_ = p.lex(s, dont_ignore=True) if op == 'lex_dont_ignore' else p.lex(s)
                keep.append(gen_)          # an abandoned generator stays referenced (it is not closed)
                for i, t in enumerate(gen_):
                    if k is not None and i >= k: break
                    out.append(canon(t))
                return out
            if op == 'scan':
                out = []
                sc_ = p.scan(s); keep.append(sc_)
                for i, m in enumerate(sc_):
                    if k is not None and i >= k: break
                    out.append([list(m.range), canon(m.value)])
                return out
            if op == 'interactive':
                ip = p.parse_interactive(s)
                out = []
                it_ = ip.iter_parse(); keep.append((ip, it_))
                for i, t in enumerate(it_):
                    if k is not None and i >= k: return ['abandoned', out]
                    out.append(t.type)
                return ['done', out, canon(ip.feed_eof())]
        except UnexpectedInput as e:
            return ['UnexpectedInput', type(e).__name__, getattr(e, 'pos_in_stream', None)]
        except DedentError:
            return ['DedentError']
        except AssertionError:
            return ['AssertionError']
    ops = ['parse', 'lex', 'interactive', 'lex_dont_ignore'] + ([] if indent else ['scan'])
    if engine == 'earley':
        ops = ['parse', 'parse'] + (['lex'] if kw['lexer'] == 'basic' else [])
    hist, failures, keep = [], [], []
    # results of the instance that was built FIRST from this grammar text, before any sibling exists in the process: the reference for instances built later
    pristine = None
    if not indent and not cached:
        with guarded(20):
            T0 = [text() for _ in range(3)]
            pristine = [call(shared, 'parse', t_, None) for t_ in T0]
    with guarded(40):
        for step in range(rng.randint(3, 9)):
            if pristine is not None and rng.random() < 0.3:
                # a sibling: another instance from the very same grammar text under other options (no cache involved)
                try:
                    Lark(g, parser=engine, **dict(kw, **rng.choice(SIBLING_VARIANTS)))
                except (GrammarError, LarkError):
                    pass
            op = rng.choice(ops); s = text(); k = rng.randint(0, 3) if rng.random() < 0.4 and op != 'parse' else None
            if not indent and not cached and rng.random() < 0.15 and hasattr(shared, 'grammar'):
                # another instance compiled from the very same Grammar object, under another priority mode
                try:
                    Lark(shared.grammar, parser=rng.choice(['lalr', 'earley']), priority=rng.choice(['invert', None, 'normal']))
                except (GrammarError, LarkError):
                    pass
            other = None
            if rng.random() < (0.6 if cached else 0.2):
                # another instance created in the process in between (when a cache location is shared: of a different configuration, through the same location)
                other = rng.choice([v for v in CACHE_VARIANTS if v != kw]) if cached else None
                oi = mk(cache=cached, kw_=other)
                if cached:
                    g3, w3 = call(oi, op, s, k), call(mk(kw_=other), op, s, k)
                    if g3 != w3:
                        failures.append({'call_index': step, 'call': [op, s, k], 'on_new_instance_through_shared_cache': g3, 'on_fresh_instance': w3, 'its_options': other, 'cache': 'one file shared with an instance created earlier with options %r' % (kw,)})
                        break
            got = call(shared, op, s, k)
            want = call(mk(), op, s, k)              # a fresh instance of the same configuration, built without any cache
            hist.append([op, s, k] + ([{'other_instance': other}] if other is not None else []))
            if got != want:
                failures.append({'call_index': step, 'call': [op, s, k], 'on_reused_instance': got, 'on_fresh_instance': want})
                break
            if cached:
                got2 = call(mk(cache=True), op, s, k)     # a new instance of this configuration through the shared cache location
                if got2 != want:
                    failures.append({'call_index': step, 'call': [op, s, k], 'on_new_instance_through_shared_cache': got2, 'on_fresh_instance': want, 'other_instance_options': other, 'cache': 'one file shared by the instances'})
                    break
    if pristine is not None and not failures:
        with guarded(20):
            later = mk()
            got_ = [call(later, 'parse', t_, None) for t_ in T0]
        if got_ != pristine:
            k_ = [i for i in range(len(T0)) if got_[i] != pristine[i]][0]
            failures.append({'call_index': 'end', 'call': ['parse', T0[k_], None], 'on_instance_built_after_siblings': got_[k_], 'on_first_instance_of_this_grammar_text': pristine[k_],
                             'history_note': 'instances of the same grammar text with other options (keep_all_tokens / maybe_placeholders / priority) were created in between'})
    return {'grammar': INDENT_G if indent else g, 'options': kw, 'indenter': indent, 'history': hist, 'failures': failures, 'cached': cached}


def replay_fixed(ctx, res):
    from lark import Lark
    for f in ctx['known']:
        if f['id'] == 'F26' and f['status'] == 'fixed':
            w = f['witness']
            for mode in ('invert', None):
                l1 = Lark(w['grammar'], parser='earley')
                before = l1.parse(w['text'])
                Lark(l1.grammar, parser='earley', priority=mode)
                after = l1.parse(w['text'])
                if before != after or before.children[0].data != 'a':
                    res.violation('regression of fixed finding F26: ' + f['what'], dict(w, other_instance_priority=mode, before=str(before), after=str(after)))


def run(ctx, res):
    replay_fixed(ctx, res)
    rng = random.Random(ctx['seed'] * 1000003 + 10)
    tier = ctx['tier']
    # ---- (a) all interleavings of two threads (quick) / sampled interleavings of three (thorough) through the lazy initialisation
    gates, fixed = gates_of()
    steps = 4 if fixed else 5
    scheds = [(list(s), 2) for s in all_schedules(2, steps)]
    if tier == 'thorough':
        base = [i for i in range(3) for _ in range(steps)]
        for _ in range(400):
            s = list(base); rng.shuffle(s); scheds.append((s, 3))
    outs = pmap(_sched_case, scheds, procs=8, chunksize=4)
    model = run_driver([{'op': 'threads', 'fixed': fixed, 'n': n, 'sched': s} for s, n in scheds])
    res.extra['lazy_init_ordering_in_source'] = 'publish-once' if fixed else 'publish-before-merge'
    for (s, n), (st, r), m in zip(scheds, outs, model):
        res.case(['sched', s, n], nontrivial=len(set(s[:steps])) > 1, sample={'schedule': s, 'threads': n, 'observations': r[0][0] if st == 'ok' else None} if len(res.samples) < 2 else None)
        res.count('schedules_%d_threads' % n)
        if st != 'ok':
            if st == 'exc' and not exc_in_lark(r):
                raise InfraError(r)
            res.violation('a scheduled concurrent first use raised/hung', {'schedule': s, 'threads': n, 'detail': r}); continue
        (obs, per_thread), _f = r
        if not all(per_thread):
            res.violation('concurrent first use: a token skipped the user\'s lexer callback (outcome depends on the schedule)', {'grammar': 'start: A+\nA: "a"\n', 'lexer_callbacks': 'A -> upper', 'schedule': s, 'threads': n,
                                                                                                                        'per_thread_callback_applied': per_thread, 'gates': {k: list(v) for k, v in gates.items()}})
        elif sorted(obs) != sorted(m):
            res.corr_break('real scheduled run differs from the Lean small-step model', {'schedule': s, 'code': obs, 'model': m})
    # ---- (b) free-running stress
    import lalrlib
    sj = []
    for i in range(tier_scale(tier, 24, 200)):
        g = rng.choice(['start: A+\nA: "a"\n', 'start: (NAME | KW | NUM)+\nNAME: /[a-z]+/\nKW: "if"\nNUM: /[0-9]+/\n%ignore " "\n', 'start: x+\nx: A B | A\nA: "a"\nB: "b"\n'])
        kw = rng.choice([dict(parser='lalr', lexer='basic'), dict(parser='lalr', lexer='contextual'), dict(parser='earley'), dict(parser='earley', lexer='basic'), dict(parser='lalr', propagate_positions=True)])
        text = rng.choice(['a', 'aab' if 'B' in g else 'aa', 'if x 12 if' if 'KW' in g else 'aaa', 'a?'])
        sj.append((g, text, 4, tier_scale(tier, 6, 30), kw))
    for job, (st, bad) in zip(sj, pmap(_stress, sj, procs=4, chunksize=1)):
        res.case(['stress', job[0], job[1], job[4]], nontrivial=True)
        res.count('stress_rounds', job[3])
        if st != 'ok':
            if st == 'exc' and not exc_in_lark(bad):
                raise InfraError(bad)
            res.violation('concurrent parse raised/hung', {'grammar': job[0], 'text': job[1], 'options': job[4], 'detail': bad}); continue
        for b in bad:
            res.violation('concurrent parse() calls on one instance disagree with a fresh instance', {'grammar': job[0], 'text': job[1], 'options': job[4], 'detail': b})
    # ---- (c) histories
    N = tier_scale(tier, 1200, 10000) * (3 if ctx['deepen'] else 1)
    hj = [(shapelib.gen_grammar(rng), rng.randrange(1 << 30), i % 4 == 0) for i in range(N)]
    for job, (st, rec) in zip(hj, pmap(_history, hj, chunksize=4)):
        if st != 'ok':
            if st == 'exc':
                if not exc_in_lark(rec):
                    raise InfraError(rec)
                res.violation('a call history raised an unexpected exception', {'grammar': job[0], 'seed': job[1], 'detail': rec})
            else:
                res.inconclusive[st] = res.inconclusive.get(st, 0) + 1
            continue
        if rec.get('nobuild'):
            res.count('not_lalr'); continue
        res.case(['hist', rec['grammar'], rec['history']], nontrivial=len(rec['history']) > 2,
                 sample={'grammar': rec['grammar'], 'history': rec['history'], 'indenter': rec['indenter']} if len(res.samples) < 4 and any(h[2] is not None for h in rec['history']) else None)
        res.count('histories'); res.count('calls', len(rec['history']))
        if rec['indenter']: res.count('histories_with_indenter')
        res.count('abandoned_calls', sum(1 for h in rec['history'] if h[2] is not None))
        if rec.get('cached'): res.count('histories_with_shared_cache_location')
        for f in rec['failures']:
            res.violation('an instance is affected by another instance created in the process (through a shared cache location)' if 'on_new_instance_through_shared_cache' in f or rec.get('cached')
                          else 'an instance is affected by other instances created earlier in the process from the same grammar text' if 'on_instance_built_after_siblings' in f
                          else 'the outcome of a call depends on earlier calls on the same instance', {'grammar': rec['grammar'], 'options': rec['options'], 'indenter': rec['indenter'], 'history': rec['history'], 'detail': f})
