"""C01 — Earley accepts exactly the language of the grammar."""
import json
from common import exc_in_lark, InfraError
import earleylib

def replay_known(ctx, res):
    from lark import Lark
    from lark.exceptions import UnexpectedInput
    for f in ctx['known']:
        if f['id'] == 'F6' and f['status'] == 'open':
            w = f['witness']
            p = Lark(w['grammar'], parser='earley', lexer=w['lexer'])
            try:
                p.parse(w['text']); ok = True
            except UnexpectedInput:
                ok = False
            if not ok:
                res.known_hits.append(('F6', '%s: %r rejects %r' % (f['what'], w['grammar'], w['text'])))


def replay_fixed(ctx, res):
    from lark import Lark
    from lark.exceptions import UnexpectedInput
    for f in ctx['known']:
        if f['id'] == 'F32' and f['status'] == 'fixed':
            w = f['witness']
            for lexer in ('basic', 'dynamic', 'dynamic_complete'):
                p = Lark(w['grammar'], parser='earley', lexer=lexer)
                for text, want in [(t, True) for t in w['accept']] + [(t, False) for t in w['reject']]:
                    try:
                        p.parse(text); ok = True
                    except UnexpectedInput:
                        ok = False
                    if ok != want:
                        res.violation('regression of fixed finding F32: ' + f['what'], {'grammar': w['grammar'], 'lexer': lexer, 'text': text, 'accepted': ok, 'in_language': want})


def run(ctx, res):
    replay_known(ctx, res)
    replay_fixed(ctx, res)
    stream, problems = earleylib.earley_stream(ctx, 1, 2500, 30000)
    for job, st, detail in problems:
        if st == 'exc':
            if not exc_in_lark(detail):
                raise InfraError(detail)
            res.violation('Earley construction/parse raised an exception that is not UnexpectedInput/GrammarError', {'grammar': job[0], 'detail': detail})
        else:
            res.inconclusive[st] = res.inconclusive.get(st, 0) + 1
    for g, rec, m in stream:
        if 'build' in rec:
            res.count('build_' + rec['build'].split(':')[0])
            # generator never emits duplicate alternatives, so construction must succeed and must not hang (the model is total)
            res.violation('construction with parser=earley failed or hung: %s' % rec['build'], {'grammar': g, 'lexer': rec['lexer']})
            continue
        if rec.get('timeout'):
            res.violation('Earley parse did not return within 8 s (the total model finishes the same case)', {'grammar': g, 'start': rec.get('start_sym', 'start'), 'starts': rec.get('starts', ['start']), 'text': rec['text'], 'lexer': rec['lexer']})
            continue
        if m is None:
            res.count('lexer_rejected' if rec.get('lexfail') else 'skipped'); continue
        if 'error' in m:
            raise InfraError('driver: %s' % m['error'])
        if not m['wf']:
            raise InfraError('lattice not well-formed')
        amb = sum(len(c) for c in m['cols'])
        res.case(['c01', g, rec['text'], rec['lexer']], nontrivial=len(rec['text']) > 0,
                 sample={'grammar': g, 'start': rec.get('start_sym', 'start'), 'starts': rec.get('starts', ['start']), 'text': rec['text'], 'lexer': rec['lexer'], 'accepted': rec['ok'], 'chart_items': amb} if rec['ok'] and len(rec['text']) > 3 else None)
        res.count('lexer_' + rec['lexer']); res.count('accept' if rec['ok'] else 'reject_' + rec.get('err', '?'))
        if rec['ok'] != m['accept']:
            res.violation('parse %s but the text is %s the language (accepts_iff on the spec lattice)' % ('succeeds' if rec['ok'] else 'raises ' + rec.get('err', ''), 'not in' if rec['ok'] else 'in'),
                          {'grammar': g, 'start': rec.get('start_sym', 'start'), 'starts': rec.get('starts', ['start']), 'text': rec['text'], 'lexer': rec['lexer'], 'lark_accepts': rec['ok'], 'in_language': m['accept']})
            continue
        # internal: the chart itself
        bad = [i for i, col in rec['cols'].items() if int(i) < len(m['cols']) and m['cols'][int(i)] != col]
        if bad:
            res.corr_break('Earley column %s differs from the model chart' % bad[0], {'grammar': g, 'start': rec.get('start_sym', 'start'), 'starts': rec.get('starts', ['start']), 'text': rec['text'], 'lexer': rec['lexer'], 'column': bad[0],
                                                                                    'code': rec['cols'][bad[0]], 'model': m['cols'][int(bad[0])]})
    # the grammar loader in front of all this (anonymous-terminal naming, pruning of unreachable rules / unused terminals): source-level metamorphic stream
    import compilelib
    compilelib.check(ctx, res, 11, 300, 6000)
    # EBNF operators in front of the engines (language and trees of the grammar as written vs its hand-desugared form)
    import ebnflib
    ebnflib.check(ctx, res, 12, 150, 3000, big=False, label='EBNF')
