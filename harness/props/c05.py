"""C05 — default ambiguity resolution is a priority-optimal, deterministic choice."""
import json, os, sys, subprocess, random
from common import exc_in_lark, InfraError, REPO, VERIF, tier_scale
import forestlib
from props.c20 import problems

DET_SCRIPT = r'''
import sys, json, random
sys.path.insert(0, %r); sys.path.insert(0, %r)
import forestlib, shapelib
from lark import Lark
from lark.exceptions import UnexpectedInput, LarkError
rng = random.Random(%d)
out = []
TIES = ['start: a a\na: X | X X | X X X\nX: "a"\n%%ignore " "\n', 'start: item item item\nitem: X+\nX: "a"\n%%ignore " "\n', 'start: (A | A A)+\nA: "a"\n%%ignore " "\n',
        'start: s\ns: s s | A\nA: "a"\n%%ignore " "\n', 'start: x x\nx: A* \nA: "a"\n%%ignore " "\n']
for i in range(%d):
    g = forestlib.gen_grammar(rng) if i %% 3 else TIES[(i // 3) %% len(TIES)]
    seed = rng.randrange(1 << 30); r2 = random.Random(seed)
    for lexer in ('basic', 'dynamic'):
        for mode in ('normal', 'invert', None):
            try:
                p = Lark(g, parser='earley', lexer=lexer, priority=mode)
            except LarkError:
                out.append('gerr'); continue
            for text in ['a b x', 'a a', 'x', 'b a x a', 'a b', '', 'aaaa', 'a a a a a', 'aaa']:
                try:
                    out.append(repr(p.parse(text)))
                except UnexpectedInput as e:
                    out.append(type(e).__name__)
print(json.dumps(out))
'''



def _lattice_prio_case(seed):
    """dynamic lexers with terminals that may contain the ignored blanks and with rule/terminal priorities: the resolved tree must be one of the derivations of
    the character lattice (dynamic: longest match per terminal and offset; dynamic_complete: every member prefix) and, without directly empty alternatives,
    have the optimal total priority"""
    import re
    from lark import Lark, Tree, Token
    from lark.exceptions import UnexpectedInput, LarkError, GrammarError
    from common import guarded, Timeout
    import oracle_derivs
    rng = random.Random(seed)
    pool = [('A', '/a/'), ('AS', '/a /'), ('B', '/b/'), ('SB', '/ ?b/'), ('AA', '/a+/'), ('C', '"c"')]
    terms = rng.sample(pool, rng.randint(2, 4))
    tn = [n for n, _ in terms]
    nts = ['start'] + ['n%d' % i for i in range(rng.randint(1, 2))]
    lines = []
    for nt in nts:
        alts = []
        for _ in range(rng.randint(1, 3)):
            alts.append(' '.join(rng.choice(nts[1:] + tn + tn) for _ in range(rng.choice([1, 2, 2, 3]))))
        lines.append('%s%s: %s' % (nt, rng.choice(['', '', '.1', '.2', '.-1']) if nt != 'start' else '', ' | '.join(dict.fromkeys(alts))))
    for n, sp in terms:
        lines.append('%s%s: %s' % (n, rng.choice(['', '', '.2', '.5']), sp))
    lines.append('%ignore / +/')
    g = '\n'.join(lines) + '\n'
    fam = rng.random() < 0.35
    if fam:
        # two ways to read the text before a run of blanks (the token with or without one trailing blank), told apart only by priorities
        pa, pas = rng.sample(['', '.1', '.3', '.5'], 2)
        g = rng.choice(['start: x %s\nx: a_ | as_\na_%s: A\nas_%s: AS\nA: /a/\nAS: /a /\n', 'start: x %s\nx: A | AS\nA%s: /a/\nAS%s: /a /\n']) % (rng.choice(['B', 'SB', 'B B']), pa, pas) + 'B: /b/\nSB: / ?b/\n%ignore / +/\n'
    fam2 = (not fam) and rng.random() < 0.2
    if fam2:
        # the only prioritised symbol is a terminal that is %ignore'd AND used in a rule (a significant blank / doc comment): the text before an item can be read as
        # ignored or as part of the item, told apart only by that terminal's priority
        alts = rng.choice(['A | W A', 'W A | A', 'A | A W', 'A W | A'])
        g = 'start: item | start item\nitem: %s\nW%s: %s\nA: /a/\n%%ignore W\n' % (alts, rng.choice(['.2', '.-3', '.1', '.-1']), rng.choice(['/ /', '/ +/', '" "']))
    out = {'grammar': g, 'fails': [], 'checked': 0}
    lexer = rng.choice(['dynamic', 'dynamic_complete'])
    try:
        with guarded(6):
            base = Lark(g, parser='earley', lexer=lexer, ambiguity='resolve')
    except (LarkError, GrammarError, Timeout):
        return out
    if not oracle_derivs.acyclic(base.rules):
        return out
    pats = {t.name: re.compile(t.pattern.to_regexp()) for t in base.terminals}
    decl = forestlib.declared_priorities(g)
    tprio = {t.name: decl.get(t.name, 0) for t in base.terminals}
    ign = [pats[n_] for n_ in base.ignore_tokens]
    for _ in range(3):
        text = ''.join(rng.choice(['a', 'b', 'c', ' ', '  ', 'a ', ' b', 'aa']) for _ in range(rng.randint(1, 5)))
        if fam:
            text = 'a' + ' ' * rng.randint(0, 3) + 'b' + rng.choice(['', ' b', 'b'])
        if fam2:
            text = ''.join(rng.choice(['a', ' a', 'a ', '  a']) for _ in range(rng.randint(1, 3)))
        n = len(text)
        step = {i: {max(js) for r in ign for js in [[j for j in range(i + 1, n + 1) if r.fullmatch(text, i, j)]] if js} for i in range(n + 1)}      # an ignored terminal is tried at its longest match only (the reading of the property recorded in DESIGN §10.1, as in earleylib.spec_lattice)
        skip = {}
        for i in range(n, -1, -1):
            acc = {i}
            for j in step[i]: acc |= skip[j]
            skip[i] = acc
        def term_spans(name, i, _c={}):
            key = (name, i, text)
            if key not in _c:
                r = pats[name]; sp = []
                for ii in sorted(skip[i]):
                    ends = [jj for jj in range(ii + 1, n + 1) if r.fullmatch(text, ii, jj)]
                    if lexer == 'dynamic' and ends:
                        m = r.match(text, ii); ends = [m.end()] if m and m.end() > ii else []      # the regexp's own (preferred = longest, for this pool) match
                    sp += [(ii, jj) for jj in ends]
                _c[key] = sp
            return _c[key]
        try:
            with guarded(6):
                ds = oracle_derivs.derivations_lattice(base.rules, n, term_spans, 'start', lambda j: n in skip[j], limit=150)
        except (Timeout, RecursionError):
            ds = None
        if not ds:
            continue
        def canon_d(d):
            r, ch = d
            return ['T', str(r.alias or r.origin.name), [canon_d(c) if not isinstance(c[0], str) else ['t', c[0], text[c[1]:c[2]], c[1], c[2]] for c in ch]]
        def prio_d(d):
            r, ch = d
            return decl.get(str(r.origin.name), 0) + sum(prio_d(c) if not isinstance(c[0], str) else tprio.get(c[0], 0) for c in ch)
        table = {json.dumps(canon_d(d)): prio_d(d) for d in ds}
        def canon_t(t):
            if isinstance(t, Tree):
                return ['T', str(t.data), [canon_t(c) for c in t.children]]
            return ['t', t.type, str(t), t.start_pos, t.end_pos]
        has_empty = any(len(r.expansion) == 0 for r in base.rules)
        for mode in ('normal', 'invert'):
            try:
                with guarded(6):
                    t = Lark(g, parser='earley', lexer=lexer, ambiguity='resolve', priority=mode).parse(text)
            except (UnexpectedInput, Timeout):
                continue
            out['checked'] += 1
            key = json.dumps(canon_t(t))
            if key not in table:
                out['fails'].append({'lexer': lexer, 'priority': mode, 'text': text, 'why': 'the resolved tree is not a derivation of the character lattice', 'tree': key[:300]}); break
            want = max(table.values()) if mode == 'normal' else min(table.values())
            if len(table) > 1 and not has_empty and table[key] != want:
                out['fails'].append({'lexer': lexer, 'priority': mode, 'text': text, 'why': 'total priority %d, the optimum over the %d derivations is %d' % (table[key], len(table), want), 'tree': key[:300],
                                     'all_priorities': sorted(table.values())}); break
    return out

def run(ctx, res):
    for f in ctx['known']:
        if f['id'] == 'F16' and f['status'] == 'fixed':
            from lark import Lark
            w = f['witness']
            t = Lark(w['grammar'], parser='earley', priority='invert').parse(w['text'])
            if t.children[0].data != 'b':
                res.violation('regression of fixed finding F16: ' + f['what'], w)
    jobs, outs = forestlib.forest_stream(ctx, 5, {'c05'}, 3500, 25000, prio=True)
    # the choice function itself: every ambiguous symbol node of the real forests against the Lean `choose`
    from common import run_driver_parallel
    cn = [(rec['grammar'], run_['text'], run_['lexer'], c) for st_, rec in outs if st_ == 'ok' and 'runs' in rec for run_ in rec['runs'] for c in run_.get('choices', [])]
    if cn:
        model = run_driver_parallel([{'op': 'choose', 'nodes': [c['fams'] for _g, _t, _l, c in cn[i:i + 50]]} for i in range(0, len(cn), 50)])
        flat = [x for m in model for x in m]
        res.count('choice_nodes_against_lean_choose', len(cn))
        for (g_, t_, l_, c), m in zip(cn, flat):
            if m != c['chosen'] and c['fams'][m] != c['fams'][c['chosen']]:
                res.corr_break('sorted(children, key=sort_key)[0] differs from the Lean choose', {'grammar': g_, 'text': t_, 'lexer': l_, 'families [is_empty, priority, rule.order]': c['fams'], 'code': c['chosen'], 'model': m})
                break
    for job, rec in problems(res, jobs, outs, 'parsing with ambiguity=resolve'):
        if 'gerr' in rec:
            res.count('grammar_error'); continue
        g = rec['grammar']
        for run_ in rec['runs']:
            where = {'grammar': g, 'text': run_['text'], 'lexer': run_['lexer'], 'maybe_placeholders': rec['maybe_placeholders']}
            if 'resolve' not in run_:
                continue
            nd = run_.get('nderivs')
            res.case(['c05', g, run_['text'], run_['lexer']], nontrivial=bool(nd and nd > 1),
                     sample=dict(where, derivations=nd, priorities=sorted(set(run_.get('deriv_priorities', []))), chosen={k: v.get('priority') for k, v in run_['resolve'].items()}) if nd and nd > 1 and len(res.samples) < 3 else None)
            res.count('lexer_' + run_['lexer'])
            # model tie: ForestSumVisitor's root priority = Lean prio = max over the derivations the forest encodes
            if run_.get('ao_model') is not None and run_.get('root_priority') is not None:
                m = run_['ao_model']
                res.count('forests_compared_with_lean_prio')
                if m['prio'] != m['best']:
                    res.corr_break('driver: prio differs from best(derivs)', where)
                if m['prio'] != run_['root_priority']:
                    res.corr_break('ForestSumVisitor root priority differs from the Lean prio on the exported forest', dict(where, code=run_['root_priority'], model=m['prio']))
            if nd is None or nd == 0:
                res.count('no_enumeration' if nd is None else 'rejected'); continue
            prios = run_['deriv_priorities']
            unshaped = run_['unshaped']
            for mode, r in run_['resolve'].items():
                if r.get('timeout'):
                    res.violation('ambiguity=resolve did not terminate within 8 s', dict(where, priority=mode)); continue
                if r.get('reject'):
                    res.violation('resolve mode rejects an input that has %d derivations' % nd, dict(where, priority=mode)); continue
                res.count('resolved_' + mode)
                if r['deriv'] not in unshaped:
                    res.violation('the tree returned by ambiguity=resolve is not one of the derivations of the input', dict(where, priority=mode, chosen=r['deriv'])); continue
                if rec['acyclic'] and r.get('empty_over_nonempty'):
                    res.violation('a directly empty alternative of rule %s was chosen although its non-empty alternative "%s" matches the same (empty) span' % tuple(r['empty_over_nonempty']),
                                  dict(where, priority=mode, chosen=r['deriv']))
                    continue
                if rec['has_empty_rule']:
                    res.count('empty_precedence_checked')
                if nd > 1 and not rec['has_empty_rule'] and mode != 'None':
                    res.count('optimality_checked')
                    want = max(prios) if mode == 'normal' else min(prios)
                    if r['priority'] != want:
                        res.violation('the chosen derivation has total priority %d, the %s over all %d derivations is %d' % (r['priority'], 'maximum' if mode == 'normal' else 'minimum (priority=invert)', nd, want),
                                      dict(where, priority=mode, chosen=r['deriv'], all_priorities=sorted(prios)))
            # priority=None: priorities must not influence the choice: same tree as a grammar without priorities gives -- compared below via determinism run
    # ---- terminals that may contain ignored blanks, priorities on rules and terminals: lattice-level derivations
    from common import pmap
    rng5 = random.Random(ctx['seed'] * 1000003 + 505)
    seeds5 = [rng5.randrange(1 << 30) for _ in range(tier_scale(ctx['tier'], 1200, 15000) * (3 if ctx['deepen'] else 1))]
    for seed, (st, rec) in zip(seeds5, pmap(_lattice_prio_case, seeds5, chunksize=8)):
        if st != 'ok':
            if st == 'exc':
                if not exc_in_lark(rec):
                    raise InfraError(rec)
                res.violation('parsing with a dynamic lexer raised an unexpected exception', {'seed': seed, 'detail': rec})
            else:
                res.inconclusive[st] = res.inconclusive.get(st, 0) + 1
            continue
        if rec['checked']:
            res.case(['lattice_prio', rec['grammar'], seed], nontrivial=True)
            res.count('lattice_priority_parses', rec['checked'])
        for f in rec['fails']:
            res.violation('dynamic lexer, resolve: ' + f['why'], dict(f, grammar=rec['grammar']))
    # ---- determinism across processes and hash seeds
    nseeds = tier_scale(ctx['tier'], 3, 12)
    script = DET_SCRIPT % (str(REPO), str(VERIF / 'harness'), ctx['seed'] * 7919 + 5, tier_scale(ctx['tier'], 25, 150))
    outs_ = []
    procs = []
    for hs in range(nseeds):
        env = dict(os.environ, PYTHONHASHSEED=str(hs * 17 + 1))
        procs.append(subprocess.Popen([sys.executable, '-W', 'ignore', '-c', script], stdout=subprocess.PIPE, stderr=subprocess.PIPE, env=env, text=True))
    for p in procs:
        o, e = p.communicate(timeout=600)
        if p.returncode != 0:
            raise InfraError('determinism subprocess failed: %s' % e[-500:])
        outs_.append(json.loads(o.strip().splitlines()[-1]))
    res.count('hash_seeds', nseeds); res.count('determinism_parses', len(outs_[0]))
    res.evaluations += len(outs_[0])
    for k in range(len(outs_[0])):
        vals = {o[k] for o in outs_}
        if len(vals) > 1:
            res.violation('the resolved tree depends on PYTHONHASHSEED / the process', {'case_index': k, 'results': sorted(vals)[:3], 'generator_seed': ctx['seed'] * 7919 + 5})
            break
