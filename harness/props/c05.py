"""C05 — default ambiguity resolution is a priority-optimal, deterministic choice."""
import json, os, sys, subprocess, random
from common import exc_in_lark, InfraError, REPO, VERIF, tier_scale
import forestlib
from props.c20 import problems

DET_SCRIPT = r'''
import sys, json, random
sys.path.insert(0, %r); sys.path.insert(0, %r)
import forestlib, shapelib
from lark import Lark
from lark.exceptions import UnexpectedInput, LarkError
rng = random.Random(%d)
out = []
TIES = ['start: a a\na: X | X X | X X X\nX: "a"\n%%ignore " "\n', 'start: item item item\nitem: X+\nX: "a"\n%%ignore " "\n', 'start: (A | A A)+\nA: "a"\n%%ignore " "\n',
        'start: s\ns: s s | A\nA: "a"\n%%ignore " "\n', 'start: x x\nx: A* \nA: "a"\n%%ignore " "\n']
for i in range(%d):
    g = forestlib.gen_grammar(rng) if i %% 3 else TIES[(i // 3) %% len(TIES)]
    seed = rng.randrange(1 << 30); r2 = random.Random(seed)
    for lexer in ('basic', 'dynamic'):
        for mode in ('normal', 'invert', None):
            try:
                p = Lark(g, parser='earley', lexer=lexer, priority=mode)
            except LarkError:
                out.append('gerr'); continue
            for text in ['a b x', 'a a', 'x', 'b a x a', 'a b', '', 'aaaa', 'a a a a a', 'aaa']:
                try:
                    out.append(repr(p.parse(text)))
                except UnexpectedInput as e:
                    out.append(type(e).__name__)
print(json.dumps(out))
'''


def run(ctx, res):
    for f in ctx['known']:
        if f['id'] == 'F16' and f['status'] == 'fixed':
            from lark import Lark
            w = f['witness']
            t = Lark(w['grammar'], parser='earley', priority='invert').parse(w['text'])
            if t.children[0].data != 'b':
                res.violation('regression of fixed finding F16: ' + f['what'], w)
    jobs, outs = forestlib.forest_stream(ctx, 5, {'c05'}, 3500, 25000, prio=True)
    # the choice function itself: every ambiguous symbol node of the real forests against the Lean `choose`
    from common import run_driver_parallel
    cn = [(rec['grammar'], run_['text'], run_['lexer'], c) for st_, rec in outs if st_ == 'ok' and 'runs' in rec for run_ in rec['runs'] for c in run_.get('choices', [])]
    if cn:
        model = run_driver_parallel([{'op': 'choose', 'nodes': [c['fams'] for _g, _t, _l, c in cn[i:i + 50]]} for i in range(0, len(cn), 50)])
        flat = [x for m in model for x in m]
        res.count('choice_nodes_against_lean_choose', len(cn))
        for (g_, t_, l_, c), m in zip(cn, flat):
            if m != c['chosen'] and c['fams'][m] != c['fams'][c['chosen']]:
                res.corr_break('sorted(children, key=sort_key)[0] differs from the Lean choose', {'grammar': g_, 'text': t_, 'lexer': l_, 'families [is_empty, priority, rule.order]': c['fams'], 'code': c['chosen'], 'model': m})
                break
    for job, rec in problems(res, jobs, outs, 'parsing with ambiguity=resolve'):
        if 'gerr' in rec:
            res.count('grammar_error'); continue
        g = rec['grammar']
        for run_ in rec['runs']:
            where = {'grammar': g, 'text': run_['text'], 'lexer': run_['lexer'], 'maybe_placeholders': rec['maybe_placeholders']}
            if 'resolve' not in run_:
                continue
            nd = run_.get('nderivs')
            res.case(['c05', g, run_['text'], run_['lexer']], nontrivial=bool(nd and nd > 1),
                     sample=dict(where, derivations=nd, priorities=sorted(set(run_.get('deriv_priorities', []))), chosen={k: v.get('priority') for k, v in run_['resolve'].items()}) if nd and nd > 1 and len(res.samples) < 3 else None)
            res.count('lexer_' + run_['lexer'])
            # model tie: ForestSumVisitor's root priority = Lean prio = max over the derivations the forest encodes
            if run_.get('ao_model') is not None and run_.get('root_priority') is not None:
                m = run_['ao_model']
                res.count('forests_compared_with_lean_prio')
                if m['prio'] != m['best']:
                    res.corr_break('driver: prio differs from best(derivs)', where)
                if m['prio'] != run_['root_priority']:
                    res.corr_break('ForestSumVisitor root priority differs from the Lean prio on the exported forest', dict(where, code=run_['root_priority'], model=m['prio']))
            if nd is None or nd == 0:
                res.count('no_enumeration' if nd is None else 'rejected'); continue
            prios = run_['deriv_priorities']
            unshaped = run_['unshaped']
            for mode, r in run_['resolve'].items():
                if r.get('timeout'):
                    res.violation('ambiguity=resolve did not terminate within 8 s', dict(where, priority=mode)); continue
                if r.get('reject'):
                    res.violation('resolve mode rejects an input that has %d derivations' % nd, dict(where, priority=mode)); continue
                res.count('resolved_' + mode)
                if r['deriv'] not in unshaped:
                    res.violation('the tree returned by ambiguity=resolve is not one of the derivations of the input', dict(where, priority=mode, chosen=r['deriv'])); continue
                if rec['acyclic'] and r.get('empty_over_nonempty'):
                    res.violation('a directly empty alternative of rule %s was chosen although its non-empty alternative "%s" matches the same (empty) span' % tuple(r['empty_over_nonempty']),
                                  dict(where, priority=mode, chosen=r['deriv']))
                    continue
                if rec['has_empty_rule']:
                    res.count('empty_precedence_checked')
                if nd > 1 and not rec['has_empty_rule'] and mode != 'None':
                    res.count('optimality_checked')
                    want = max(prios) if mode == 'normal' else min(prios)
                    if r['priority'] != want:
                        res.violation('the chosen derivation has total priority %d, the %s over all %d derivations is %d' % (r['priority'], 'maximum' if mode == 'normal' else 'minimum (priority=invert)', nd, want),
                                      dict(where, priority=mode, chosen=r['deriv'], all_priorities=sorted(prios)))
            # priority=None: priorities must not influence the choice: same tree as a grammar without priorities gives -- compared below via determinism run
    # ---- determinism across processes and hash seeds
    nseeds = tier_scale(ctx['tier'], 3, 12)
    script = DET_SCRIPT % (str(REPO), str(VERIF / 'harness'), ctx['seed'] * 7919 + 5, tier_scale(ctx['tier'], 25, 150))
    outs_ = []
    procs = []
    for hs in range(nseeds):
        env = dict(os.environ, PYTHONHASHSEED=str(hs * 17 + 1))
        procs.append(subprocess.Popen([sys.executable, '-W', 'ignore', '-c', script], stdout=subprocess.PIPE, stderr=subprocess.PIPE, env=env, text=True))
    for p in procs:
        o, e = p.communicate(timeout=600)
        if p.returncode != 0:
            raise InfraError('determinism subprocess failed: %s' % e[-500:])
        outs_.append(json.loads(o.strip().splitlines()[-1]))
    res.count('hash_seeds', nseeds); res.count('determinism_parses', len(outs_[0]))
    res.evaluations += len(outs_[0])
    for k in range(len(outs_[0])):
        vals = {o[k] for o in outs_}
        if len(vals) > 1:
            res.violation('the resolved tree depends on PYTHONHASHSEED / the process', {'case_index': k, 'results': sorted(vals)[:3], 'generator_seed': ctx['seed'] * 7919 + 5})
            break
