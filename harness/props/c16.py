"""C16 — embedded transformer equals transforming afterwards; the four transformer variants agree."""
import random, json, copy
from common import pmap, run_driver_parallel, guarded, Timeout, tier_scale, exc_in_lark, InfraError
import shapelib

M = 1000000


def make_transformer(base, names, tnames, style, log=None, none_names=(), none_tnames=(), default_in_mixin=False):
    """a pure transformer: every chosen rule/alias callback returns ('cb', name, children), every chosen terminal callback ('tcb', type, value)"""
    from lark import v_args
    ns = {}
    for n in names:
        if style == 'inline':
            def f(self, *args, _n=n):
                r = ('cb', _n, tuple(args))
                if log is not None: log.append(r)
                return None if _n in none_names else r
        elif style == 'tree':
            def f(self, tree, _n=n):
                r = ('cb', str(tree.data), tuple(tree.children))
                if log is not None: log.append(r)
                return None if _n in none_names else r
        else:
            def f(self, children, _n=n):
                r = ('cb', _n, tuple(children))
                if log is not None: log.append(r)
                return None if _n in none_names else r        # a pure callback may return None (e.g. JSON null)
        ns[n] = f
    for t in tnames:
        def h(self, tok, _t=t):
            r = ('tcb', tok.type, str(tok))
            if log is not None: log.append(r)
            return None if _t in none_tnames else r
        ns[t] = h
    bases = (base,)
    if default_in_mixin:
        # an overridden __default__ that the concrete class *inherits* (mixin): every node without a named callback goes through it
        def dflt(self, data, children, meta):
            r = ('cb', str(data), tuple(children))
            if log is not None: log.append(r)
            return r
        bases = (type('DefaultMixin', (object,), {'__default__': dflt}), base)
    cls = type('T_' + style, bases, ns)
    if style == 'inline':
        cls = v_args(inline=True)(cls)
    elif style == 'tree':
        cls = v_args(tree=True)(cls)
    return cls


def canon(x):
    from lark import Tree, Token
    if isinstance(x, tuple) and x and x[0] == 'cb':
        return ['c', x[1], [canon(c) for c in x[2]]]
    if isinstance(x, tuple) and x and x[0] == 'tcb':
        return ['ct', x[1], x[2]]
    if isinstance(x, Tree):
        return ['T', str(x.data), [canon(c) for c in x.children]]
    if isinstance(x, Token):
        return ['t', x.type, str(x)]
    if x is None:
        return None
    return ['?', repr(x)]


def model_val(v, labels, toks, none_names=()):
    if v is None:
        return None
    if 't' in v:
        i = v['t']
        if i >= M:
            t = toks[i - M]; return None if t[0] in none_names else ['ct', t[0], t[1]]
        t = toks[i]; return ['t', t[0], t[1]]
    d = v['d']
    kids = [model_val(k, labels, toks, none_names) for k in v['k']]
    if d >= M:
        return None if labels[d - M] in none_names else ['c', labels[d - M], kids]
    return ['T', labels[d], kids]


def tree_to_forest(t, data_ids, toks):
    from lark import Tree, Token
    if isinstance(t, Tree):
        return {'d': data_ids.setdefault(str(t.data), len(data_ids)), 'k': [tree_to_forest(c, data_ids, toks) for c in t.children]}
    toks.append(t)
    return {'t': len(toks) - 1}


def term_val(v, data_names, toks, none_names=()):
    if 't' in v or 'ct' in v:
        t = toks[v.get('t', v.get('ct'))]
        if t is None: return None
        if 'ct' in v and t.type in none_names: return None
        return ['ct' if 'ct' in v else 't', t.type, str(t)]
    key = 'c' if 'c' in v else 'T'
    if key == 'c' and data_names[v[key]] in none_names:
        return None
    return [key, data_names[v[key]], [term_val(a, data_names, toks, none_names) for a in v['a']]]


def _case(args):
    """(grammars that import rules from the module file of shapelib are loaded next to it: their trees hold namespaced terminals such as shapemod__MA)"""
    if '%import .shapemod' not in args[0]:
        return _case_(args, {})
    import tempfile, shutil, os
    d = tempfile.mkdtemp(prefix='larkverif_c16_')
    try:
        open(os.path.join(d, 'shapemod.lark'), 'w').write(shapelib.SHAPEMOD)
        return _case_(args, {'source_path': os.path.join(d, 'main.lark')})
    finally:
        shutil.rmtree(d, ignore_errors=True)


def _case_(args, extra):
    g, seed = args
    from lark import Lark, Tree, Token
    from lark.visitors import Transformer, Transformer_NonRecursive, Transformer_InPlace, Transformer_InPlaceRecursive
    from lark.exceptions import GrammarError, UnexpectedInput, LarkError
    rng = random.Random(seed)
    opts = dict(maybe_placeholders=rng.random() < 0.5, keep_all_tokens=rng.random() < 0.2)
    try:
        with guarded(5):
            plain = Lark(g, parser='lalr', **opts, **extra)
    except (GrammarError, LarkError):
        return {'nobuild': True}
    visible = sorted({shapelib.label_of(r) for r in plain.rules if not r.origin.name.startswith('_')})
    tvisible = sorted({t.name for t in plain.terminals if t.name not in plain.ignore_tokens})
    names = [n for n in visible if rng.random() < 0.6]
    tnames = [t for t in tvisible if rng.random() < 0.3]
    spaced = [t for t in tvisible if '__' in t]
    if spaced and rng.random() < 0.5:
        tnames = [t for t in spaced if rng.random() < 0.7] or spaced[:1]       # callbacks for namespaced (imported) terminals only
    style = rng.choice(['plain', 'plain', 'inline', 'tree'])
    none_names = [n for n in names if rng.random() < 0.2]
    none_tnames = [t for t in tnames if rng.random() < 0.3]
    T = make_transformer(Transformer, names, tnames, style, none_names=none_names, none_tnames=none_tnames)
    try:
        with guarded(5):
            emb = Lark(g, parser='lalr', transformer=T(), **opts, **extra)
    except (GrammarError, LarkError):
        return {'nobuild': True}
    recs = []
    for _ in range(3):
        try:
            text = shapelib.sample_sentence(rng, plain)
        except RecursionError:
            continue
        try:
            with guarded(5):
                tree = plain.parse(text)
                raw = shapelib.raw_parse(plain, text)
        except UnexpectedInput:
            continue
        rec = {'text': text, 'style': style, 'names': names, 'tnames': tnames, 'none_names': none_names + none_tnames}
        with guarded(10):
            rec['embedded'] = canon(emb.parse(text))
            rec['after'] = canon(T().transform(tree))
            # history: an instance is used once with only part of its callbacks, the others are attached to the instance afterwards (what
            # merge_transformers() and ast_utils.create_transformer() do: setattr on the instance), then it is used again — as a transformer
            # after the parse and embedded in a parser; it must behave like an instance that had all callbacks from the start
            part_n, part_t = names[:len(names) // 2], tnames[:len(tnames) // 2]
            Tp = make_transformer(Transformer, part_n, part_t, style, none_names=none_names, none_tnames=none_tnames)
            tp, full = Tp(), T()
            tp.transform(copy.deepcopy(tree))
            for n_ in names + tnames:
                if n_ not in part_n and n_ not in part_t:
                    setattr(tp, n_, getattr(full, n_))
            rec['after_late'] = canon(tp.transform(copy.deepcopy(tree)))
            rec['late_attached'] = [n_ for n_ in names + tnames if n_ not in part_n and n_ not in part_t]
        # the model's inputs
        forest, nodes, toks = shapelib.to_forest(raw, plain, opts['maybe_placeholders'])
        rec['forest'] = forest
        rec['labels'] = [shapelib.label_of(n.rule) for n in nodes]
        rec['toks'] = [[t.type, str(t)] for t in toks]
        rec['cb_nodes'] = [i for i, n in enumerate(nodes) if shapelib.label_of(n.rule) in names and not n.rule.origin.name.startswith('_')]
        rec['cb_toks'] = [i for i, t in enumerate(toks) if t.type in tnames]
        # ---- the four variants on the parse tree, with call logs
        variants = {}
        dmix = rng.random() < 0.3
        rec['default_in_mixin'] = dmix
        for vname, base in [('Transformer', Transformer), ('NonRecursive', Transformer_NonRecursive), ('InPlace', Transformer_InPlace), ('InPlaceRecursive', Transformer_InPlaceRecursive)]:
            log = []
            Tv = make_transformer(base, names, tnames, style, log, none_names=none_names, none_tnames=none_tnames, default_in_mixin=dmix)
            with guarded(10):
                out = Tv().transform(copy.deepcopy(tree))
            clog = [canon(x) for x in log]
            variants[vname] = {'result': canon(out), 'calls': sorted(json.dumps(c) for c in clog), 'ordered': clog}
        rec['variants'] = variants
        data_ids, ftoks = {}, []
        rec['tforest'] = [tree_to_forest(tree, data_ids, ftoks)]
        rec['data_names'] = [k for k, _v in sorted(data_ids.items(), key=lambda kv: kv[1])]
        rec['cb_data'] = [i for n, i in data_ids.items() if n in names or dmix]
        rec['ftoks'] = [None if t is None else [t.type, str(t)] for t in ftoks]
        rec['cb_ftoks'] = [i for i, t in enumerate(ftoks) if t is not None and t.type in tnames]
        recs.append(rec)
    return {'grammar': g, 'opts': opts, 'recs': recs}


def children_first(ordered):
    """every callback result appearing as a direct argument of a call was produced by an earlier call"""
    seen = set()
    for c in ordered:
        if c[0] == 'c':
            for a in c[2]:
                if a is not None and a[0] in ('c', 'ct') and json.dumps(a) not in seen:
                    return False
        seen.add(json.dumps(c))
    return True


def check_iter_subtrees(ctx, res):
    """Tree.iter_subtrees on random proper trees (Tree nodes with unique ids, tokens mixed in) vs IterProto.iterSubtrees, the function
    Props.C16.iter_subtrees_children_first is about; the theorem's conclusion (children before parents, every subtree once) is also checked on the real order"""
    from lark import Tree, Token
    rng = random.Random(ctx['seed'] * 1000003 + 1616)
    def gen(depth, counter):
        i = counter[0]; counter[0] += 1
        kids, spec = [], []
        for _ in range(rng.choice([0, 1, 2, 3]) if depth < 5 else 0):
            if rng.random() < 0.3:
                kids.append(Token('A', 'a'))
            else:
                t, sp = gen(depth + 1, counter); kids.append(t); spec.append(sp)
        return Tree(str(i), kids), {'id': i, 'kids': spec}
    trees, cases = [], []
    for _ in range(tier_scale(ctx['tier'], 400, 4000)):
        t, sp = gen(0, [0]); trees.append(t); cases.append({'op': 'iter_subtrees', 'tree': sp})
    model = run_driver_parallel(cases)
    for t, c, m in zip(trees, cases, model):
        if isinstance(m, dict) and 'error' in m:
            raise InfraError('driver: %s' % m['error'])
        real = [int(x.data) for x in t.iter_subtrees()]
        res.case(['iter_subtrees', real], nontrivial=len(real) > 2)
        res.count('iter_subtrees_orders_compared')
        seen = set(); ok = True
        for x in t.iter_subtrees():
            if any(isinstance(c_, Tree) and int(c_.data) not in seen for c_ in x.children): ok = False
            seen.add(int(x.data))
        n_nodes = json.dumps(c['tree']).count('"id"')
        if not ok or len(real) != n_nodes or len(set(real)) != n_nodes:
            res.violation('Tree.iter_subtrees yields a node before one of its children, or not every subtree exactly once (the order the in-place transformer and the visitors rely on)',
                          {'tree': c['tree'], 'yielded_ids': real})
        elif real != m['order']:
            res.corr_break('Tree.iter_subtrees order differs from the Lean mirror IterProto.iterSubtrees (theorem iter_subtrees_children_first no longer speaks about the code)', {'tree': c['tree'], 'code': real, 'model': m['order']})


def run(ctx, res):
    check_iter_subtrees(ctx, res)
    rng = random.Random(ctx['seed'] * 1000003 + 16)
    N = tier_scale(ctx['tier'], 2500, 30000) * (3 if ctx['deepen'] else 1)
    jobs = [(shapelib.gen_grammar(rng, imports=True), rng.randrange(1 << 30)) for _ in range(N)]
    for f in ctx['known']:
        if f['id'] == 'F8' and f['status'] == 'open':
            from lark import Lark, Transformer
            w = f['witness']
            class T(Transformer):
                def _list(self, ch): return ('cb', '_list', tuple(ch))
            try:
                Lark(w['grammar'], parser='lalr', transformer=T()).parse(w['text'])
            except AttributeError:
                res.known_hits.append(('F8', '%s: %r on %r raises AttributeError' % (f['what'], w['grammar'], w['text'])))
    outs = pmap(_case, jobs, chunksize=4)
    cases, meta = [], []
    for job, (st, rec) in zip(jobs, outs):
        if st != 'ok':
            if st == 'exc':
                if not exc_in_lark(rec):
                    raise InfraError(rec)
                res.violation('a transformer run raised an unexpected exception', {'grammar': job[0], 'seed': job[1], 'detail': rec})
            else:
                res.inconclusive[st] = res.inconclusive.get(st, 0) + 1
            continue
        if rec.get('nobuild'):
            res.count('not_lalr'); continue
        for r in rec['recs']:
            cases.append({'op': 'embed', 'forest': r['forest'], 'cb_nodes': r['cb_nodes'], 'cb_toks': r['cb_toks']}); meta.append(('embed', rec, r))
            ftoks = r['ftoks']
            cases.append({'op': 'transform', 'forest': r['tforest'], 'cb_data': r['cb_data'], 'cb_toks': r['cb_ftoks']}); meta.append(('variants', rec, r))
    model = run_driver_parallel(cases)
    for (kind, rec, r), m in zip(meta, model):
        if 'error' in m:
            raise InfraError('driver: %s' % m['error'])
        where = {'grammar': rec['grammar'], 'opts': rec['opts'], 'text': r['text'], 'style': r['style'], 'rule_callbacks': r['names'], 'terminal_callbacks': r['tnames']}
        if kind == 'embed':
            res.case(['embed', rec['grammar'], r['text'], r['style'], r['names'], r['tnames']], nontrivial=bool(r['cb_nodes'] or r['cb_toks']),
                     sample=dict(where, embedded=r['embedded']) if r['cb_nodes'] and len(res.samples) < 3 else None)
            res.count('embedded_vs_after'); res.count('style_' + r['style'])
            me = model_val(m['embedded'][0], r['labels'], r['toks'], r['none_names'])
            ma = model_val(m['after'][0], r['labels'], r['toks'], r['none_names'])
            if m['embedded'] != m['after']:
                res.corr_break('driver: buildListT differs from map trV buildList (hypothesis D.Plain violated?)', where)
            if r['embedded'] != r['after']:
                res.violation('Lark(transformer=T).parse(text) != T.transform(Lark().parse(text))', dict(where, embedded=r['embedded'], after=r['after']))
            elif r.get('after_late') is not None and r['after_late'] != r['after']:
                res.count('late_attached_histories')
                res.violation('a transformer instance that was used once before the rest of its callbacks were attached to it (as merge_transformers does) does not transform like an instance that had them from the start — and so not like the embedded transformer', dict(where, late_attached=r['late_attached'], instance_with_history=r['after_late'], fresh_instance=r['after']))
            elif r['embedded'] != me:
                res.violation('embedded/after results agree with each other but not with the verified model of the callback chain', dict(where, code=r['embedded'], model=me))
        else:
            res.count('variant_runs')
            ref = r['variants']['Transformer']
            for vname, v in r['variants'].items():
                if v['result'] != ref['result']:
                    res.violation('%s returns a different result than Transformer' % vname, dict(where, Transformer=ref['result'], other=v['result'])); break
                if v['calls'] != ref['calls']:
                    res.violation('%s does not call each callback exactly once per node (call multiset differs from Transformer)' % vname, dict(where, variant=vname)); break
                if not children_first(v['ordered']):
                    res.violation('%s calls a parent before one of its children' % vname, dict(where, variant=vname, calls=v['ordered'])); break
            else:
                toks = [None if t is None else type('Tk', (), {'type': t[0], '__str__': lambda self, _v=t[1]: _v})() for t in r['ftoks']]
                mr = term_val(m['recursive'][0], r['data_names'], toks, r['none_names'])
                ms = term_val(m['stack'][0], r['data_names'], toks, r['none_names']) if m['stack'] else None
                if mr != ref['result']:
                    res.violation('Transformer result differs from the model tr', dict(where, code=ref['result'], model=mr))
                elif ms != mr:
                    res.corr_break('driver: runStack differs from tr', where)
                if m['instrs'] != 0 and len([c for c in ref['ordered']]) > m['instrs']:
                    res.violation('more callback invocations than nodes', dict(where, calls=len(ref['ordered']), nodes=m['instrs']))
