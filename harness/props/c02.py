"""C02 — LALR(1): conflicts reported, accepted language sound and (conflict-free) exact; rows are those of the LALR(1) automaton."""
import random, json
from common import pmap, run_driver_parallel, tier_scale, guarded, Timeout, exc_in_lark, InfraError
import lalrlib, oracle_lr1

LETTER = {'A': 'a', 'B': 'b', 'C': 'c', 'D': 'd'}


def _case(args):
    g, seed, nstr = args
    rng = random.Random(seed)
    from lark import Lark
    from lark.exceptions import GrammarError, UnexpectedInput, UnexpectedToken, UnexpectedCharacters
    rec = {'grammar': g}
    with guarded(15):
        ex = lalrlib.export(g)
    rec['ex'] = ex
    # ---- independent LALR(1) lookaheads: canonical LR(1) merged by core
    with guarded(20):
        merged, _n = oracle_lr1.lr1_lalr(ex['plain_rules'], 'start')
    nrules = len(ex['plain_rules'])
    tid = {t: i for i, t in enumerate(ex['terms'])}
    spec_las = []
    for items in ex['items']:
        core = frozenset((ri, d) for ri, d in items)
        m = merged.get(core)
        if m is None:
            spec_las.append(None); continue
        by_la = {}
        for ri, las in m.items():
            for la in las:
                by_la.setdefault(tid[la], []).append([ex['prio'][ri], ri])
        spec_las.append(sorted([la, sorted(c, key=lambda x: x[1])] for la, c in by_la.items()))
    rec['spec_las'] = spec_las
    # item-lookahead annotation for the completeness certificate: true LALR(1) lookaheads of every item (root items carry none)
    ann = []
    il = getattr(oracle_lr1.lr1_lalr, 'item_las', {})
    for q, items in enumerate(ex['items']):
        core = frozenset((ri, d) for ri, d in items)
        for (ri, d), las in il.get(core, {}).items():
            if ri < nrules:
                ann.append([q, ri, d, sorted(tid[x] for x in las)])
    rec['ann'] = ann
    # ---- the real front end
    # a post-lexer that re-creates every token with shifted coordinates: what the parser is fed then differs from what the lexer last produced
    from lark import Token
    class _Shift:
        always_accept = ()
        def process(self, stream):
            for t in stream:
                yield Token(t.type, t.value, t.start_pos + 100, t.line + 10, t.column + 7, t.end_line + 10, t.end_column + 7, t.end_pos + 100)
    shifted = rng.random() < 0.3
    spaced = (not shifted) and rng.random() < 0.4      # tokens separated by ignored blanks and (several) newlines: error coordinates are checked against the text
    try:
        with guarded(15):
            p = Lark(g + ('%ignore /[ \\n]+/\n' if spaced else ''), parser='lalr', lexer=rng.choice(['basic', 'contextual']), postlex=_Shift() if shifted else None)
        rec['lark_error'] = None
    except GrammarError as e:
        rec['lark_error'] = str(e)[:200]
        return rec
    strings = []
    for _ in range(nstr):
        s = lalrlib.sample_tokens(rng, ex) if rng.random() < 0.65 else None
        if s is not None and s and rng.random() < 0.35:
            k = rng.randrange(len(s)); op = rng.random()
            names = [t for t in ex['terms'] if t != '$END']
            s = s[:k] + s[k + 1:] if op < 0.35 or not names else s[:k] + [rng.choice(names)] + s[k:] if op < 0.7 else s[:k]
        if s is None:
            names = [t for t in ex['terms'] if t != '$END']
            s = [rng.choice(names) for _ in range(rng.randint(0, 7))] if names else []
        strings.append(tuple(s))
    runs = []
    for s in dict.fromkeys(strings):
        if spaced:
            parts, offs = [rng.choice(['', ' ', '\n\n', ' \n'])], []
            for t in s:
                offs.append(sum(len(x) for x in parts)); parts.append(LETTER[t]); parts.append(rng.choice(['', ' ', '\n', '\n\n', ' \n \n ', '  ']))
            text = ''.join(parts)
        else:
            text = ''.join(LETTER[t] for t in s); offs = list(range(len(s)))
        r = {'toks': [tid[t] for t in s], 'text': text}
        try:
            with guarded(1.5):
                try:
                    p.parse(text); r['ok'] = True
                except UnexpectedToken as e:
                    r['ok'] = False; r['err'] = 'UnexpectedToken'; r['tok'] = e.token.type
                    sp_ = (e.token.start_pos - (100 if shifted and e.token.start_pos >= 100 else 0)) if e.token.type != '$END' else None   # (the contextual lexer raises before the post-lexer)
                    r['errpos'] = len(s) if sp_ is None else (offs.index(sp_) if sp_ in offs else -1 - sp_)      # as a token index
                    if sp_ is not None and not shifted:
                        r['coords'] = [[e.line, e.column], [text.count('\n', 0, sp_) + 1, sp_ - (text.rfind('\n', 0, sp_) + 1) + 1]]
                    elif sp_ is None and not shifted and s:
                        lp = offs[-1]
                        r['coords'] = [[e.token.line, e.token.column], [text.count('\n', 0, lp) + 1, lp - (text.rfind('\n', 0, lp) + 1) + 1]]
                    if e.token.type == '$END':
                        co = lambda t: [t.start_pos, t.line, t.column, t.end_line, t.end_column, t.end_pos]
                        fed = list(p.lex(text))
                        r['end_tok'] = co(e.token); r['last_fed'] = co(fed[-1]) if fed else [0, 1, 1, None, None, None]
                    r['expected'] = sorted(tid[x if x != '<END-OF-FILE>' else '$END'] for x in e.expected if x in tid or x == '<END-OF-FILE>')
                    r['accepts'] = sorted(tid[x] for x in e.accepts if x in tid) if e.accepts is not None else None
                    r['eline'], r['ecol'] = e.line, e.column
                except UnexpectedCharacters as e:
                    r['ok'] = False; r['err'] = 'UnexpectedCharacters'; r['errpos'] = e.pos_in_stream
                    r['allowed'] = sorted(tid[x] for x in e.allowed if x in tid)
        except Timeout:
            r['timeout'] = True
            runs.append(r); continue
        # interactive: choices()/accepts() after every consumed prefix
        steps = []
        try:
            with guarded(1.5):
                ip = p.parse_interactive(text)
                def snap():
                    return {'choices': sorted(tid[k] for k in ip.choices() if k in tid), 'accepts': sorted(tid[k] for k in ip.accepts() if k in tid)}
                steps.append(snap())
                for tok in ip.lexer_thread.lex(ip.parser_state):
                    ip.feed_token(tok)
                    steps.append(snap())
        except UnexpectedInput:
            pass
        except Timeout:
            r['timeout'] = True
        r['steps'] = steps
        runs.append(r)
    rec['runs'] = runs
    return rec


def _sentence_search(args):
    """failing-input search after a broken obligation about the automaton: every sentence of the grammar up to a length bound is parsed by lark"""
    g, plain_rules, maxlen = args
    from lark import Lark
    from lark.exceptions import UnexpectedInput
    S = {}
    for _round in range(40):
        changed = False
        for lhs, rhs in plain_rules:
            parts = [()]
            for is_term, name in rhs:
                opts = [(name,)] if is_term else sorted(S.get(name, ()))
                parts = [a + b for a in parts for b in opts if len(a) + len(b) <= maxlen][:400]
                if not parts:
                    break
            cur = S.setdefault(lhs, set())
            for w in parts:
                if w not in cur and len(cur) < 400:
                    cur.add(w); changed = True
        if not changed:
            break
    rejected = []
    from lark.exceptions import GrammarError
    with guarded(20):
        try:
            p = Lark(g, parser='lalr')
        except GrammarError:
            return {'sentences': len(S.get('start', ())), 'rejected': [], 'grammar_error': True}
        for w in sorted(S.get('start', ()), key=lambda w: (len(w), w)):
            text = ''.join(LETTER[t] for t in w)
            try:
                p.parse(text)
            except UnexpectedInput as e:
                rejected.append({'text': text, 'error': type(e).__name__})
                if len(rejected) >= 3:
                    break
    return {'sentences': len(S.get('start', ())), 'rejected': rejected}


def _f15(args):
    from lark import Lark
    g, text = args
    p = Lark(g, parser='lalr')
    with guarded(3):
        p.parse(text)
    return True


def run(ctx, res, focus='c02'):
    """focus='c08': only the clauses of C08 (error position, accepts/expected, no hang) are reported; the table clauses belong to C02"""
    rng = random.Random(ctx['seed'] * 1000003 + (2 if focus == 'c02' else 82))
    tier = ctx['tier']
    N = tier_scale(tier, 500, 9000) * (3 if ctx['deepen'] else 1)
    jobs = [(lalrlib.gen_lalr(rng), rng.randrange(1 << 30), 6) for _ in range(N)]
    outs = pmap(_case, jobs, chunksize=4)
    for f in ctx['known']:
        if f['id'] == 'F15' and f['status'] == 'open' and focus == 'c02':
            (st, _r), = pmap(_f15, [(f['witness']['grammar'], f['witness']['text'])], procs=1)
            if st == 'timeout':
                res.known_hits.append(('F15', f['what'] + ': ' + json.dumps(f['witness'])))
    cases, meta = [], []
    for job, (st, rec) in zip(jobs, outs):
        if st != 'ok':
            if st == 'exc':
                if not exc_in_lark(rec):
                    raise InfraError(rec)
                res.violation('LALR construction/parse raised an unexpected exception', {'grammar': job[0], 'detail': rec})
            else:
                res.inconclusive[st] = res.inconclusive.get(st, 0) + 1
            continue
        ex = rec['ex']
        g = rec['grammar']
        names = ex['rule_names']
        # (1) decision logic on lark's own lookaheads, (2) the same logic on the independent LALR(1) lookaheads
        cases.append({'op': 'lr_table', 'rows': ex['rows']}); meta.append(('own', rec, None))
        T_ = len(ex['terms'])
        cases.append({'op': 'lr0_check', 'rules': ex['rules'], 'items': ex['items'], 'kernels': ex['kernels'],
                      'trans': [[q, [1, k] if k < T_ else [0, k - T_], q2] for q, row in enumerate(ex['rows']) for k, q2 in row['shifts']],
                      'order': __import__('earleylib').productive_order(ex['rules']), 'q0': ex['start_state']}); meta.append(('lr0', rec, None))
        if all(x is not None for x in rec['spec_las']):
            cases.append({'op': 'lr_table', 'rows': [{'shifts': r['shifts'], 'las': s} for r, s in zip(ex['rows'], rec['spec_las'])]}); meta.append(('spec', rec, None))
        else:
            res.count('lookahead_comparison_skipped_unproductive_symbols')   # LR(1) closure drops items behind symbols that derive nothing
        if ex['error'] is None and rec.get('lark_error') is None:
            for k_, r in enumerate(rec['runs']):
                cases.append(lalrlib.ftable_case(ex, r['toks'], ann=rec['ann'] if k_ == 0 else None)); meta.append(('parse', rec, r))
                cases.append({'op': 'earley', 'rules': ex['rules'][:len(ex['plain_rules'])], 'n': len(r['toks']), 'edges': [[t, i, i + 1] for i, t in enumerate(r['toks'])], 'igns': [],
                              'start': ex['nts'].index('start')}); meta.append(('lang', rec, r))
    model = run_driver_parallel(cases, timeout=900)
    lang = {}
    lr0_broken = []
    for (kind, rec, r), m in zip(meta, model):
        if 'error' in m and not isinstance(m['error'], bool):
            raise InfraError('driver: %s' % m['error'])
        if kind == 'lang':
            lang[(id(rec), tuple(r['toks']))] = m['accept']
    for (kind, rec, r), m in zip(meta, model):
        ex, g = rec['ex'], rec['grammar']
        T = len(ex['terms'])
        if kind in ('own', 'spec', 'lr0') and focus != 'c02':
            if kind == 'lr0' and m.get('ok') and m.get('productive') is True and m.get('start_kernel_ok') is True:
                res.count('automata_under_shifted_terminal_is_legal')      # hypotheses of Props.C08.lalr_shifted_terminal_is_legal hold for lark's own automaton
            elif kind == 'lr0':
                res.count('automata_outside_shifted_terminal_is_legal')
            continue
        if kind == 'lr0':
            res.count('lr0_automata_checked'); res.count('lr0_states', len(ex['items']))
            # hypotheses of Props.C08.lalr_shifted_terminal_is_legal, evaluated by the driver on lark's own automaton
            if m.get('ok') and m.get('productive') is True and m.get('start_kernel_ok') is True:
                res.count('automata_under_shifted_terminal_is_legal')
            elif m.get('start_kernel_ok') is False:
                res.count('start_kernel_not_of_expected_shape')
            if not m['ok']:
                lr0_broken.append((rec, m))
            continue
        if kind == 'own':
            sr = any(any(s[0] == la for s in row['shifts']) for row in ex['rows'] for la, _c in row['las'])
            rr = any(len(c) > 1 for row in ex['rows'] for _la, c in row['las'])
            res.case(['table', g], nontrivial=len(ex['rows']) > 3, sample={'grammar': g, 'states': len(ex['rows']), 'lark_error': ex['error'], 'shift_reduce': sr, 'multi_rule_lookahead': rr} if rr and len(res.samples) < 2 else None)
            res.count('grammars'); res.count('grammar_error' if ex['error'] else 'grammar_ok')
            if sr: res.count('with_shift_reduce')
            if rr: res.count('with_multi_rule_lookahead')
            if bool(ex['error']) != m['error']:
                res.violation('GrammarError %s but the decision logic on lark\'s own lookahead sets says %s' % ('raised' if ex['error'] else 'not raised', 'conflict' if m['error'] else 'no conflict'),
                              {'grammar': g, 'lark_error': ex['error'], 'model_conflicts': m.get('conflicts')})
            elif not m['error'] and [sorted(row) for row in m['rows']] != ex['table']:
                bad = [i for i, (a, b) in enumerate(zip(m['rows'], ex['table'])) if sorted(a) != b][0]
                res.violation('action table row differs from: shifts first, reduce only on a free lookahead, priority winner', {'grammar': g, 'state_items': [[ex['rule_names'][ri], d] for ri, d in ex['items'][bad]],
                                                                                                                         'code_row': ex['table'][bad], 'model_row': sorted(m['rows'][bad])})
            if bool(rec.get('lark_error')) != bool(ex['error']) and 'lark_error' in rec:
                res.violation('Lark(parser="lalr") and LALR_Analyzer disagree about GrammarError', {'grammar': g, 'frontend': rec.get('lark_error'), 'analyzer': ex['error']})
        elif kind == 'spec':
            own = [sorted(row['las']) for row in ex['rows']]
            if own != rec['spec_las']:
                bad = [i for i, (a, b) in enumerate(zip(own, rec['spec_las'])) if a != b][0]
                detail = {'grammar': g, 'state_items': [[ex['rule_names'][ri], d] for ri, d in ex['items'][bad]],
                          'lark_lookaheads': [[ex['terms'][la], [ex['rule_names'][ri] for _p, ri in c]] for la, c in own[bad]],
                          'lalr1_lookaheads': [[ex['terms'][la], [ex['rule_names'][ri] for _p, ri in c]] for la, c in rec['spec_las'][bad]]}
                if bool(ex['error']) != m['error']:
                    res.violation('GrammarError is %s although the LALR(1) automaton (canonical LR(1) merged by core) %s an unresolved reduce/reduce conflict' %
                                  ('raised' if ex['error'] else 'not raised', 'has' if m['error'] else 'has no'), detail)
                else:
                    res.violation('lookahead sets of a state differ from the LALR(1) automaton of the grammar (rows of choices() are not the automaton\'s)', detail)
        elif kind == 'parse':
            key = (id(rec), tuple(r['toks']))
            inlang = lang.get(key)
            res.case(['parse', g, r['toks']], nontrivial=len(r['toks']) > 0,
                     sample={'grammar': g, 'tokens': [ex['terms'][t] for t in r['toks']], 'lark': 'accept' if r.get('ok') else r.get('err'), 'model': m['outcome'], 'in_language': inlang} if len(r['toks']) > 3 and len(res.samples) < 5 else None)
            res.count('parses')
            if not m['safe']:
                res.corr_break('lark\'s own table fails the soundness certificate checkSafe', {'grammar': g})
            if m.get('closed') is not None and focus == 'c02':
                sr_ = any(any(s[0] == la for s in row['shifts']) for row in ex['rows'] for la, _c in row['las'])
                rr_ = any(len(c) > 1 for row in ex['rows'] for _la, c in row['las'])
                res.count('tables_certified_complete' if m['closed'] else 'tables_not_certified_complete')
                if not m['closed'] and not sr_ and not rr_ and all(x is not None for x in rec['spec_las']):
                    res.corr_break('lark\'s own conflict-free table fails the completeness certificate checkClosed (with true LALR(1) item lookaheads and lark\'s NULLABLE/FIRST)', {'grammar': g})
                if m['closed'] and (sr_ or rr_):
                    res.corr_break('checkClosed passed on a table with conflicts', {'grammar': g})
            if m['parse'] != m['outcome']:
                res.corr_break('driver stepwise outcome differs from LRProto.parse', {'grammar': g, 'toks': r['toks']})
            if r.get('timeout'):
                # F15: a derivation cycle whose reduce/reduce conflict was resolved by priority makes the real driver (and accepts()) reduce forever
                # region: any reduce/reduce conflict that was resolved by priority (the table is then not an LALR(1) table; with empty or unit rules the driver can reduce forever)
                region = any(len(c) > 1 for row in ex['rows'] for _la, c in row['las'])
                from common import load_known_findings
                f15 = [f for f in load_known_findings() if f['id'] == 'F15' and f['status'] == 'open']     # (the finding belongs to C02; the region also applies when C08 runs this stream)
                if region and f15:
                    res.count('loop_region_F15')
                else:
                    res.violation('LALR parse/accepts() does not return (model driver outcome: %s)' % m['outcome'], {'grammar': g, 'text': r['text']})
                continue
            ok = r['ok']
            res.count('accept' if ok else 'reject')
            # soundness (always) and completeness (conflict-free) against the verified recogniser
            sr = any(any(s[0] == la for s in row['shifts']) for row in ex['rows'] for la, _c in row['las'])
            rr = any(len(c) > 1 for row in ex['rows'] for _la, c in row['las'])
            if focus == 'c02':
                if ok and inlang is False:
                    res.violation('LALR accepts a token string that is not a sentence of the grammar', {'grammar': g, 'text': r['text']}); continue
                if not ok and inlang is True and not sr and not rr:
                    res.violation('LALR rejects a sentence of a conflict-free grammar', {'grammar': g, 'text': r['text'], 'error': r.get('err')}); continue
                if (m['outcome'] == 'accept') != ok:
                    res.violation('parse() %s but the model driver on lark\'s own table %s' % ('accepts' if ok else 'rejects', m['outcome']), {'grammar': g, 'text': r['text']}); continue
            elif (m['outcome'] == 'accept') != ok:
                continue
            # rows and accepts() after every prefix
            for k, (a, b) in enumerate(zip(r.get('steps', []), m['steps'])):
                if a['choices'] != sorted(b['choices']):
                    if focus != 'c02':
                        break
                    res.violation('choices() after %d tokens is not the row of the automaton state' % k, {'grammar': g, 'text': r['text'], 'code': a['choices'], 'model': b['choices']}); break
                if a['accepts'] != sorted(b['accepts']):
                    res.violation('accepts() after %d tokens differs from trial feeding on the model driver' % k, {'grammar': g, 'text': r['text'], 'code': a['accepts'], 'model': b['accepts'], 'terms': ex['terms']}); break
            # C08 (LALR): error at the first token the driver cannot consume; accepts subset of expected
            if not ok and r.get('err') == 'UnexpectedToken':
                want = len(r['toks']) if m['errorAt'] >= len(r['toks']) else m['errorAt']
                if r['errpos'] != want:
                    res.violation('UnexpectedToken is not raised at the first token that cannot be consumed', {'grammar': g, 'text': r['text'], 'code_pos': r['errpos'], 'model_pos': want})
                elif 'coords' in r and r['coords'][0] != r['coords'][1]:
                    res.violation('the reported line/column are not the coordinates of the offending token (of the last token, for an unexpected $END) in the text',
                                  {'grammar': g, 'text': r['text'], 'reported [line, column]': r['coords'][0], 'coordinates in the text': r['coords'][1], 'token': r.get('tok')})
                elif 'end_tok' in r and r['end_tok'] != r['last_fed']:
                    res.violation('the unexpected $END does not carry the coordinates of the last token fed to the parser',
                                  {'grammar': g, 'text': r['text'], '$END [start_pos,line,column,end_line,end_column,end_pos]': r['end_tok'], 'last_token_fed': r['last_fed'],
                                   'note': 'tokens reach the parser through a post-lexer that re-creates them with shifted coordinates' if r['end_tok'][0] < 100 and r['last_fed'][0] >= 100 else ''})
                elif r.get('accepts') is not None and not (set(r['accepts']) - {ex['terms'].index('$END')}) <= set(r['expected']):   # $END is not a terminal of the grammar (the contextual lexer's set cannot contain it)
                    res.violation('accepts is not a subset of expected', {'grammar': g, 'text': r['text'], 'accepts': r['accepts'], 'expected': r['expected']})
    # ---- lark's LR(0) automaton is not the automaton of the grammar (LR0.checkLR0 on the exported item sets/kernels/transitions failed): the tie to
    # LR0.mem_closure_iff / checkLR0_sound is broken; search for a sentence the parser now rejects (all sentences up to length 7)
    if lr0_broken and focus == 'c02':
        found = pmap(_sentence_search, [(rec['grammar'], rec['ex']['plain_rules'], 7) for rec, _m in lr0_broken[:60]], chunksize=1)
        for (rec, m), (st, out) in zip(lr0_broken[:60], found):
            ex, g = rec['ex'], rec['grammar']
            bad = m.get('states_not_closure_of_kernel', [])
            detail = {'grammar': g, 'states_not_closure_of_kernel': [[[ex['rule_names'][ri], d] for ri, d in ex['items'][q]] for q in bad[:3]],
                      'obligation': 'LR0.checkLR0 (LR0.checkLR0_sound, LR0.mem_closure_iff): every state is the LR(0) closure of its kernel, every transition leads to the advanced kernel'}
            sr = any(any(s_[0] == la for s_ in row['shifts']) for row in ex['rows'] for la, _c in row['las'])
            rr = any(len(c) > 1 for row in ex['rows'] for _la, c in row['las'])
            if st == 'ok' and out['rejected'] and not sr and not rr and rec.get('lark_error') is None and ex['error'] is None:
                res.violation('LALR rejects a sentence of a conflict-free grammar (its LR(0) item sets are not the closures of their kernels)', dict(detail, rejected=out['rejected'], text=out['rejected'][0]['text']))
            else:
                res.corr_break('lark\'s LR(0) automaton fails LR0.checkLR0 (a state is not the closure of its kernel, or a transition does not lead to the advanced kernel)', dict(detail, search=out if st == 'ok' else st))
