"""C17 — imports, overrides, extensions, templates mean what textual inlining means."""
import random, re, os, json, tempfile, shutil
from common import pmap, run_driver, guarded, Timeout, tier_scale, exc_in_lark, InfraError


def gen(rng):
    """returns dict(files={name: text}, main=text, inlined=text).  Module rules only reference module rules/terminals (and, for the nested case, the nested module's)."""
    mod_rules = ['m%d' % i for i in range(rng.randint(1, 3))] + (['_mh'] if rng.random() < 0.4 else [])
    main_rules = ['start'] + ['r%d' % i for i in range(rng.randint(0, 2))]
    use_template = rng.random() < 0.3
    use_nested = rng.random() < 0.3
    def alts(names, terms):
        out = []
        for _ in range(rng.randint(1, 3)):
            syms = [rng.choice(names + terms + terms) for _ in range(rng.choice([1, 1, 2, 2, 3]))]
            out.append(' '.join(x + rng.choice(['', '', '', '?', '*']) for x in syms))
        return ' | '.join(dict.fromkeys(out))
    mterms = ['MA', '"x"']; terms = ['A', 'B', '"y"']
    nested = {}
    mod_names = list(mod_rules)
    if use_nested:
        nested = {'n0': alts(['n0'], ['NA', '"w"']) if rng.random() < 0.5 else 'NA | "w" NA'}
        mod_names.append('n0')
    mod = {n: alts(mod_names, mterms) for n in mod_rules}
    mods = {n: (rng.choice(['', '', '?', '!', '?']) if not n.startswith('_') else rng.choice(['', '!'])) for n in mod_rules}      # ?/! modifiers of the module's definitions
    import_template = use_template and rng.random() < 0.6
    local_template = use_template and not import_template and rng.random() < 0.7
    term_chain = rng.random() < 0.3          # a module terminal defined through another one; both imported; the inner one %extend-ed
    if use_template:
        mod['tp{x}'] = rng.choice(['x "," x', '"<" x ">"', 'x x?'])
        k = rng.choice(mod_rules)
        mod[k] = mod[k] + ' | tp{MA}'         # a module rule calling its own module's template
    visible = [n for n in mod_rules if not n.startswith('_')]
    imported = rng.sample(visible, rng.randint(1, len(visible)))
    rename = {n: (n + 'x' if rng.random() < 0.3 else n) for n in imported}
    extra_names = [rename[i] for i in imported]
    main = {n: alts(main_rules + extra_names, terms) for n in main_rules}
    if import_template or local_template:
        main['start'] += ' | tp{%s}' % rng.choice(['A', 'B'] + extra_names)
    if local_template:
        main['tp{x}'] = rng.choice(['x ";" x', '"(" x ")"', 'x "," x "," x'])      # same name and arity as the module's, different body
    # a local rule with the same name as a module rule that is NOT imported: must not clash or be captured
    cand = [n for n in mod_rules if n not in imported]
    if cand and rng.random() < 0.4:
        main[cand[0]] = '"q"'; main['start'] += ' | ' + cand[0]
    override = extend = None
    if rng.random() < 0.3:
        override = (rng.choice(imported), alts(extra_names, terms), rng.choice(['', '?', '!']))     # the overriding definition brings its own modifiers
    if rng.random() < 0.25:
        extend = (rng.choice([i for i in imported if not override or i != override[0]] or imported), rng.choice(['"z"', 'A "z"', 'B']))
        if override and extend[0] == override[0]:
            extend = None
    files = {}
    # diamond: a second module b imports a rule of m (which has private dependencies) and is itself imported, next to the direct import from m
    use_diamond = (not use_nested) and rng.random() < 0.25
    # in the module file the template's formal parameter may be spelled like a rule of the importing grammar (it is local to the module's template)
    pname = rng.choice(['x', 'x', 'start'] + main_rules[1:]) if use_template else 'x'
    tprio = rng.choice(['', '', '.2', '.-1']) if use_template else ''       # a priority on the template definition (every instance inherits it)
    def modline(k, v):
        if k == 'tp{x}':
            return 'tp{%s}%s: %s\n' % (pname, tprio, re.sub(r'\bx\b', pname, v))
        return '%s%s: %s\n' % (mods.get(k, ''), k, v)
    modtext = ('%import .n.n0\n' if use_nested else '') + ''.join(modline(k, v) for k, v in mod.items()) + 'MA: "a"\n' + ('MB: MA "b"\n' if term_chain else '')
    files['m.lark'] = modtext
    if use_nested:
        files['n.lark'] = ''.join('%s: %s\n' % kv for kv in nested.items()) + 'NA: "n"\n'
    imports = ''.join('%%import .m.%s%s\n' % (n, (' -> ' + rename[n]) if rename[n] != n else '') for n in imported)
    if use_diamond:
        dname = imported[0]
        files['b.lark'] = '%%import .m.%s\nb0: %s "w" | "w"\n' % (dname, dname)
        imports += '%import .b.b0\n'
        main['start'] += ' | b0'
    if import_template:
        imports += '%import .m.tp\n'
    tail = ''
    if term_chain:
        imports += '%import .m.MA\n%import .m.MB\n'
        main['start'] += ' | MB | MA'
        if rng.random() < 0.7:
            tail += '%extend MA: "z"\n'
    if override:
        tail += '%%override %s%s: %s\n' % (override[2], rename[override[0]], override[1])
    if extend:
        tail += '%%extend %s: %s\n' % (rename[extend[0]], extend[1])
    maintext = imports + ''.join('%s: %s\n' % kv for kv in main.items()) + tail + 'A: "a"\nB: "b"\n%ignore " "\n'
    # ---- the hand-inlined grammar: imported rules keep their (renamed) name, everything else of the module gets a prefix that cannot clash
    def mangle(n):
        if n in rename: return rename[n]
        if n == 'tp': return 'tp' if import_template else 'modq__tp'
        if n == 'MA': return 'MA' if term_chain else 'MOD__MA'
        if n == 'MB': return 'MB'
        if n == 'NA': return 'MOD__NA'
        if n == 'n0': return 'modq__n0'
        if n in mod or n + '{x}' in mod: return ('_modq__' + n[1:]) if n.startswith('_') else 'modq__' + n
        return n
    def sub(body): return re.sub(r'\b(_?[a-zA-Z][_a-zA-Z0-9]*)\b', lambda m: m.group(1) if m.group(1) == 'x' else mangle(m.group(1)), body)
    bodies, imods = {}, {}
    for n, b in mod.items():
        if n == 'tp{x}':
            bodies[('tp' if import_template else 'modq__tp') + '{x}' + tprio] = sub(b)
        else:
            bodies[mangle(n)] = sub(b); imods[mangle(n)] = mods.get(n, '')
    for n, b in nested.items():
        bodies[mangle(n)] = sub(b)
    if override:
        bodies[rename[override[0]]] = override[1]; imods[rename[override[0]]] = override[2]
    if extend:
        bodies[rename[extend[0]]] += ' | ' + extend[1]
    if term_chain:
        inl_terms = 'MA: "a"%s\nMB: MA "b"\n' % (' | "z"' if '%extend MA' in tail else '')
    else:
        inl_terms = 'MOD__MA: "a"\n'
    inl = ''.join('%s%s: %s\n' % (imods.get(k, ''), k, v) for k, v in bodies.items()) + inl_terms + ('MOD__NA: "n"\n' if use_nested else '')
    if use_diamond:
        # b's own copy of everything m defines, under names that cannot clash (the comparison strips module prefixes)
        space = {n.split('{')[0] for n in mod} | {'MA', 'MB'}
        def pref(n):
            if n not in space: return n
            if n.isupper(): return 'BQ__' + n
            return ('_bq__' + n[1:]) if n.startswith('_') else 'bq__' + n
        sub2 = lambda body: re.sub(r'\b(_?[a-zA-Z][_a-zA-Z0-9]*)\b', lambda m_: m_.group(1) if m_.group(1) == 'x' else pref(m_.group(1)), body)
        for n, b in mod.items():
            if n == 'tp{x}':
                inl += 'bq__tp{x}%s: %s\n' % (tprio, sub2(b))
            else:
                inl += '%s%s: %s\n' % (mods.get(n, ''), pref(n), sub2(b))
        inl += 'BQ__MA: "a"\n' + ('BQ__MB: BQ__MA "b"\n' if term_chain else '')
        inl += 'b0: %s "w" | "w"\n' % pref(dname)
    # definitions of the module that nothing reaches are dropped by lark (_remove_unused); in the inlined text they are harmless
    inltext = inl + ''.join('%s: %s\n' % kv for kv in main.items()) + 'A: "a"\nB: "b"\n%ignore " "\n'
    return {'files': files, 'main': maintext, 'inlined': inltext, 'features': {'template': use_template, 'template_param_named_like_a_local_rule': bool(use_template and pname != 'x'), 'local_template_same_name': local_template, 'terminal_chain': term_chain, 'nested': use_nested, 'diamond': use_diamond, 'override': bool(override), 'override_changes_modifiers': bool(override and override[2] != mods.get(override[0], '')), 'extend': bool(extend), 'renames': sum(1 for k, v in rename.items() if k != v)}}


def norm_label(s):
    """the documented module__name prefix (and our own inlining prefix) is not part of the comparison"""
    s = str(s)
    und = s.startswith('_')
    s = re.sub(r'^_?([A-Za-z0-9]+__)+', '', s)
    return ('_' if und and not s.startswith('_') else '') + s


def canon(t):
    from lark import Tree, Token
    if isinstance(t, Tree):
        if t.data == '_ambig':
            return ['_ambig', sorted((canon(c) for c in t.children), key=json.dumps)]
        return [norm_label(t.data)] + [canon(c) for c in t.children]
    if isinstance(t, Token):
        return ['t', norm_label(t.type), str(t)]
    return t


def _case(seed):
    from lark import Lark
    from lark.exceptions import GrammarError, UnexpectedInput, LarkError
    rng = random.Random(seed)
    c = gen(rng)
    kat = rng.random() < 0.3
    c['features']['keep_all_tokens'] = kat
    d = tempfile.mkdtemp(prefix='larkverif_c17_')
    try:
        for fn, txt in c['files'].items():
            open(os.path.join(d, fn), 'w').write(txt)
        res = {}
        for name, txt in (('import', c['main']), ('inline', c['inlined'])):
            for parser in ('earley', 'lalr'):
                kw = dict(parser='earley', ambiguity='explicit') if parser == 'earley' else dict(parser='lalr')
                try:
                    with guarded(8):
                        res[(name, parser)] = Lark(txt, source_path=os.path.join(d, 'main.lark'), maybe_placeholders=False, keep_all_tokens=kat, **kw)
                except (GrammarError, LarkError) as e:
                    res[(name, parser)] = ('ERR', type(e).__name__, str(e)[:120])
                except Timeout:
                    res[(name, parser)] = ('TO',)
        out = {'case': c, 'builds': {}, 'diffs': [], 'compared': 0}
        for parser in ('earley', 'lalr'):
            a, b = res[('import', parser)], res[('inline', parser)]
            if parser == 'lalr' and c['features'].get('diamond') and not isinstance(a, tuple) and not isinstance(b, tuple):
                # the two copies of the module's terminals have one pattern; which of them the contextual lexer prefers depends on their *names*
                # (b__m__MA cannot be written in a grammar file), so only construction is compared for LALR here; Earley compares language and trees
                out['builds'][parser] = ['ok', 'ok']
                continue
            out['builds'][parser] = ['err' if isinstance(a, tuple) else 'ok', 'err' if isinstance(b, tuple) else 'ok']
            if isinstance(a, tuple) or isinstance(b, tuple):
                if isinstance(a, tuple) != isinstance(b, tuple) and 'TO' not in (a[0] if isinstance(a, tuple) else '', b[0] if isinstance(b, tuple) else ''):
                    out['diffs'].append({'kind': 'build', 'parser': parser, 'importing': a if isinstance(a, tuple) else 'builds', 'inlined': b if isinstance(b, tuple) else 'builds'})
                continue
            for _ in range(6):
                text = ' '.join(rng.choice(['a', 'b', 'x', 'y', 'q', 'z', 'n', 'w', ',', '<', '>', 'ab', 'zb', ';', '(', ')']) for _ in range(rng.randint(0, 5)))
                outs = []
                for p in (a, b):
                    try:
                        with guarded(5):
                            outs.append(canon(p.parse(text)))
                    except UnexpectedInput as e:
                        outs.append('reject')      # the property is about language and trees; which terminals are unused (hence the error class) may differ
                    except Timeout:
                        outs.append('TO')
                out['compared'] += 1
                if 'TO' not in outs and outs[0] != outs[1]:
                    out['diffs'].append({'kind': 'parse', 'parser': parser, 'text': text, 'importing': outs[0], 'inlined': outs[1]})
        return out
    finally:
        shutil.rmtree(d, ignore_errors=True)


def _template_priority_case(seed):
    """a template defined with a priority: every instance must behave like the same rule written out by hand with that priority (the priority decides an
    Earley ambiguity under resolve, and a reduce/reduce conflict under LALR)"""
    from lark import Lark
    from lark.exceptions import GrammarError, LarkError, UnexpectedInput
    rng = random.Random(seed)
    p_ = rng.choice([2, 3, -1, 5]); q_ = rng.choice([None, 1, 4])
    imported = rng.random() < 0.5
    body = rng.choice(['x', 'x x?', '"<" x ">" | x'])
    comp = rng.choice(['A', 'A A?', '"<" A ">" | A'])
    tdef = 'item{x}.%d: %s\n' % (p_, body)
    rest = 'start: item{A} | plain\nplain%s: %s\nA: "a"\n%%ignore " "\n' % ('' if q_ is None else '.%d' % q_, comp)
    d = tempfile.mkdtemp(prefix='larkverif_c17_')
    try:
        if imported:
            open(os.path.join(d, 'tm.lark'), 'w').write(tdef)
            g1 = '%import .tm.item\n' + rest
        else:
            g1 = tdef + rest
        g2 = 'item_a.%d: %s\n' % (p_, body.replace('x', 'A')) + rest.replace('item{A}', 'item_a')
        out = {'with_template': g1, 'module': tdef if imported else None, 'written_out': g2, 'diffs': []}
        for kw in (dict(parser='earley', ambiguity='resolve'), dict(parser='lalr')):
            ps = []
            for g in (g1, g2):
                try:
                    ps.append(Lark(g, source_path=os.path.join(d, 'main.lark'), **kw))
                except (GrammarError, LarkError) as e:
                    ps.append('ERR ' + type(e).__name__ + ': ' + str(e)[:60])
            if isinstance(ps[0], str) or isinstance(ps[1], str):
                if isinstance(ps[0], str) != isinstance(ps[1], str):
                    out['diffs'].append({'parser': kw['parser'], 'construction': [x if isinstance(x, str) else 'builds' for x in ps]})
                continue
            for text in ('a', 'a a', '< a >', ''):
                r = []
                for p in ps:
                    try:
                        t = p.parse(text); r.append(str(t.children[0].data).replace('item_a', 'item'))
                    except UnexpectedInput:
                        r.append('reject')
                if r[0] != r[1]:
                    out['diffs'].append({'parser': kw['parser'], 'text': text, 'with_template_chooses': r[0], 'written_out_chooses': r[1]})
        return out
    finally:
        shutil.rmtree(d, ignore_errors=True)


def _template_alias_case(seed):
    """a template whose alternatives carry aliases — spelled like the template's own parameter, like a rule, like nothing else — and that uses another
    template with its parameter: every instance must give the trees of the same rules written out by hand (only *symbols* are substituted, never alias names)"""
    from lark import Lark, Tree
    from lark.exceptions import GrammarError, LarkError, UnexpectedInput
    rng = random.Random(seed)
    P = rng.choice(['x', 'item', 'p', 'pair', 'y'])      # (a parameter spelled like a rule of the grammar is refused by lark, as documented)
    arg = rng.choice(['A', 'val', 'B'])
    body = rng.choice(['"(" %P ")" -> %P', '%P "," %P -> pair | %P -> %P', '"<" %P ">" -> %P | %P "," %P', 'inner{%P} %P -> %P', '%P -> val | "(" %P ")"', 'inner{%P} -> y | %P "," -> %P']).replace('%P', P)
    tdef = 'wrapped{%s}: %s\ninner{y}: y "!" -> y\n' % (P, body)
    rest = 'start: wrapped{%s}+\nval: A | B\nA: "a"\nB: "b"\n%%ignore " "\n' % arg
    def written_out(b):
        out, alias_next = [], False
        for tok in b.split(' '):
            if alias_next:
                out.append(tok); alias_next = False
            elif tok == '->':
                out.append(tok); alias_next = True
            elif tok == P:
                out.append(arg)
            elif tok == 'inner{%s}' % P:
                out.append('inner_w')
            else:
                out.append(tok)
        return ' '.join(out)
    g1 = tdef + rest
    g2 = 'wrapped_w: %s\ninner_w: %s "!" -> y\n' % (written_out(body), arg) + rest.replace('wrapped{%s}' % arg, 'wrapped_w')
    out = {'with_template': g1, 'written_out': g2, 'diffs': []}
    def canon(t):
        if isinstance(t, Tree):
            return [str(t.data).replace('wrapped_w', 'wrapped').replace('inner_w', 'inner'), [canon(c) for c in t.children]]
        return None if t is None else [t.type, str(t)]
    texts = ['a', '( a )', 'a , a', '< b >', 'a ! a', 'b !', 'a ,', '( b ) a , b'] + [' '.join(rng.choice(['a', 'b', '(', ')', ',', '<', '>', '!']) for _ in range(rng.randint(1, 5))) for _ in range(4)]
    for kw in (dict(parser='earley', ambiguity='explicit'), dict(parser='lalr')):
        ps = []
        for g in (g1, g2):
            try:
                ps.append(Lark(g, **kw))
            except (GrammarError, LarkError) as e:
                ps.append('ERR ' + type(e).__name__)
        if isinstance(ps[0], str) or isinstance(ps[1], str):
            if ps[0] != ps[1] and (isinstance(ps[0], str) != isinstance(ps[1], str)):
                out['diffs'].append({'parser': kw['parser'], 'construction': [x if isinstance(x, str) else 'builds' for x in ps]})
            continue
        for text in texts:
            r = []
            for p in ps:
                try:
                    r.append(json.dumps(canon(p.parse(text))))
                except UnexpectedInput:
                    r.append('reject')
            if r[0] != r[1]:
                out['diffs'].append({'parser': kw['parser'], 'text': text, 'with_template': r[0], 'written_out': r[1]}); break
    return out


def _prune_case(seed):
    """lark's compiled rules with every rule declared a start symbol (nothing is pruned) against the rules compiled for `start` alone: which rules were kept"""
    from lark import Lark
    from lark.exceptions import LarkError
    import compilelib, earleylib
    rng = random.Random(seed)
    ast_ = compilelib.gen(rng)
    g = compilelib.as_written(ast_)
    names = list(ast_['rules'])
    try:
        with guarded(8):
            full = Lark(g, parser='earley', lexer='dynamic', start=names)
            roots = ['start'] + ([rng.choice(names)] if rng.random() < 0.3 else [])
            pruned = Lark(g, parser='earley', lexer='dynamic', start=roots)
    except (LarkError, Timeout):
        return None
    nts, ts = {}, {}
    def nt(n): return nts.setdefault(n, len(nts))
    def tm(n): return ts.setdefault(n, len(ts))
    key = lambda r: (r.origin.name, tuple((s.is_term, s.name) for s in r.expansion))
    kept = {key(r) for r in pruned.rules}
    rules = [{'lhs': nt(r.origin.name), 'rhs': [[1, tm(s.name)] if s.is_term else [0, nt(s.name)] for s in r.expansion]} for r in full.rules]
    return {'grammar': g, 'roots': roots, 'case': {'op': 'prune_check', 'rules': rules, 'keep': [key(r) in kept for r in full.rules], 'roots': [nt(x) for x in roots]},
            'n_full': len(full.rules), 'n_kept': len(pruned.rules), 'foreign': sorted(str(k) for k in kept - {key(r) for r in full.rules})}


def _mangle_case(args):
    prefix, aliases, names = args
    from lark.load_grammar import _get_mangle
    m = _get_mangle(prefix, dict(aliases))
    return [m(n) for n in names]


def run(ctx, res):
    rng = random.Random(ctx['seed'] * 1000003 + 17)
    # ---- unit level: _get_mangle vs the Lean mangle
    mj = []
    for _ in range(tier_scale(ctx['tier'], 300, 3000)):
        names = [rng.choice(['', '_']) + ''.join(rng.choice('abXY_09') for _ in range(rng.randint(1, 5))) for _ in range(rng.randint(1, 6))]
        names = [n for n in names if n.strip('_') or len(n) > 1] or ['a']
        aliases = [[n, n + 'x'] for n in names if rng.random() < 0.3]
        prefix = rng.choice(['m', 'mod', 'a_b', 'x__y', 'M9'])
        mj.append((prefix, aliases, names))
    real = pmap(_mangle_case, mj, chunksize=64)
    model = run_driver([{'op': 'mangle', 'prefix': p, 'aliases': a, 'names': n} for p, a, n in mj])
    for job, (st, r), m in zip(mj, real, model):
        res.case(['mangle', job], nontrivial=any(n.startswith('_') for n in job[2]))
        res.count('mangle_units')
        if st != 'ok':
            raise InfraError(r)
        if r != m:
            res.corr_break('_get_mangle differs from the Lean mangle', {'prefix': job[0], 'aliases': job[1], 'names': job[2], 'code': r, 'model': m})
    # ---- removal of unused rules: the kept rule set is closed from the start symbols (hypothesis of Props.C17.prune_unused_preserves_language), checked by the
    # Lean closedB on lark's own compiled rules (all rules as start symbols = nothing pruned, against the rules compiled for the requested start symbols)
    if ctx['driver_ok']:
        pseeds = [rng.randrange(1 << 30) for _ in range(tier_scale(ctx['tier'], 400, 4000))]
        precs = [(sd, r) for sd, (st, r) in zip(pseeds, pmap(_prune_case, pseeds, chunksize=8)) if st == 'ok' and r is not None]
        for (sd, r), m in zip(precs, run_driver([r['case'] for _sd, r in precs])):
            if 'error' in m:
                raise InfraError('driver prune_check: %s' % m['error'])
            res.case(['prune', r['grammar'], r['roots']], nontrivial=r['n_kept'] < r['n_full'])
            res.count('prune_cases'); res.count('prune_cases_with_removed_rules', 1 if r['n_kept'] < r['n_full'] else 0)
            if r['foreign']:
                res.corr_break('rules compiled for the start symbols are not among the rules compiled with every rule as a start symbol', {'grammar': r['grammar'], 'roots': r['roots'], 'rules': r['foreign'][:5]})
            elif not m['closed'] or m['kept'] != r['n_kept']:
                res.corr_break('the rule set lark keeps is not closed from the start symbols (PruneProto.closedB, hypothesis of prune_unused_preserves_language)', {'grammar': r['grammar'], 'roots': r['roots'], 'kept': r['n_kept'], 'of': r['n_full']})
    # ---- templates with aliases (spelled like the parameter, like a rule) and nested template use vs the instance written out by hand
    aseeds = [rng.randrange(1 << 30) for _ in range(tier_scale(ctx['tier'], 300, 3000))]
    for seed, (st, rec) in zip(aseeds, pmap(_template_alias_case, aseeds, chunksize=8)):
        if st != 'ok':
            if st == 'exc' and not exc_in_lark(rec):
                raise InfraError(rec)
            res.violation('loading or parsing a grammar with an aliased template raised an unexpected exception', {'seed': seed, 'detail': rec}); continue
        res.case(['template_alias', rec['with_template']], nontrivial=True)
        res.count('aliased_template_cases')
        for dff in rec['diffs']:
            res.violation('a template instance does not behave like the same rules written out by hand (symbols substituted, alias names kept)', dict(dff, with_template_grammar=rec['with_template'], written_out_grammar=rec['written_out']))
    # ---- templates with a priority vs the instance written out by hand
    tseeds = [rng.randrange(1 << 30) for _ in range(tier_scale(ctx['tier'], 120, 1500))]
    for seed, (st, rec) in zip(tseeds, pmap(_template_priority_case, tseeds, chunksize=8)):
        if st != 'ok':
            if st == 'exc' and not exc_in_lark(rec):
                raise InfraError(rec)
            res.violation('loading a grammar with a prioritised template raised an unexpected exception', {'seed': seed, 'detail': rec}); continue
        res.case(['tprio', rec['with_template'], rec['module']], nontrivial=True)
        res.count('template_priority_cases')
        for dff in rec['diffs']:
            res.violation('a template defined with a priority does not behave like its instance written out by hand with that priority', dict(rec, detail=dff))
    # ---- import vs hand-inlined text
    N = tier_scale(ctx['tier'], 2500, 30000) * (3 if ctx['deepen'] else 1)
    seeds = [rng.randrange(1 << 30) for _ in range(N)]
    for seed, (st, rec) in zip(seeds, pmap(_case, seeds, chunksize=4)):
        if st != 'ok':
            if st == 'exc':
                if not exc_in_lark(rec):
                    raise InfraError(rec)
                res.violation('loading a grammar with imports raised an unexpected exception', {'seed': seed, 'detail': rec})
            else:
                res.inconclusive[st] = res.inconclusive.get(st, 0) + 1
            continue
        c = rec['case']
        res.case(['c17', c['files'], c['main']], nontrivial=True, sample={'module_files': c['files'], 'main': c['main'], 'inlined': c['inlined']} if len(res.samples) < 2 and c['features']['renames'] else None)
        res.count('splits'); res.count('comparisons', rec['compared'])
        for k, v in c['features'].items():
            if v: res.count('with_' + k, int(v) if not isinstance(v, bool) else 1)
        for parser, b in rec['builds'].items():
            res.count('build_%s_%s' % (parser, '_'.join(b)))
        for dff in rec['diffs']:
            res.violation('the importing grammar and the hand-inlined grammar %s' % ('do not both build' if dff['kind'] == 'build' else 'disagree on an input (language or tree, modulo the module__ prefix)'),
                          {'module_files': c['files'], 'main': c['main'], 'inlined': c['inlined'], 'detail': dff})
