"""C09 — repetition and optional operators match exactly the stated counts."""
import random, re, json
from common import run_driver, pmap, guarded, Timeout, tier_scale

# ---------------------------------------------------------------- real helper rules → tree

def real_tree(mn, mx):
    """Run the real EBNF_to_BNF._generate_repeats on an atom and unfold the helper rules into the model's tree shape."""
    from lark.load_grammar import EBNF_to_BNF
    from lark.grammar import NonTerminal
    from lark.tree import Tree
    e = EBNF_to_BNF()
    atom = NonTerminal('x')
    ret = e._generate_repeats(atom, mn, mx)
    rules = {name: tree for name, tree, _o in e.new_rules}
    for name in rules:
        if not name.startswith('_'):
            raise AssertionError('helper rule %r would be visible in the tree' % name)

    def conv(x):
        if isinstance(x, NonTerminal):
            if x.name == 'x':
                return 'x'
            return conv_rule(x.name)
        assert isinstance(x, Tree), x
        if x.data == 'expansion':
            if not x.children:
                return []
            raise AssertionError('unexpected expansion %s' % x)
        assert x.data == 'expansions'
        alts = x.children
        if len(alts) == 1 and len(alts[0].children) == 2 and alts[0].children[0] != alts[0].children[1] :
            a, b = alts[0].children
            if not (isinstance(b, NonTerminal) and b.name == 'x' and isinstance(a, NonTerminal) and a.name == 'x'):
                return {'cat': [conv(a), conv(b)]}
        # naive
        ns = []
        for alt in alts:
            assert alt.data == 'expansion' and all(isinstance(c, NonTerminal) and c.name == 'x' for c in alt.children), alt
            ns.append(len(alt.children))
        return {'naive_counts': ns}

    def conv_rule(name):
        tree = rules[name]
        m = re.match(r'__anon_repeat_a(\d+)_b(\d+)(_opt)?_\d+$', name)
        assert m, name
        a, b, opt = int(m.group(1)), int(m.group(2)), m.group(3)
        alts = [alt.children for alt in tree.children]
        if not opt:
            assert len(alts) == 1
            ch = alts[0]
            assert len(ch) == a + b, (name, ch)
            target = ch[0] if a > 0 else atom
            assert ch == [target] * a + [atom] * b, (name, ch)
            return {'rep': [a, b], 't': conv(target)}
        assert len(alts) == a + b and a >= 1, (name, len(alts))
        o = alts[0][0]
        target = alts[1][0] if a >= 2 else (alts[a][0] if b >= 1 else atom)
        exp = [[target] * i + [o] for i in range(a)] + [[target] * a + [atom] * i for i in range(b)]
        assert alts == exp, name
        return {'opt': [a, b], 't': conv(target), 'o': conv(o)}

    t = conv(ret)
    if isinstance(t, dict) and 'naive_counts' in t:
        ns = t['naive_counts']
        assert ns == list(range(mn, mx + 1)), ns
        t = {'naive': [mn, mx]}
    return t


def _sf_case(args):
    n, mf = args
    from lark.utils import small_factors
    with guarded(5):
        return [list(x) for x in small_factors(n, mf)]


def _tree_case(args):
    mn, mx = args
    with guarded(20):
        try:
            return real_tree(mn, mx)
        except AssertionError as e:
            return {'assert': str(e)[:300]}

# ---------------------------------------------------------------- end to end

ATOMS = {
    'term':     ('start: A~%s\nA: "a"\n', 'a', 1, lambda c: c == 'a'),
    'anon':     ('!start: "a"~%s\n', 'a', 1, lambda c: c == 'a'),
    'rule':     ('start: x~%s\nx: "a"\n', 'a', 1, lambda c: getattr(c, 'data', None) == 'x'),
    'group':    ('start: (A B)~%s\nA: "a"\nB: "b"\n', 'ab', 2, None),
    'template': ('start: rep{A}\nrep{t}: t~%s\nA: "a"\n', 'a', 1, lambda c: c == 'a'),
    'interm':   ('start: A~%s\nA: "a"~%s\n', None, None, None),   # placeholder, handled separately
}

# repeated *sequences* inside a terminal: alternation groups, literal parentheses and brackets (the regexp is assembled textually); (item, units it matches)
TERM_ITEMS = [('(("(" | "[") "x" (")" | "]"))', ['(x)', '[x]', '(x]']), ('(("(" | "a") ("b" | "c"))', ['(b', 'ac', 'ab']), ('("a" | "b" "c")', ['a', 'bc', 'a']),
              ('(/[(]/ "x" /[)]/)', ['(x)']), ('(("a" | "b") "-" ("c"))', ['a-c', 'b-c']), ('("a" ("b" | ")")?)', ['ab', 'a)', 'a']), ('(("x")+ ";")', ['x;', 'xx;'])]


def _e2e_case(args):
    """returns list of (descr, expected_accept, got_accept, children_ok)"""
    kind, parser, op, mn, mx, ks = args
    from lark import Lark, Tree, Token
    from lark.exceptions import UnexpectedInput, GrammarError
    out = []
    units = None
    if kind == 'termside':
        g = 'start: A\nA: "b" "a"%s\n' % op      # the leading "b" keeps the terminal from matching the empty string
        unit, per = 'a', None
    elif kind == 'adjacent':
        g = 'start: %s\nA: "a"\n' % op        # several operators on the same item side by side: their expansions coincide in many ways
        unit, per = 'a', 1
    elif kind.startswith('termseq'):
        item, units = TERM_ITEMS[int(kind[7:])]
        g = 'start: A\nA: "b" %s%s\n' % (item, op)
        unit, per = None, None
    else:
        g, unit, per, _ = ATOMS[kind]
        g = g % op[1:] if op.startswith('~') else g.replace('~%s', op)
    with guarded(60):
        try:
            p = Lark(g, parser=parser)
        except GrammarError as e:
            return [(g, None, 'GrammarError: %s' % str(e)[:100], True)]
    for k in ks:
        if units is not None:
            text = 'b' + ''.join(units[(j + k) % len(units)] for j in range(k))
        else:
            text = unit * k if kind != 'termside' else 'b' + unit * k
        exp = mn <= k and (mx is None or k <= mx)
        with guarded(60):
            try:
                t = p.parse(text)
                got = True
            except UnexpectedInput:
                got, t = False, None
        ok = True
        if got and kind != 'termside' and units is None:
            ch = t.children if kind != 'template' else t.children[0].children
            ok = len(ch) == k * per and all(isinstance(c, (Tree, Token)) and not str(getattr(c, 'data', '')).startswith('_') for c in ch)
            if kind == 'adjacent':
                ok = ok and all(c == 'a' for c in ch)
            elif kind == 'group':
                ok = ok and [str(c) for c in ch] == ['a', 'b'] * k
            elif kind == 'rule':
                ok = ok and all(getattr(c, 'data', None) == 'x' for c in ch)
            else:
                ok = ok and all(c == 'a' for c in ch)
        elif got:
            ok = t.children == [text]
        out.append((json.dumps([g, text, parser]), exp, got, ok))
    return out


def replay_fixed(ctx, res):
    from lark import Lark
    for f in ctx['known']:
        if f['id'] == 'F27' and f['status'] == 'fixed':
            w = f['witness']
            for parser in ('lalr', 'earley'):
                t = Lark(w['grammar'], parser=parser).parse(w['text'])
                if [str(c) for c in t.children[1].children] != ['x', 'x']:
                    res.violation('regression of fixed finding F27: ' + f['what'], dict(w, parser=parser, tree=str(t)))
            # the same sharing through the other operators
            for op, n in (('*', 3), ('~2', 2), ('~1..3', 2), ('~60', 60), ('~50..60', 55), ('?', 1)):
                g = 'start: a b\na: "x"%s "|"\nb: X%s\nX: "x"\n' % (op, op)
                for parser in ('lalr', 'earley'):
                    t = Lark(g, parser=parser).parse('x' * n + '|' + 'x' * n)
                    res.case(['f27', op, parser], nontrivial=True)
                    if len(t.children[1].children) != n or len(t.children[0].children) != 0:
                        res.violation('x%s over an anonymous and a named use of the same terminal: the named occurrences are not that many children' % op, {'grammar': g, 'parser': parser, 'text': 'x' * n + '|' + 'x' * n, 'tree': str(t)[:300]})


def run(ctx, res):
    replay_fixed(ctx, res)
    rng = random.Random(ctx['seed'] * 1000003 + 9)
    tier = ctx['tier']
    deep = ctx['deepen']
    ext = ctx['build'].get('extracted') or {}
    brk, fac = ext.get('repeatBreakThreshold', 50), ext.get('smallFactorThreshold', 5)

    # (a) small_factors
    N = tier_scale(tier, 3000, 40000) * (3 if deep else 1)
    sf_args = [(n, mf) for mf in range(3, 10) for n in range(0, N // 7)] + [(rng.randrange(10**4, 10**9), rng.randrange(3, 12)) for _ in range(300)]
    real = pmap(_sf_case, sf_args, chunksize=256)
    if ctx['driver_ok']:
        model = run_driver([{'op': 'small_factors', 'n': n, 'mf': mf} for n, mf in sf_args])
    else:
        model = [None] * len(sf_args)
    for (n, mf), (st, r), m in zip(sf_args, real, model):
        res.case(['sf', n, mf], nontrivial=n > mf, sample={'op': 'small_factors', 'n': n, 'max_factor': mf, 'real': r} if n == 1234 else None)
        res.count('small_factors')
        if st != 'ok':
            res.violation('small_factors(%d, %d) did not return: %s' % (n, mf, st), {'call': 'lark.utils.small_factors', 'args': [n, mf], 'status': st, 'detail': r})
            continue
        v = 1
        for a, b in r:
            v = v * a + b
        if v != n:
            res.violation('small_factors(%d, %d) = %s re-multiplies to %d' % (n, mf, r, v), {'call': 'lark.utils.small_factors', 'args': [n, mf], 'got': r})
        elif m is not None and m != r:
            res.corr_break('small_factors(%d, %d): code %s, model %s' % (n, mf, r, m), {'call': 'lark.utils.small_factors', 'args': [n, mf], 'code': r, 'model': m})

    # (b) helper-rule tree
    M = tier_scale(tier, 90, 180)
    pairs = [(mn, mx) for mx in range(0, M) for mn in range(0, mx + 1)]
    pairs += [(mn, mn + d) for mn, d in ((rng.randrange(0, 600), rng.choice([0, 1, 2, rng.randrange(0, 500)])) for _ in range(tier_scale(tier, 300, 3000)))]
    real = pmap(_tree_case, pairs, chunksize=64)
    model = run_driver([{'op': 'repeat_tree', 'mn': mn, 'mx': mx, 'break': brk, 'fac': fac} for mn, mx in pairs]) if ctx['driver_ok'] else [None] * len(pairs)
    for (mn, mx), (st, r), m in zip(pairs, real, model):
        res.case(['tree', mn, mx], nontrivial=mx >= brk, sample={'op': 'repeat_tree', 'mn': mn, 'mx': mx, 'tree': r} if (mn, mx) == (3, 60) else None)
        res.count('helper_trees')
        if st != 'ok' or (isinstance(r, dict) and 'assert' in r):
            res.corr_break('_generate_repeats(%d, %d): helper rules not of the modelled shape: %s' % (mn, mx, r), {'mn': mn, 'mx': mx, 'detail': r, 'status': st})
        elif m is not None and m != r:
            res.corr_break('_generate_repeats(%d, %d): helper-rule tree differs from model' % (mn, mx), {'mn': mn, 'mx': mx, 'code': r, 'model': m})

    # (c) end to end, decided by the theorem's verdict (mn <= k <= mx)
    jobs = []
    def ks_for(mn, mx):
        s = {mn - 1, mn, mn + 1, (mn + mx) // 2, mx - 1, mx, mx + 1, 0, 1}
        return sorted(k for k in s if k >= 0)
    e2e_pairs = [(0, 0), (0, 1), (1, 1), (2, 5), (0, 49), (49, 49), (49, 50), (50, 50), (0, 50), (3, 57), (57, 57), (51, 52), (7, 130), (100, 101), (0, 127), (128, 128)]
    e2e_pairs += [(mn, mn + d) for mn, d in ((rng.randrange(0, 140), rng.choice([0, 1, rng.randrange(0, 120)])) for _ in range(tier_scale(tier, 40, 400) * (3 if deep else 1)))]
    if tier == 'thorough':
        e2e_pairs += [(mn, mx) for mx in range(45, 75) for mn in range(0, mx + 1, 3)]
    kinds = ['term', 'anon', 'rule', 'group', 'template', 'termside'] + ['termseq%d' % i for i in range(len(TERM_ITEMS))]
    for i, (mn, mx) in enumerate(e2e_pairs):
        for kind in (kinds if i < 16 or tier == 'thorough' else [kinds[i % len(kinds)], kinds[(i // 2 + 3) % len(kinds)]]):
            for parser in ('earley', 'lalr'):
                op = '~%d' % mn if mn == mx and (i % 2 == 0) else '~%d..%d' % (mn, mx)
                jobs.append((kind, parser, op, mn, mx, ks_for(mn, mx)))
    for kind in kinds:
        for parser in ('earley', 'lalr'):
            jobs.append((kind, parser, '?', 0, 1, [0, 1, 2, 3]))
            jobs.append((kind, parser, '*', 0, None, [0, 1, 2, 3, 17, 140]))
            jobs.append((kind, parser, '+', 1, None, [0, 1, 2, 3, 17, 140]))
    # adjacent operators on one item: A? A~0..2, A~1..3 A~1..3, A? A? A?, (A?)~60 ... must match every count between the sums of the bounds
    def adj_item():
        r = rng.random()
        if r < 0.35: return ('A?', 0, 1)       # not [A]: with placeholders the coinciding expansions differ in their None slots, which is the documented GrammarError
        if r < 0.5: return ('A', 1, 1)
        a = rng.randint(0, 3); b = a + rng.randint(0, 3)
        return ('A~%d..%d' % (a, b), a, b) if a != b or rng.random() < 0.5 else ('A~%d' % a, a, a)
    adj = [[('A?', 0, 1), ('A~0..2', 0, 2)], [('A~0..2', 0, 2)] * 2, [('A~1..3', 1, 3)] * 2, [('A?', 0, 1)] * 3, [('(A?)~60', 0, 60)], [('(A?)~3', 0, 3), ('A?', 0, 1)], [('(A? A?)~2', 0, 4)]]
    adj += [[adj_item() for _ in range(rng.randint(2, 4))] for _ in range(tier_scale(tier, 40, 600))]
    for items in adj:
        lo, hi = sum(i[1] for i in items), sum(i[2] for i in items)
        body = ' '.join(i[0] for i in items)
        for parser in ('earley', 'lalr'):
            jobs.append(('adjacent', parser, body, lo, hi, sorted({max(lo - 1, 0), lo, (lo + hi) // 2, hi, hi + 1})))
    outs = pmap(_e2e_case, jobs, chunksize=2)
    for job, (st, r) in zip(jobs, outs):
        kind, parser, op, mn, mx, ks = job
        if st != 'ok':
            res.inconclusive[st] = res.inconclusive.get(st, 0) + 1
            if st == 'exc':
                res.violation('parse of x%s (%s, %s) raised an unexpected exception' % (op, kind, parser), {'job': list(job), 'detail': r})
            continue
        for descr, exp, got, ok in r:
            res.case(['e2e', descr], sample={'grammar_text_parser': json.loads(descr), 'expected_accept': exp, 'accepted': got} if (mn, mx) == (3, 57) and kind == 'rule' else None)
            res.count('e2e_' + ('accept' if got is True else 'reject' if got is False else 'error'))
            if exp is None:
                if True:
                    res.violation('grammar with x%s rejected: %s' % (op, got), {'case': json.loads(descr) if descr.startswith('[') else descr, 'error': got})
                continue
            if got != exp:
                res.violation('x%s (%s, %s): %s repetitions %s, bounds say %s' % (op, kind, parser, descr, 'accepted' if got else 'rejected', 'accept' if exp else 'reject'),
                              {'grammar_text_parser': json.loads(descr), 'expected_accept': exp, 'accepted': got})
            elif not ok:
                res.violation('x%s (%s, %s): children are not the matched occurrences in order' % (op, kind, parser), {'grammar_text_parser': json.loads(descr)})

    # ---- EBNF level, repetition-heavy (bounds around REPEAT_BREAK_THRESHOLD, repeated groups with alternatives): lark's compilation vs explicit expansion
    import ebnflib
    ebnflib.check(ctx, res, 99, 250, 5000, big=True, label='repetition-heavy EBNF')
