"""C04 — ambiguity='explicit' enumerates exactly all derivations."""
import json
from common import exc_in_lark, InfraError
import forestlib
from props.c20 import problems


def run(ctx, res):
    for f in ctx['known']:
        if f['id'] == 'F12' and f['status'] == 'fixed':
            from lark import Lark
            from lark.visitors import CollapseAmbiguities
            w = f['witness']
            t = Lark(w['grammar'], parser='earley', ambiguity='explicit').parse(w['text'])
            try:
                CollapseAmbiguities().transform(t)
            except Exception as e:
                res.violation('regression of fixed finding F12: ' + f['what'], dict(w, error=repr(e)))
        if f['id'] == 'F25' and f['status'] == 'fixed':
            from lark import Lark
            from lark.visitors import CollapseAmbiguities
            w = f['witness']
            t = Lark(w['grammar'], parser='earley', ambiguity='explicit', lexer=w['lexer'], maybe_placeholders=True).parse(w['text'])
            try:
                CollapseAmbiguities().transform(t)
            except Exception as e:
                res.violation('regression of fixed finding F25: ' + f['what'], dict(w, error=repr(e)))
        if f['id'] == 'F24' and f['status'] == 'open':
            from lark import Lark
            w = f['witness']
            t = Lark(w['grammar'], parser='earley', ambiguity='explicit').parse(w['text'])
            import ebnflib
            got = ebnflib.tree_set(t)
            if got == ['["T", "x", []]']:
                res.known_hits.append(('F24', '%s: %r on %r gives only x(), the derivation through the second alternative (tree y()) is missing' % (f['what'], w['grammar'], w['text'])))
            elif sorted(got) != ['["T", "x", []]', '["T", "y", []]']:
                res.violation('the pinned witness of F24 behaves in a new way', dict(w, got=got))
    jobs, outs = forestlib.forest_stream(ctx, 4, {'c04'}, 2500, 22000, prio=False)
    for job, rec in problems(res, jobs, outs, 'parsing with ambiguity=explicit'):
        if 'gerr' in rec:
            res.count('grammar_error'); continue
        g = rec['grammar']
        for run_ in rec['runs']:
            where = {'grammar': g, 'text': run_['text'], 'lexer': run_['lexer'], 'maybe_placeholders': rec['maybe_placeholders']}
            if run_.get('explicit_timeout'):
                if rec['acyclic'] and run_.get('nderivs') is not None:
                    res.violation('ambiguity=explicit did not return within 8 s although the input has only %d derivations' % run_['nderivs'], where)
                else:
                    # cyclic grammars can have exponentially large explicit trees: slow, not looping (looping is checked by the path-simplicity detector in C20)
                    res.inconclusive['explicit_timeout'] = res.inconclusive.get('explicit_timeout', 0) + 1
                continue
            if 'explicit_accept' not in run_:
                continue
            nd = run_.get('nderivs')
            res.case(['c04', g, run_['text'], run_['lexer'], rec['maybe_placeholders']], nontrivial=bool(nd and nd > 1) or not rec['acyclic'],
                     sample=dict(where, derivations=nd) if nd and nd > 2 and len(res.samples) < 3 else None)
            res.count('lexer_' + run_['lexer']); res.count('acyclic' if rec['acyclic'] else 'cyclic')
            if nd is None:
                res.count('no_enumeration'); continue
            if run_['explicit_accept'] != (nd > 0):
                res.violation('explicit mode %s the input although it has %d derivations' % ('accepts' if run_['explicit_accept'] else 'rejects', nd), where); continue
            if nd == 0:
                res.count('rejected'); continue
            res.count('accepted'); res.count('ambiguous' if nd > 1 else 'unambiguous')
            shaped = [s['shaped'] for s in run_['shape_inputs']]
            if any(s is None for s in shaped):
                raise InfraError('driver failed on a shape case')
            want = sorted(set(shaped))
            if 'explicit_trees' not in run_:
                res.count('too_many_trees'); continue
            got = sorted(set(run_['explicit_trees']))
            if got != want:
                missing = [x for x in want if x not in got][:2]; extra = [x for x in got if x not in want][:2]
                res.violation('expanding the _ambig nodes does not give exactly the shaped trees of all derivations', dict(where, derivations=nd, distinct_shaped_trees=len(want), explicit_trees=len(got), missing=missing, not_a_derivation=extra))
                continue
            if 'collapse_error' in run_:
                res.violation('CollapseAmbiguities raised', dict(where, error=run_['collapse_error'])); continue
            if 'collapse_trees' in run_ and sorted(set(run_['collapse_trees'])) != got:
                res.violation('CollapseAmbiguities disagrees with the plain expansion of _ambig nodes', where)
    # the grammar as *written* (EBNF) against its hand-desugared plain form: the derivations lost or invented by lark's EBNF compilation are invisible to the
    # enumeration above (it starts from the compiled rules)
    import ebnflib
    ebnflib.check(ctx, res, 44, 250, 6000, big=False, label='EBNF (explicit ambiguity: exact set of trees)', exact=True)
