"""C04 — ambiguity='explicit' enumerates exactly all derivations."""
import json
from common import exc_in_lark, InfraError
import forestlib
from props.c20 import problems



def _lattice_case(seed, mode='explicit'):
    """dynamic_complete with regexp terminals (inside the truncation-closed pool, outside finding F6): ambiguity inside terminals.  All derivations of the
    character lattice (every member prefix of every terminal at every offset, ignored text skipped between tokens) are enumerated by the lattice oracle and
    compared, as sets of trees with token types, texts and offsets, with the expanded explicit-ambiguity result."""
    import random, re, json
    from lark import Lark, Tree, Token
    from lark.exceptions import UnexpectedInput, LarkError, GrammarError
    from common import guarded, Timeout
    import earleylib, oracle_derivs, forestlib
    rng = random.Random(seed)
    g = earleylib.gen_cfg(rng, regex_terms=True, max_nts=3, aliases=False)
    if rng.random() < 0.4:
        # a terminal that may end in (or contain) the ignored blank: the same item then reaches a column both through a token that swallowed the blank and
        # through the carry-over of the %ignore match, with different derivations below it (their families meet in one forest node)
        lines = [l for l in g.split('\n') if l and not l.startswith(('WS', '%ignore'))]
        tl = [i for i, l in enumerate(lines) if l.startswith('T')]
        i = rng.choice(tl)
        lines[i] = lines[i].split(':')[0] + ': ' + rng.choice(['/a ?/', '/b ?/', '/ab |b/', '/a+ */', '/c ?/', '/a( b)?/', '/ ?b/', '/[ab]+ ?/'])
        if rng.random() < 0.3:
            lines[0] = rng.choice(['start: n9 T0 T%d' % (len(tl) - 1), 'start: T0 T%d | n9 T0' % (len(tl) - 1), 'start: (T0 | n9)+']); lines.insert(1, 'n9: T%d |' % (len(tl) - 1))
        g = '\n'.join(lines) + '\nWS0: " "\n%ignore WS0\n'
    out = {'grammar': g, 'runs': []}
    try:
        with guarded(6):
            p = Lark(g, parser='earley', lexer='dynamic_complete', ambiguity=mode)
    except (LarkError, GrammarError, Timeout):
        out['nobuild'] = True; return out
    if not oracle_derivs.acyclic(p.rules):
        out['cyclic'] = True; return out
    pats = {t.name: re.compile(t.pattern.to_regexp()) for t in p.terminals}
    ign = [pats[n_] for n_ in p.ignore_tokens]
    for _ in range(3):
        text = earleylib.sample_sentence(rng, p) if rng.random() < 0.7 else None
        if text is None or len(text) > 9:
            text = earleylib.rand_input(rng, g, 6)
        n = len(text)
        # ignorable closure: positions reachable from i through ignored matches
        step = {i: {max(js) for r in ign for js in [[j for j in range(i + 1, n + 1) if r.fullmatch(text, i, j)]] if js} for i in range(n + 1)}      # an ignored terminal is tried at its longest match only (the reading of the property recorded in DESIGN §10.1, as in earleylib.spec_lattice)
        skip = {}
        for i in range(n, -1, -1):
            acc = {i}
            for j in step[i]: acc |= skip[j]
            skip[i] = acc
        spans = {}
        def term_spans(name, i):
            key = (name, i)
            if key not in spans:
                r = pats[name]
                spans[key] = [(ii, jj) for ii in sorted(skip[i]) for jj in range(ii + 1, n + 1) if r.fullmatch(text, ii, jj)]
            return spans[key]
        run = {'text': text}
        try:
            with guarded(6):
                ds = oracle_derivs.derivations_lattice(p.rules, n, term_spans, 'start', lambda j: n in skip[j], limit=150)
        except (Timeout, RecursionError):
            ds = None
        if ds is None:
            run['skipped'] = 'too_many_or_slow'; out['runs'].append(run); continue
        def canon_d(d):
            r, ch = d
            return ['T', str(r.alias or r.origin.name), [canon_d(c) if isinstance(c[0], type(r)) else ['t', c[0], text[c[1]:c[2]], c[1], c[2]] for c in ch]]
        want = sorted({json.dumps(canon_d(d)) for d in ds})
        def canon_t(t):
            if isinstance(t, Tree):
                return ['T', str(t.data), [canon_t(c) for c in t.children]]
            return ['t', t.type, str(t), t.start_pos, t.end_pos]
        try:
            with guarded(8):
                tree = p.parse(text)
                if mode == 'forest':
                    from lark.parsers.earley_forest import TreeForestTransformer
                    run['is_ambiguous'] = bool(tree.is_ambiguous)
                    tree = TreeForestTransformer(resolve_ambiguity=False).transform(tree)
                got = sorted({json.dumps(canon_t(x)) for x in forestlib.expand_ambig(tree)[:2000]})
        except UnexpectedInput:
            got = []
        except Timeout:
            run['skipped'] = 'explicit_timeout'; out['runs'].append(run); continue
        run['nderivs'] = len(want)
        if got != want:
            # "the set of shaped trees": lark's trees are equal when their token types and texts agree — two derivations that differ only in WHERE an equal token sits
            # (possible once an ignored terminal can swallow a token's text) are one tree and one packed family; a wanted derivation is missing only if no returned tree
            # equals it up to token positions. Every returned tree must still be a lattice derivation with its own positions.
            def strip(js):
                def f_(x): return ['T', x[1], [f_(c) for c in x[2]]] if x[0] == 'T' else ['t', x[1], x[2]]
                return json.dumps(f_(json.loads(js)))
            got_np = {strip(x) for x in got}
            missing = [x for x in want if x not in got and strip(x) not in got_np]
            extra = [x for x in got if x not in want]
            if missing or extra:
                run['missing'] = missing[:2]; run['extra'] = extra[:2]
            else:
                run['derivations_equal_up_to_token_positions'] = True
        out['runs'].append(run)
    return out

def run(ctx, res):
    for f in ctx['known']:
        if f['id'] == 'F12' and f['status'] == 'fixed':
            from lark import Lark
            from lark.visitors import CollapseAmbiguities
            w = f['witness']
            t = Lark(w['grammar'], parser='earley', ambiguity='explicit').parse(w['text'])
            try:
                CollapseAmbiguities().transform(t)
            except Exception as e:
                res.violation('regression of fixed finding F12: ' + f['what'], dict(w, error=repr(e)))
        if f['id'] == 'F25' and f['status'] == 'fixed':
            from lark import Lark
            from lark.visitors import CollapseAmbiguities
            w = f['witness']
            t = Lark(w['grammar'], parser='earley', ambiguity='explicit', lexer=w['lexer'], maybe_placeholders=True).parse(w['text'])
            try:
                CollapseAmbiguities().transform(t)
            except Exception as e:
                res.violation('regression of fixed finding F25: ' + f['what'], dict(w, error=repr(e)))
        if f['id'] == 'F29' and f['status'] == 'open':
            from lark import Lark
            import ebnflib
            w = f['witness']
            got = ebnflib.tree_set(Lark(w['grammar'], parser='earley', ambiguity='explicit').parse(w['text']))
            if got == ['["T", "start", []]']:
                res.known_hits.append(('F29', '%s: %r on %r gives only start(), the tree start(a) of the second alternative is missing' % (f['what'], w['grammar'], w['text'])))
            elif len(got) != 2:
                res.violation('the pinned witness of F29 behaves in a new way', dict(w, got=got))
        if f['id'] == 'F24' and f['status'] == 'open':
            from lark import Lark
            w = f['witness']
            t = Lark(w['grammar'], parser='earley', ambiguity='explicit').parse(w['text'])
            import ebnflib
            got = ebnflib.tree_set(t)
            if got == ['["T", "x", []]']:
                res.known_hits.append(('F24', '%s: %r on %r gives only x(), the derivation through the second alternative (tree y()) is missing' % (f['what'], w['grammar'], w['text'])))
            elif sorted(got) != ['["T", "x", []]', '["T", "y", []]']:
                res.violation('the pinned witness of F24 behaves in a new way', dict(w, got=got))
    jobs, outs = forestlib.forest_stream(ctx, 4, {'c04'}, 2500, 22000, prio=False)
    for job, rec in problems(res, jobs, outs, 'parsing with ambiguity=explicit'):
        if 'gerr' in rec:
            res.count('grammar_error'); continue
        g = rec['grammar']
        for run_ in rec['runs']:
            where = {'grammar': g, 'text': run_['text'], 'lexer': run_['lexer'], 'maybe_placeholders': rec['maybe_placeholders']}
            if run_.get('explicit_timeout'):
                if rec['acyclic'] and run_.get('nderivs') is not None:
                    res.violation('ambiguity=explicit did not return within 8 s although the input has only %d derivations' % run_['nderivs'], where)
                else:
                    # cyclic grammars can have exponentially large explicit trees: slow, not looping (looping is checked by the path-simplicity detector in C20)
                    res.inconclusive['explicit_timeout'] = res.inconclusive.get('explicit_timeout', 0) + 1
                continue
            if 'explicit_accept' not in run_:
                continue
            nd = run_.get('nderivs')
            res.case(['c04', g, run_['text'], run_['lexer'], rec['maybe_placeholders']], nontrivial=bool(nd and nd > 1) or not rec['acyclic'],
                     sample=dict(where, derivations=nd) if nd and nd > 2 and len(res.samples) < 3 else None)
            res.count('lexer_' + run_['lexer']); res.count('acyclic' if rec['acyclic'] else 'cyclic')
            if nd is None:
                res.count('no_enumeration'); continue
            if run_['explicit_accept'] != (nd > 0):
                res.violation('explicit mode %s the input although it has %d derivations' % ('accepts' if run_['explicit_accept'] else 'rejects', nd), where); continue
            if nd == 0:
                res.count('rejected'); continue
            res.count('accepted'); res.count('ambiguous' if nd > 1 else 'unambiguous')
            shaped = [s['shaped'] for s in run_['shape_inputs']]
            if any(s is None for s in shaped):
                raise InfraError('driver failed on a shape case')
            want = sorted(set(shaped))
            if 'explicit_trees' not in run_:
                res.count('too_many_trees'); continue
            got = sorted(set(run_['explicit_trees']))
            if got != want:
                missing = [x for x in want if x not in got][:2]; extra = [x for x in got if x not in want][:2]
                res.violation('expanding the _ambig nodes does not give exactly the shaped trees of all derivations', dict(where, derivations=nd, distinct_shaped_trees=len(want), explicit_trees=len(got), missing=missing, not_a_derivation=extra))
                continue
            if 'collapse_error' in run_:
                res.violation('CollapseAmbiguities raised', dict(where, error=run_['collapse_error'])); continue
            if 'collapse_trees' in run_ and sorted(set(run_['collapse_trees'])) != got:
                res.violation('CollapseAmbiguities disagrees with the plain expansion of _ambig nodes', where)
    # the grammar as *written* (EBNF) against its hand-desugared plain form: the derivations lost or invented by lark's EBNF compilation are invisible to the
    # enumeration above (it starts from the compiled rules)
    import ebnflib
    ebnflib.check(ctx, res, 44, 250, 6000, big=False, label='EBNF (explicit ambiguity: exact set of trees)', exact=True)
    # ---- ambiguity inside terminals (dynamic_complete, regexp terminals): lattice-level derivation oracle
    from common import pmap, tier_scale
    import random as _r
    rng3 = _r.Random(ctx['seed'] * 1000003 + 404)
    seeds = [rng3.randrange(1 << 30) for _ in range(tier_scale(ctx['tier'], 700, 9000) * (3 if ctx['deepen'] else 1))]
    for seed, (st, rec) in zip(seeds, pmap(_lattice_case, seeds, chunksize=4)):
        if st != 'ok':
            if st == 'exc':
                if not exc_in_lark(rec):
                    raise InfraError(rec)
                res.violation('parsing with dynamic_complete raised an unexpected exception', {'seed': seed, 'detail': rec})
            else:
                res.inconclusive[st] = res.inconclusive.get(st, 0) + 1
            continue
        if rec.get('nobuild') or rec.get('cyclic'):
            res.count('lattice_' + ('nobuild' if rec.get('nobuild') else 'cyclic_skipped')); continue
        for run_ in rec['runs']:
            if 'skipped' in run_:
                res.count('lattice_skipped_' + run_['skipped']); continue
            res.case(['lattice', rec['grammar'], run_['text']], nontrivial=run_['nderivs'] > 1,
                     sample={'grammar': rec['grammar'], 'text': run_['text'], 'derivations': run_['nderivs']} if run_['nderivs'] > 2 and len(res.samples) < 6 else None)
            res.count('lattice_inputs'); res.count('lattice_ambiguous', 1 if run_['nderivs'] > 1 else 0); res.count('lattice_accepted', 1 if run_['nderivs'] else 0)
            if 'missing' in run_:
                res.violation('dynamic_complete: expanding the _ambig nodes does not give exactly the derivations of the character lattice (ambiguity inside terminals included)',
                              {'grammar': rec['grammar'], 'text': run_['text'], 'derivations': run_['nderivs'], 'missing': run_['missing'], 'not_a_derivation': run_['extra']})
