"""C07 — the lexer tiles the input by documented precedence; contextual refines basic."""
import random, re, json
from common import run_driver_parallel, pmap, guarded, tier_scale, exc_in_lark, InfraError

STR_POOL = ['"if"', '"else"', '"ifx"', '"i"', '"a"', '"ab"', '"abc"', '"IF"i', '"if"i', '"="', '"=="', '"+"', '"++"', '";"', '"x"', '"0"', '"in"', '"int"', '"a1"', '"El"i']
RE_POOL = ['/[a-z]+/', '/[a-z_]\\w*/', '/\\w+/', '/[a-c]+/', '/a+/', '/ab?/', '/\\d+/', '/\\d+\\.\\d+/', '/[0-9a-f]+/', '/=+/', '/./', '/[^ ;]+/', '/i[a-z]/',
           '/(?i:if)/', '/[a-z]+/i', '/[A-Z]+/', '/[a-zA-Z]+/', '/if|else/', '/i|if/', '/[a-z]{2}/', '/[a-z]{1,3}/', '/\\+\\+?/', '/[ab]+c/', '/x*y/', '/(?i:[a-z])+/', '/[a-z_]+/m', '/[a-z]+/s', '/[a-z] [a-z0-9]*/x', '/[a-f]+/im', '/0x [0-9a-f]{1,4}/x', '/[0-9a-z]{1,7}/', '/i f # kw\n/x', '/[a-z]{1,3} [0-9]? /x']
ALPHA = list('ifelsxab=+;0 1IF') + ['  ', 'if', 'else', 'ab', '==', 'a1', 'int', '0x', 'ff', 'abcd']


# (keyword, regexp) pairs where the regexp CAN match the keyword in full but its preferred match of the keyword is shorter (lazy quantifier): by the documented
# exception ("text matched by a regexp terminal which is exactly a string terminal") the keyword is not carved out, and — being the longer pattern of equal maximal
# width — it is tried first
LAZY_PAIRS = [('"procedure"', '/\\w{1,9}?/'), ('"elsewise"', '/.{1,8}?/'), ('"aaaaaaaaa"', '/a{1,9}?/'), ('"procedure"', '/[a-z]{1,9}?/')]


def gen_case(rng, big=False):
    if not big and rng.random() < 0.03:
        kw, rx = rng.choice(LAZY_PAIRS)
        g = 'start: (KW | W | X)*\nKW: %s\nW: %s\nX: "x"\n' % (kw, rx) + ('%ignore " "\n' if rng.random() < 0.5 else '')
        word = kw.strip('"')
        texts = [''.join(rng.choice([word, word[:3], 'x', ' ', word + 'x', 'a']) for _ in range(rng.randint(1, 4))) for _ in range(3)]
        return g, texts
    if not big and rng.random() < 0.06:
        # two parser states whose sets of acceptable terminal *names* look alike once joined: {A, B} after "(" and {A_B} after "["
        pa, pb, pab = rng.sample(['"a"', '"b"', '"ab"', '/[a-c]+/', '"if"', '/[0-9]+/', '"x"'], 3)
        g = 'start: item*\nitem: "(" (A | B) ")" | "[" A_B "]"\nA: %s\nB: %s\nA_B: %s\n' % (pa, pb, pab) + ('WS: /[ \\t]+/\n%ignore WS\n' if rng.random() < 0.6 else '')
        toks = ['(', ')', '[', ']', 'a', 'b', 'ab', 'if', '1', 'x', 'c', ' ']
        texts = [''.join(rng.choice(toks) for _ in range(rng.randint(0, 8))) for _ in range(2)] + [rng.choice(['(a)[ab]', '[ab](b)', '[a](ab)', '(x)[1][if]'])]
        return g, texts
    terms = []
    used = set()
    nstr, nre = rng.randint(0, 5), rng.randint(0 if rng.random() < 0.3 else 1, 3)
    for sp in rng.sample(STR_POOL, nstr) + rng.sample(RE_POOL, nre):
        terms.append(sp)
    if not terms:
        terms = ['/[a-z]+/']
    names = []
    pool_names = ['NAME', 'KW', 'A', 'B', 'ID', 'NUM', 'OP', 'X', 'T', 'IF', 'Z9', 'AA', 'A_B', 'Q']
    rng.shuffle(pool_names)
    defs = []
    for i, sp in enumerate(terms):
        n = pool_names[i]
        pr = rng.choice([0, 0, 0, 0, 1, 2, -1]) if rng.random() < 0.5 else 0
        defs.append((n, pr, sp))
    if big:
        for k in range(rng.randint(101, 125)):
            defs.append(('K%d' % k, 0, '"k%d"' % k if rng.random() < 0.9 else '/k%d+/' % k))
    ign = rng.random() < 0.6
    shape = rng.choice(['flat', 'seq'])
    tnames = [d[0] for d in defs]
    if shape == 'flat' or len(tnames) < 2:
        g = 'start: (%s)*\n' % ' | '.join(tnames)
    else:
        alts = []
        for _ in range(rng.randint(1, 3)):
            alts.append(' '.join(rng.choice(tnames) for _ in range(rng.randint(1, 3))))
        rest = [t for t in tnames if not any(t in a.split() for a in alts)]
        if rest:
            alts.append(' '.join(rest[:4]))
        g = 'start: item*\nitem: %s\n' % ' | '.join(dict.fromkeys(alts))
    for n, pr, sp in defs:
        g += '%s%s: %s\n' % (n, ('.%d' % pr) if pr else '', sp)
    if ign:
        r = rng.random()
        if r < 0.5 or big:
            g += 'WS: /[ \\t]+/\n%ignore WS\n'
        else:
            # ignored terminals that can match several times in a row, overlap other terminals, are strings a regexp terminal matches in full (keyword
            # exception on an ignored terminal), or are regexps matching a string terminal in full; sometimes two of them
            pool = ['WS: /[ \\t]/', 'WS: " "', 'WS: / |;/', 'COM: /#[a-z]*;?/', 'COM: /#[^;]*;/', 'WS: /\\s/', 'SKIP: "if"', 'SKIP: "ab"', 'SKIP: /[a-c]/', 'WS: /[ ;]+?/', 'SKIP: "x"']
            for d in rng.sample(pool, rng.choice([1, 1, 2])):
                n_ = d.split(':')[0]
                if ('\n' + n_ + ':') in ('\n' + g) or ('\n' + n_ + '.') in ('\n' + g):
                    continue
                pr_ = rng.choice(['', '', '', '.1', '.2'])
                g += '%s%s:%s\n%%ignore %s\n' % (n_, pr_, d.split(':', 1)[1], n_)
            if rng.random() < 0.5:
                # a higher-precedence terminal that starts where an ignored match may end
                g += rng.choice(['DOC.2: /##[a-z]*;/\n', 'TWO: "  "\n', 'SEMI.1: ";"\n', 'HASH: "#"\n', 'NL.2: "\\n"\n'])
                g = g.replace('start: (', 'start: (%s | ' % g.rstrip('\n').split('\n')[-1].split(':')[0].split('.')[0], 1) if g.startswith('start: (') else g
    alpha = ALPHA + (['k1', 'k12', 'k100', 'k7 ', 'kk'] if big else [])
    if 'COM:' in g or 'COM.' in g or 'DOC' in g or 'HASH' in g:
        alpha = alpha + ['#', '#ab;', '##x;', '#;', ';', '# a;']
    if 'NL.2' in g or '\\s/' in g:
        alpha = alpha + ['\n', ' \n', '\n\n']
    texts = [''.join(rng.choice(alpha) for _ in range(rng.randint(0, 9))) for _ in range(3)]
    return g, texts


def _tables(p, text, use_bytes):
    """regex facts from individually compiled patterns (independent of lark's combined scanners)"""
    terms = list(p.terminals)
    flags = p.options.g_regex_flags
    data = text.encode('latin-1') if use_bytes else text
    comp = []
    for t in terms:
        pat = t.pattern.to_regexp()
        comp.append(re.compile(pat.encode('latin-1') if use_bytes else pat, flags))
    # the "maximal width" of the documented order, computed here from the regexp with its flags (not read from lark's Pattern objects)
    try:
        import re._parser as _sre
    except ImportError:
        import sre_parse as _sre
    def maxw(t):
        if t.pattern.type == 'str':
            return len(t.pattern.value)
        return int(_sre.parse(t.pattern.to_regexp()).getwidth()[1])
    info = [{'name': t.name, 'prio': t.priority, 'maxw': maxw(t), 'vlen': len(t.pattern.value), 'str': t.pattern.type == 'str'} for t in terms]
    selfm, fsub = [], []
    for i, r in enumerate(terms):
        if r.pattern.type != 're':
            continue
        for j, s in enumerate(terms):
            if s.pattern.type != 'str':
                continue
            v = s.pattern.value
            m = comp[i].match(v.encode('latin-1') if use_bytes else v)
            if m and m.group(0) == (v.encode('latin-1') if use_bytes else v):
                selfm.append([i, j])
            if set(s.pattern.flags) <= set(r.pattern.flags):
                fsub.append([j, i])
    mt, spans = [], set()
    for i, c in enumerate(comp):
        for pos in range(len(data)):
            m = c.match(data, pos)
            if m and m.end() > pos:
                mt.append([i, pos, m.end() - pos])
                if terms[i].pattern.type == 're':
                    spans.add((pos, m.end() - pos))
    full = []
    for j, s in enumerate(terms):
        if s.pattern.type == 'str':
            for pos, ln in spans:
                if comp[j].fullmatch(data[pos:pos + ln]):
                    full.append([j, pos, ln])
    ignore = [i for i, t in enumerate(terms) if t.name in p.ignore_tokens]
    return {'terms': info, 'self': selfm, 'fsub': fsub, 'ignore': ignore, 'n': len(data), 'mt': mt, 'full': sorted(full), 'start': 0}


def _case(args):
    g, texts, use_bytes = args
    from lark import Lark
    from lark.exceptions import UnexpectedCharacters, UnexpectedToken, UnexpectedInput, LarkError
    out = []
    try:
        with guarded(20):
            pb = Lark(g, parser='lalr', lexer='basic', use_bytes=use_bytes)
            pc = Lark(g, parser='lalr', lexer='contextual', use_bytes=use_bytes)
    except LarkError as e:
        return [{'build_error': type(e).__name__ + ': ' + str(e)[:80]}]
    except AttributeError as e:
        # region of known finding F28: interegular can parse none of the (>= 2) regexp terminals — decided here with interegular's public parser
        if "_know_pairs" in str(e):
            try:
                import interegular
                used = Lark(g, parser='earley', lexer='dynamic').terminals       # the terminals that survive pruning (no BasicLexer is built here)
                rx = [t.pattern.to_regexp() for t in used if t.pattern.type == 're']
                def parses(regexp):
                    try:
                        interegular.parse_pattern(regexp); return True
                    except Exception:
                        return False
                if len(rx) >= 2 and not any(parses(x) for x in rx):
                    return [{'build_error': 'F28 region'}]
            except ImportError:
                pass
        raise
    names = [t.name for t in pb.terminals]
    idx = {n: i for i, n in enumerate(names)}
    import io
    buf = io.BytesIO(); pb.save(buf); buf.seek(0)
    pl = Lark.load(buf)
    for text in texts:
        data = text.encode('latin-1') if use_bytes else text
        tab = _tables(pb, text, use_bytes)
        rec = {'text': text, 'tab': tab}
        # ---- basic lexer via Lark.lex
        toks, err = [], None
        try:
            with guarded(10):
                for t in pb.lex(data):
                    toks.append([idx[t.type], t.start_pos, t.end_pos - t.start_pos])
        except UnexpectedCharacters as e:
            err = {'kind': 'chars', 'pos': e.pos_in_stream, 'allowed': sorted(idx[a] for a in e.allowed if a in idx)}
        rec['basic'] = {'toks': toks, 'err': err}
        # ---- the same lexer after Lark.save / Lark.load (flags, priorities and the keyword carve-out are rebuilt from the serialised terminals)
        ltoks, lerr = [], None
        try:
            with guarded(10):
                for t in pl.lex(data):
                    ltoks.append([idx[t.type], t.start_pos, t.end_pos - t.start_pos])
        except UnexpectedCharacters as e:
            lerr = {'kind': 'chars', 'pos': e.pos_in_stream, 'allowed': sorted(idx[a] for a in e.allowed if a in idx)}
        rec['loaded'] = {'toks': ltoks, 'err': lerr}
        rec['basic_order'] = [idx[t.name] for t in pb.parser.lexer.scanner.allowed_types and pb.parser.lexer.terminals]
        # ---- parse under both lexers (property level)
        def tree_of(p):
            try:
                with guarded(10):
                    return ('ok', p.parse(data))
            except UnexpectedInput as e:
                return (type(e).__name__, None)
        tb, tc = tree_of(pb), tree_of(pc)
        rec['basic_parse'], rec['ctx_parse'] = tb[0], tc[0]
        rec['trees_equal'] = (tb[1] == tc[1]) if tb[0] == 'ok' and tc[0] == 'ok' else None
        # ---- contextual lexer, token by token, recording the per-state terminal sets
        ctx = pc.parser.lexer
        subsets, ctoks, cerr, perr = [], [], None, None
        with guarded(10):
            ip = pc.parse_interactive(data)
            gen_ = ip.lexer_thread.lex(ip.parser_state)
            while True:
                subsets.append(sorted(idx[t.name] for t in ctx.lexers[ip.parser_state.position].terminals))
                try:
                    tok = next(gen_)
                except StopIteration:
                    break
                except UnexpectedCharacters as e:
                    cerr = {'kind': 'chars', 'pos': e.pos_in_stream, 'allowed': sorted(idx[a] for a in e.allowed if a in idx)}
                    break
                except UnexpectedToken as e:
                    cerr = {'kind': 'token', 'ty': idx[e.token.type], 'pos': e.token.start_pos, 'len': e.token.end_pos - e.token.start_pos,
                            'allowed': sorted(idx[a] for a in e.expected if a in idx)}
                    break
                ctoks.append([idx[tok.type], tok.start_pos, tok.end_pos - tok.start_pos])
                try:
                    ip.feed_token(tok)
                except UnexpectedToken:
                    perr = 'parser'
                    break
        rec['ctx'] = {'toks': ctoks, 'err': cerr, 'parser_stopped': perr, 'subsets': subsets}
        out.append(rec)
    return out


def run(ctx, res):
    for f in ctx['known']:
        if f['id'] == 'F30' and f['status'] == 'fixed':
            from lark import Lark
            from lark.exceptions import UnexpectedInput
            w = f['witness']
            for gk, tk, ek in (('grammar', 'text', 'expected_types'), ('grammar2', 'text2', 'expected_types2')):
                for lexer in ('basic', 'contextual'):
                    try:
                        got = [t.type for t in Lark(w[gk], parser='lalr', lexer=lexer).parse(w[tk]).children]
                    except UnexpectedInput as e:
                        got = type(e).__name__
                    if got != w[ek]:
                        res.violation('regression of fixed finding F30: ' + f['what'], {'grammar': w[gk], 'text': w[tk], 'lexer': lexer, 'tokens': got, 'expected': w[ek]})
    for f in ctx['known']:
        if f['id'] == 'F28' and f['status'] == 'open':
            from lark import Lark
            w = f['witness']
            try:
                Lark(w['grammar'], parser='lalr', lexer='basic')
            except AttributeError as e:
                if '_know_pairs' in str(e):
                    res.known_hits.append(('F28', '%s: %r' % (f['what'], w['grammar'])))
                else:
                    raise
    rng = random.Random(ctx['seed'] * 1000003 + 7)
    tier = ctx['tier']
    mult = 3 if ctx['deepen'] else 1
    jobs = []
    for i in range(tier_scale(tier, 2000, 30000) * mult):
        g, texts = gen_case(rng, big=(i % 25 == 0))
        jobs.append((g, texts, rng.random() < 0.2))
    outs = pmap(_case, jobs, chunksize=4)
    cases, meta = [], []
    for job, (st, recs) in zip(jobs, outs):
        if st != 'ok':
            if st == 'exc':
                if not exc_in_lark(recs):
                    raise InfraError(recs)
                res.violation('lexing raised an unexpected exception', {'grammar': job[0], 'texts': job[1], 'detail': recs})
            else:
                res.inconclusive[st] = res.inconclusive.get(st, 0) + 1
            continue
        for rec in recs:
            if 'build_error' in rec:
                res.count('build_error' if rec['build_error'] != 'F28 region' else 'skipped_region_of_F28'); continue
            tab = rec.pop('tab')
            cases.append(dict(tab, op='lex', mode='basic')); meta.append((job, rec, 'basic'))
            cases.append(dict(tab, op='lex', mode='ctx', subsets=rec['ctx']['subsets'])); meta.append((job, rec, 'ctx'))
    model = run_driver_parallel(cases)
    for (job, rec, mode), m, case in zip(meta, model, cases):
        g, text = job[0], rec['text']
        names = [t['name'] for t in case['terms']]
        collide = len({(a, b) for a, b, _l in case['mt']}) < len(case['mt']) or any(sum(1 for t, p, _l in case['mt'] if p == pos) > 1 for pos in range(case['n']))
        res.case(['lex', g, text, mode, job[2]], nontrivial=collide,
                 sample={'grammar': g, 'text': text, 'mode': mode, 'bytes': job[2], 'tokens': [[names[t], p, l] for t, p, l in m.get('toks', [])][:6], 'error': m.get('err')} if collide and len(m.get('toks', [])) > 1 else None)
        res.count('mode_' + mode)
        if len(names) > 100:
            res.count('over_100_terminals')
        if 'error' in m:
            raise InfraError('driver: %s' % m['error'])
        if not m.get('agree', True):
            res.corr_break('driver: lexBasic differs from the emitted pieces of lexAllPieces (the function the tiling theorem is about)', {'grammar': g, 'text': text})
        got = rec[mode]
        mt_, me = m['toks'], m['err']
        if mode == 'ctx' and got['parser_stopped']:
            mt_, me = mt_[:len(got['toks'])], None     # the parser rejected a token: lexing stopped there
        if me and me.get('allowed') is not None:
            me = dict(me, allowed=sorted(me['allowed']))
        if got['toks'] != mt_ or got['err'] != me:
            res.violation('%s lexer: token sequence/error differs from the precedence model (first match in documented order + keyword exception)' % mode,
                          {'grammar': g, 'text': text, 'bytes': job[2], 'mode': mode, 'terminals': names,
                           'code': {'toks': [[names[t], p, l] for t, p, l in got['toks']], 'err': got['err']},
                           'model': {'toks': [[names[t], p, l] for t, p, l in mt_], 'err': me}})
            continue
        res.count('err_' + (me['kind'] if me else 'none'))
        if mode == 'basic' and (rec['loaded']['toks'] != mt_ or rec['loaded']['err'] != me):
            res.violation('basic lexer of the saved-and-loaded parser: token sequence/error differs from the precedence model',
                          {'grammar': g, 'text': text, 'bytes': job[2], 'terminals': names,
                           'code': {'toks': [[names[t], p, l] for t, p, l in rec['loaded']['toks']], 'err': rec['loaded']['err']},
                           'model': {'toks': [[names[t], p, l] for t, p, l in mt_], 'err': me}})
            continue
        if mode == 'basic':
            if rec['basic_order'] != m['order'] and False:
                res.corr_break('scan order differs', {'grammar': g})
            nre = sum(1 for t in case['terms'] if not t['str'])
            # property level: basic succeeds => contextual succeeds with the same tree (regexps do not overlap: at most one regexp terminal)
            if rec['basic_parse'] == 'ok' and nre <= 1:
                res.count('refines_checked')
                if rec['ctx_parse'] != 'ok' or rec['trees_equal'] is not True:
                    res.violation('lexer=basic parses but lexer=contextual does not give the same tree', {'grammar': g, 'text': text, 'bytes': job[2], 'ctx': rec['ctx_parse']})
