"""C12 — the grammar cache is only an optimisation, whatever the state of the cache file."""
import random, json, os, shutil, tempfile, pickle, io, logging
from common import pmap, run_driver, guarded, Timeout, tier_scale, exc_in_lark, InfraError

GRAMMARS = [
    'start: "a"+ B?\nB: "b"\n',
    'start: "a"* B\nB: "b"\n',
    'start: [A] B\nA: "a"\nB: "b"\n',
    'start: x+\nx: A | B\nA: "a"\nB: "b"\n%ignore " "\n',
    '%import mod.item\nstart: item+\n%ignore " "\n',
    '%import mod.item\nstart: item "b"?\n%ignore " "\n',
    'start: "a"\nx: "b"\n//',
    'start: "a"\nx: "b"\n//startx',
    'start: (A | B)+\nA.2: /a/\nB: /a+/\n%ignore " "\n',
    'start: (KW | NAME)+\nKW: "ab"i\nNAME: /[a-z]+/s\n%ignore " "\n',       # keyword carve-out decided by the terminals\' flags (a frozenset; a list after a careless restore)
]
OPTS = [{}, {'maybe_placeholders': False}, {'keep_all_tokens': True}, {'lexer': 'basic'}, {'propagate_positions': True}, {'start': 'x'}, {'g_regex_flags': 2}, {'_dir': 'B'}, {'_dir': 'B', 'maybe_placeholders': False}, {'priority': None}, {'priority': 'invert'}, {'priority': 'normal'}, {'_pkg': True}, {'_pkg': True, 'keep_all_tokens': True}]
IMPORTS = ['item: "a"\n', 'item: "a" | "b" "a"\n', 'item: "b"+\n']
PROBES = ['', 'a', 'b', 'ab', 'aab', 'a a b', 'ba', 'bb a', 'aaa', 'A', 'AB', 'Ab ab']


def signature(p):
    from lark.exceptions import UnexpectedInput
    from lark import Tree, Token
    def canon(t):
        if isinstance(t, Tree):
            m = t.meta
            return ['T', str(t.data), None if m.empty else [m.start_pos, m.end_pos], [canon(c) for c in t.children]]
        if isinstance(t, Token):
            return ['t', t.type, str(t), t.start_pos]
        return t
    out = []
    for s in PROBES:
        try:
            out.append(canon(p.parse(s)))
        except UnexpectedInput as e:
            out.append([type(e).__name__, getattr(e, 'pos_in_stream', None)])
    return json.dumps(out)


def valid_request(gi, oi):
    if OPTS[oi].get('start') == 'x' and 'x:' not in GRAMMARS[gi]:
        return False
    return True


def _history(args):
    seed, nops = args
    from lark import Lark
    rng = random.Random(seed)
    logging.getLogger('lark').setLevel(logging.CRITICAL)
    d = tempfile.mkdtemp(prefix='larkverif_c12_')
    try:
        path = os.path.join(d, 'cache.bin')
        # directory A lives inside an importable package, so that the same module can also be reached through a package loader (PackageResource in used_files)
        import sys
        pkg = 'larkverif_pkg_%d_%d' % (os.getpid(), seed)
        os.mkdir(os.path.join(d, pkg)); open(os.path.join(d, pkg, '__init__.py'), 'w').close()
        sys.path.insert(0, d)
        dirs = {'A': os.path.join(d, pkg, 'A'), 'B': os.path.join(d, 'B')}
        for x in dirs.values(): os.mkdir(x)
        pool = []
        while len(pool) < 4:
            gi, oi = rng.randrange(len(GRAMMARS)), rng.randrange(len(OPTS))
            if valid_request(gi, oi) and (gi, oi) not in pool:
                pool.append((gi, oi))
        if rng.random() < 0.3:
            pool = [(6, 5), (7, 0)] + [r for r in pool if r not in ((6, 5), (7, 0))][:2]       # the F4 pair (fixed): must not collide
        def write_if_changed(fn, text):
            if not os.path.exists(fn) or open(fn).read() != text:
                open(fn, 'w').write(text)
                if rng.random() < 0.5:
                    # the new content arrives with an *old* modification time (a revision restored with cp -p / tar / rsync, a clock set back): file
                    # times say nothing about content, the cache must still notice the change
                    import time as _time
                    t_ = _time.time() - rng.choice([3600, 86400 * 400, 5])
                    os.utime(fn, (t_, t_))
        def build(req, imp, cache):
            # directory A holds variant `imp` of the module, directory B the next one: same grammar text + different import_paths = different parser
            write_if_changed(os.path.join(dirs['A'], 'mod.lark'), IMPORTS[imp])
            write_if_changed(os.path.join(dirs['B'], 'mod.lark'), IMPORTS[(imp + 1) % len(IMPORTS)])
            gi, oi = req
            o = dict(OPTS[oi]); dname = o.pop('_dir', 'A')
            if o.pop('_pkg', False):
                from lark.load_grammar import FromPackageLoader
                return Lark(GRAMMARS[gi], **o, parser='lalr', import_paths=[FromPackageLoader(pkg, ('A',))], cache=cache)
            return Lark(GRAMMARS[gi], **o, parser='lalr', import_paths=[dirs[dname]], cache=cache)
        uses_import = lambda req: 'import' in GRAMMARS[req[0]]
        # reference behaviour and cache keys, learned from lark itself on separate paths
        ref, key = {}, {}
        for ri, req in enumerate(pool):
            for imp in range(len(IMPORTS)):
                if imp and not uses_import(req):
                    ref[(ri, imp)] = ref[(ri, 0)]; continue
                ref[(ri, imp)] = signature(build(req, imp, False))
            # the key covers the cache option itself (the path), so it has to be learned on the very path the history uses
            if os.path.exists(path): os.remove(path)
            build(req, 0, path)
            key[ri] = open(path, 'rb').readline()
            os.remove(path)
        def classify():
            if not os.path.exists(path):
                return 'absent'
            data = open(path, 'rb').read()
            f = io.BytesIO(data)
            hdr = f.readline()
            try:
                used = pickle.load(f); payload = pickle.load(f)
                if f.read() != b'':
                    return 'bad'
            except Exception:
                return 'bad'
            owners = [ri for ri, k in key.items() if k == hdr]
            if not owners:
                return 'bad'
            return ['good', owners[0]]
        ops, obs, failures = [], [], []
        last_imp = 0
        for _ in range(nops):
            r = rng.random()
            ri = rng.randrange(len(pool)); imp = rng.randrange(len(IMPORTS)) if uses_import(pool[ri]) and rng.random() < 0.6 else 0
            if r < 0.5:
                op = {'k': 'open', 'g': ri, 'imp': imp}
                try:
                    with guarded(20):
                        p = build(pool[ri], imp, path)
                    sig = signature(p)
                    if sig != ref[(ri, imp)]:
                        failures.append({'kind': 'behaviour', 'op_index': len(ops), 'request': [pool[ri], imp]})
                except Timeout:
                    raise
                except Exception as e:
                    failures.append({'kind': 'raised', 'op_index': len(ops), 'request': [pool[ri], imp], 'error': repr(e)[:200]})
            elif r < 0.62:
                # crash while writing: perform the construction on a scratch copy, and if it rewrote the file leave a strict prefix behind
                op = {'k': 'crash', 'g': ri, 'imp': imp}
                before = open(path, 'rb').read() if os.path.exists(path) else None
                try:
                    build(pool[ri], imp, path)
                except Exception as e:
                    failures.append({'kind': 'raised', 'op_index': len(ops), 'request': [pool[ri], imp], 'error': repr(e)[:200]})
                after = open(path, 'rb').read()
                if after != before:
                    open(path, 'wb').write(after[:rng.randrange(len(after))])
            elif r < 0.76:
                op = {'k': 'truncate'}
                if os.path.exists(path):
                    data = open(path, 'rb').read()
                    if len(data) > 0:
                        open(path, 'wb').write(data[:rng.randrange(len(data))])
            elif r < 0.84:
                op = {'k': 'delete'}
                if os.path.exists(path):
                    os.remove(path)
            else:
                op = {'k': 'foreign', 'g': ri, 'imp': imp}
                # a complete file written by lark for another request (same path: the key covers the path)
                if os.path.exists(path): os.remove(path)
                build(pool[ri], imp, path)
            ops.append(op)
            # the imported file on disk is what the *last* construction wrote; the model's `used` field abstracts its hash
            obs.append(classify())
        return {'pool': [[GRAMMARS[g], OPTS[o]] for g, o in pool], 'ops': ops, 'obs': obs, 'failures': failures, 'import_req': [uses_import(r) for r in pool]}
    finally:
        shutil.rmtree(d, ignore_errors=True)
        import sys
        if d in sys.path: sys.path.remove(d)
        sys.modules.pop('larkverif_pkg_%d_%d' % (os.getpid(), seed), None)


def _other_versions(args):
    """a cache file written under another lark version or another Python minor version must be replaced, not served: the other version is simulated by
    swapping the module globals the key is computed from (lark.__version__, lark.lark.sys.version_info)"""
    import sys as _sys, types
    import lark, lark.lark as LL
    from lark import Lark
    logging.getLogger('lark').setLevel(logging.CRITICAL)
    d = tempfile.mkdtemp(prefix='larkverif_c12_')
    out = []
    try:
        g = 'start: "a"+\n'
        for what in ('python_minor', 'lark_version'):
            path = os.path.join(d, what + '.bin')
            real_sys, real_ver = LL.sys, lark.__version__
            try:
                if what == 'python_minor':
                    proxy = types.SimpleNamespace(**{k: getattr(_sys, k) for k in dir(_sys) if not k.startswith('__')})
                    proxy.version_info = (_sys.version_info[0], _sys.version_info[1] + 1) + tuple(_sys.version_info[2:])
                    LL.sys = proxy
                else:
                    lark.__version__ = real_ver + '.other'
                Lark(g, parser='lalr', cache=path)
            finally:
                LL.sys = real_sys; lark.__version__ = real_ver
            before = open(path, 'rb').readline()
            Lark(g, parser='lalr', cache=path)
            after = open(path, 'rb').readline()
            out.append([what, before != after])
        return out
    finally:
        shutil.rmtree(d, ignore_errors=True)


def _f5(args):
    """known finding F5: a same-length change inside the pickled body is served silently"""
    from lark import Lark
    logging.getLogger('lark').setLevel(logging.CRITICAL)
    d = tempfile.mkdtemp(prefix='larkverif_c12_')
    try:
        path = os.path.join(d, 'c.bin')
        g = 'start: "a"+\n'
        Lark(g, parser='lalr', cache=path)
        data = open(path, 'rb').read()
        i = data.rfind(b'a')
        # find the pickled pattern value "a" of the anonymous terminal and turn it into "b"
        cands = [k for k in range(len(data)) if data[k:k + 1] == b'a' and data[k - 1:k] in (b'\x01', b'\x8c') or (data[k:k + 1] == b'a' and data[k - 2:k] == b'\x8c\x01')]
        for k in cands:
            mod = data[:k] + b'b' + data[k + 1:]
            open(path, 'wb').write(mod)
            try:
                p = Lark(g, parser='lalr', cache=path)
                try:
                    p.parse('b'); return True
                except Exception:
                    pass
            except Exception:
                pass
        return False
    finally:
        shutil.rmtree(d, ignore_errors=True)


def _sweep(args):
    """single-byte corruptions of a complete cache file: the construction must never raise (behaviour is not compared: finding F5)"""
    gi, oi, offsets, values = args
    from lark import Lark
    logging.getLogger('lark').setLevel(logging.CRITICAL)
    d = tempfile.mkdtemp(prefix='larkverif_c12_')
    try:
        path = os.path.join(d, 'c.bin')
        o = {k: v for k, v in OPTS[oi].items() if not k.startswith('_')}
        Lark(GRAMMARS[gi], **o, parser='lalr', cache=path)
        data = open(path, 'rb').read()
        ref = signature(Lark(GRAMMARS[gi], **o, parser='lalr'))
        raised, differs, n = [], 0, 0
        import select
        for off in offsets:
            if off >= len(data):
                continue
            for v in values:
                b = v if v >= 0 else (data[off] + 1) % 256
                if b == data[off]:
                    continue
                open(path, 'wb').write(data[:off] + bytes([b]) + data[off + 1:])
                n += 1
                # each load runs in a forked child that is killed on a hard timeout: a corrupted-but-decodable parser can loop in ways SIGALRM does not stop
                rfd, wfd = os.pipe()
                pid = os.fork()
                if pid == 0:
                    try:
                        os.close(rfd)
                        try:
                            p = Lark(GRAMMARS[gi], **o, parser='lalr', cache=path)
                            os.write(wfd, b'L')
                        except BaseException as e:
                            os.write(wfd, b'E' + repr(e)[:120].encode('utf8', 'replace'))
                            os._exit(0)
                        if n % 8 == 0:
                            try:
                                os.write(wfd, b'S' if signature(p) == ref else b'D')
                            except BaseException:
                                os.write(wfd, b'D')
                    finally:
                        os._exit(0)
                os.close(wfd)
                got = b''
                deadline = 8.0
                import time as _t
                t0 = _t.time()
                while True:
                    r, _, _ = select.select([rfd], [], [], max(0.0, deadline - (_t.time() - t0)))
                    if not r:
                        break
                    chunk = os.read(rfd, 4096)
                    if not chunk:
                        break
                    got += chunk
                os.close(rfd)
                try:
                    os.kill(pid, 9)
                except ProcessLookupError:
                    pass
                os.waitpid(pid, 0)
                if got.startswith(b'E'):
                    raised.append([off, b, got[1:].decode('utf8', 'replace')])
                elif not got:
                    raised.append([off, b, 'construction did not return within 8 s'])
                elif got.endswith(b'D') or (n % 8 == 0 and got == b'L'):
                    differs += 1        # the silently served corrupted parser misbehaves (differs, loops, raises): finding F5
        return {'size': len(data), 'tried': n, 'raised': raised[:5], 'served_different_behaviour_F5': differs}
    finally:
        shutil.rmtree(d, ignore_errors=True)


def _same_text_two_places(seed):
    """the same main grammar text in two directories whose relative import resolves to different module files, opened through Lark.open / Lark(source_path=)
    / Lark(import_paths=) in random order through ONE cache path: every instance must behave like an uncached build of its own request (finding F33, fixed)"""
    from lark import Lark
    from lark.exceptions import UnexpectedInput
    logging.getLogger('lark').setLevel(logging.CRITICAL)
    rng = random.Random(seed)
    d = tempfile.mkdtemp(prefix='larkverif_c12_')
    try:
        main = 'start: X+\n%import .mod.X\n'
        mods = {'A': 'X: "a"\n', 'B': 'X: "b"\n', 'C': 'X: /[ab]/\n'}
        for k, v in mods.items():
            os.mkdir(os.path.join(d, k)); open(os.path.join(d, k, 'main.lark'), 'w').write(main); open(os.path.join(d, k, 'mod.lark'), 'w').write(v)
        cache = os.path.join(d, 'cache.bin')
        def sig(p):
            out = []
            for t in ('a', 'b', 'ab', ''):
                try: p.parse(t); out.append(True)
                except UnexpectedInput: out.append(False)
            return out
        hist, fails = [], []
        for _ in range(rng.randint(2, 6)):
            k = rng.choice('ABC'); how = rng.choice(['open', 'open', 'source_path', 'rel_to'])
            fn = os.path.join(d, k, 'main.lark')
            if how == 'open':
                p = Lark.open(fn, parser='lalr', cache=cache); q = Lark.open(fn, parser='lalr')
            elif how == 'rel_to':
                p = Lark.open('main.lark', rel_to=os.path.join(d, k, 'x.py'), parser='lalr', cache=cache); q = Lark.open(fn, parser='lalr')
            else:
                p = Lark(main, parser='lalr', source_path=fn, cache=cache); q = Lark(main, parser='lalr', source_path=fn)
            hist.append([how, k])
            if sig(p) != sig(q):
                fails.append({'history': list(hist), 'module_of_this_request': mods[k], 'cached_accepts [a, b, ab, empty]': sig(p), 'uncached_accepts': sig(q)}); break
        return {'history': hist, 'fails': fails}
    finally:
        shutil.rmtree(d, ignore_errors=True)


def _f37(w):
    """pinned witness of F37: a cache file written without edit_terminals is served to a request with it"""
    from lark import Lark
    from lark.lexer import PatternRE
    from lark.exceptions import UnexpectedInput
    logging.getLogger('lark').setLevel(logging.CRITICAL)
    d = tempfile.mkdtemp(prefix='larkverif_c12_')
    try:
        fn = os.path.join(d, 'cache.bin')
        def edit(t):
            if t.name == 'WORD':
                t.pattern = PatternRE('[a-z0-9]+')
        def sig(p):
            try: p.parse(w['text']); return 'accepted'
            except UnexpectedInput as e: return type(e).__name__
        Lark(w['grammar'], parser='lalr', cache=fn)
        return [sig(Lark(w['grammar'], parser='lalr', cache=fn, edit_terminals=edit)), sig(Lark(w['grammar'], parser='lalr', edit_terminals=edit))]
    finally:
        shutil.rmtree(d, ignore_errors=True)


def run(ctx, res):
    for f in ctx['known']:
        if f['id'] == 'F37' and f['status'] == 'open':
            (st, got), = pmap(_f37, [f['witness']], procs=1)
            if st == 'ok' and got[1] == 'accepted' and got[0] != 'accepted':
                res.known_hits.append(('F37', '%s: %r, %s: the cached parser answers %s on %r, an uncached build of the same request accepts it' % (f['what'], f['witness']['grammar'], ' ; '.join(f['witness']['history']), got[0], f['witness']['text'])))
            elif st == 'ok' and got[1] != 'accepted':
                res.violation('the pinned witness of F37 behaves in a new way: the uncached build with edit_terminals answers %s' % got[1], dict(f['witness']))
    rng0 = random.Random(ctx['seed'] * 1000003 + 1233)
    pseeds = [rng0.randrange(1 << 30) for _ in range(tier_scale(ctx['tier'], 60, 600))]
    for seed, (st, r) in zip(pseeds, pmap(_same_text_two_places, pseeds, chunksize=4)):
        if st != 'ok':
            if st == 'exc' and not exc_in_lark(r):
                raise InfraError(r)
            res.violation('constructing through the cache raised', {'seed': seed, 'detail': r}); continue
        res.case(['same_text_two_places', r['history']], nontrivial=len(r['history']) > 1)
        res.count('same_text_in_several_places_histories')
        for f in r['fails']:
            res.violation('the same grammar text read from another place (its relative import resolves to another file) is served the cached parser of the first place', f)
    for st, r in pmap(_other_versions, [0], procs=1):
        if st != 'ok':
            if st == 'exc' and not exc_in_lark(r):
                raise InfraError(r)
            res.violation('building with a cache file of another version raised', {'detail': r}); continue
        for what, replaced in r:
            res.case(['other_version', what], nontrivial=True)
            if not replaced:
                res.violation('a cache file written under another %s is served / not replaced (its key line stays)' % what.replace('_', ' '), {'grammar': 'start: "a"+', 'simulated': what})
    rng = random.Random(ctx['seed'] * 1000003 + 12)
    N = tier_scale(ctx['tier'], 400, 5000) * (3 if ctx['deepen'] else 1)
    jobs = [(rng.randrange(1 << 30), rng.randint(4, 12)) for _ in range(N)]
    for f in ctx['known']:
        if f['id'] == 'F5' and f['status'] == 'open':
            (st, hit), = pmap(_f5, [None], procs=1)
            if st == 'ok' and hit:
                res.known_hits.append(('F5', f['what'] + ' (grammar \'start: "a"+\', the pickled terminal value "a" overwritten by "b": the served parser accepts "b")'))
    # ---- corruption sweep: every offset of a real cache file x a few byte values
    vals = [0x80, 0xff, -1] if ctx['tier'] == 'quick' else [0x00, 0x7f, 0x80, 0xff, -1, 0x2e, 0x4e]
    sweep_jobs = []
    for gi, oi in ([(0, 0)] if ctx['tier'] == 'quick' else [(0, 0), (3, 4), (2, 1)]):
        for k in range(16):
            sweep_jobs.append((gi, oi, list(range(k, 6000, 16)), vals))
    for job, (st, r) in zip(sweep_jobs, pmap(_sweep, sweep_jobs, chunksize=1)):
        if st != 'ok':
            res.inconclusive['sweep_' + st] = res.inconclusive.get('sweep_' + st, 0) + 1; continue
        res.count('corrupted_files_loaded', r['tried']); res.count('corruptions_served_silently_F5', r['served_different_behaviour_F5'])
        res.evaluations += r['tried']
        for off, b, err in r['raised']:
            res.violation('Lark(cache=...) raised because of a corrupted cache file', {'grammar': GRAMMARS[job[0]], 'options': OPTS[job[1]], 'byte_offset': off, 'new_value': b, 'error': err, 'file_size': r['size']})
    outs = pmap(_history, jobs, chunksize=2)
    cases, meta = [], []
    for job, (st, rec) in zip(jobs, outs):
        if st != 'ok':
            if st == 'exc':
                if not exc_in_lark(rec):
                    raise InfraError(rec)
                res.violation('a history of cached constructions raised', {'seed': job[0], 'detail': rec})
            else:
                res.inconclusive[st] = res.inconclusive.get(st, 0) + 1
            continue
        cases.append({'op': 'cache', 'ops': rec['ops']}); meta.append((job, rec))
    model = run_driver(cases)
    for (job, rec), m in zip(meta, model):
        if 'error' in m:
            raise InfraError('driver: %s' % m['error'])
        where = {'requests': rec['pool'], 'history': rec['ops'], 'seed': job[0]}
        res.case(['cache', rec['pool'], rec['ops']], nontrivial=any(o['k'] != 'open' for o in rec['ops']),
                 sample=dict(where, file_states=rec['obs']) if len(res.samples) < 2 else None)
        res.count('histories'); res.count('operations', len(rec['ops']))
        for o in rec['ops']:
            res.count('op_' + o['k'])
        for fl in rec['failures']:
            res.violation('Lark(cache=...) raised because of the file\'s content' if fl['kind'] == 'raised' else 'a cached construction does not behave like an uncached build of its own grammar/options/imports',
                          dict(where, detail=fl))
        # file state after every operation: absent / undecodable / complete file for request r
        for k, (step, obs) in enumerate(zip(m['steps'], rec['obs'])):
            mf = step['file']
            want = mf if isinstance(mf, str) else ['good', mf['hdr']]
            if want != obs:
                res.violation('after operation %d the cache file is %s, the verified state machine says %s (a stale or damaged file must be replaced by a valid one)' % (k, obs, want), where)
                break
