"""C20 — the parse forest (ambiguity='forest') encodes exactly the derivations."""
import json
from common import exc_in_lark, InfraError
import forestlib


def problems(res, jobs, outs, what):
    for job, (st, rec) in zip(jobs, outs):
        if st != 'ok':
            if st == 'exc':
                if not exc_in_lark(rec):
                    raise InfraError(rec)
                res.violation('%s raised an unexpected exception' % what, {'grammar': job[0], 'seed': job[1], 'detail': rec})
            else:
                res.inconclusive[st] = res.inconclusive.get(st, 0) + 1
            continue
        yield job, rec



# ---- terminals that may contain the ignored characters (dynamic lexers): every tree the forest encodes must be a *tiling* of the input —
# tokens in order, disjoint, each matching its terminal, every gap made of ignored text.  (The brute-force derivation oracle above works on single-character tokens.)
TILE_TERMS = ['/a ?/', '/ *b/', '/a+/', '/[ab]+ ?/', '/ ?c/', '/b+/', '/a[ a]*/', '/c/', '/a(bc)?/', '/c(ab)?/', '/b+(cb+)?/']     # the last three: a proper prefix of a match may match only partially
TILE_FIXED = ['start: A B\nA: /a ?/\nB: / *b/\n%ignore / +/\n', 'start: (A | B)+\nA: /a+ ?/\nB: / ?b+/\n%ignore / +/\n', 'start: x+\nx: A | A B\nA: /a[ a]*/\nB: /b/\n%ignore " "\n']


def _tile_case(seed):
    import re, random, json
    from lark import Lark, Token, Tree
    from lark.exceptions import UnexpectedInput, LarkError
    from lark.parsers.earley_forest import TreeForestTransformer
    import forestlib
    from common import guarded, Timeout
    rng = random.Random(seed)
    if rng.random() < 0.3:
        g = rng.choice(TILE_FIXED)
    else:
        ts = rng.sample(TILE_TERMS, rng.randint(2, 3))
        names = ['T%d' % i for i in range(len(ts))]
        body = rng.choice(['start: %s' % ' '.join(names), 'start: (%s)+' % ' | '.join(names), 'start: x+\nx: %s | %s %s' % (names[0], names[0], names[1]), 'start: x %s?\nx: %s | x %s' % (names[-1], names[0], names[1])])
        g = body + '\n' + ''.join('%s: %s\n' % kv for kv in zip(names, ts)) + rng.choice(['%ignore / +/\n', '%ignore " "\n'])
    out = {'grammar': g, 'fails': [], 'trees': 0, 'inputs': 0}
    for lexer in ('dynamic', 'dynamic_complete'):
        try:
            with guarded(6):
                pe = Lark(g, parser='earley', lexer=lexer, ambiguity='explicit')
                pf = Lark(g, parser='earley', lexer=lexer, ambiguity='forest')
        except (LarkError, Timeout):
            continue
        pats = {t.name: re.compile(t.pattern.to_regexp()) for t in pe.terminals}
        ign = [pats[n] for n in pe.ignore_tokens]
        def ignorable(s):
            # the gap is a concatenation of ignored matches
            ok = {0}
            for i in range(len(s)):
                if i in ok:
                    for r in ign:
                        for j in range(i + 1, len(s) + 1):
                            if r.fullmatch(s, i, j): ok.add(j)
            return len(s) in ok
        for _ in range(5):
            text = ''.join(rng.choice(['a', 'b', 'c', ' ', ' ', 'a ', ' b', '  ', 'abc', 'cab', 'bcb']) for _ in range(rng.randint(1, 6)))
            try:
                with guarded(6):
                    t = pe.parse(text)
                    trees = forestlib.expand_ambig(t)[:300]
                    root = pf.parse(text)
                    trees += forestlib.expand_ambig(TreeForestTransformer(resolve_ambiguity=False).transform(root))[:300]
            except (UnexpectedInput, Timeout):
                continue
            out['inputs'] += 1
            for tr in trees:
                out['trees'] += 1
                toks = [x for x in tr.scan_values(lambda v: isinstance(v, Token))] if isinstance(tr, Tree) else []
                # anonymous/filtered tokens are not in the tree: with named, kept terminals only (as generated) the tree holds them all
                pos, bad = 0, None
                for tk in toks:
                    if tk.start_pos < pos:
                        bad = 'token %r at %d..%d overlaps the text before offset %d already covered' % (str(tk), tk.start_pos, tk.end_pos, pos); break
                    if not ignorable(text[pos:tk.start_pos]):
                        bad = 'the gap %r before token %r is not ignored text' % (text[pos:tk.start_pos], str(tk)); break
                    if text[tk.start_pos:tk.end_pos] != str(tk) or not pats[tk.type].fullmatch(str(tk)):
                        bad = 'token %r does not match its terminal at its position' % str(tk); break
                    pos = tk.end_pos
                if bad is None and not ignorable(text[pos:]):
                    bad = 'the rest %r after the last token is not ignored text' % text[pos:]
                if bad:
                    out['fails'].append({'lexer': lexer, 'text': text, 'why': bad, 'tokens': [[tk.type, str(tk), tk.start_pos, tk.end_pos] for tk in toks]})
                    break
            if out['fails']:
                return out
    return out


def run(ctx, res):
    for f in ctx['known']:
        if f['id'] == 'F14' and f['status'] == 'fixed':
            from lark import Lark
            w = f['witness']
            root = Lark(w['grammar'], parser='earley', lexer=w['lexer'], ambiguity='forest').parse(w['text'])
            if root.is_ambiguous:
                res.violation('regression of fixed finding F14: ' + f['what'], w)
    for f in ctx['known']:
        if f['id'] == 'F20' and f['status'] == 'open':
            from lark import Lark
            w = f['witness']
            if Lark(w['grammar'], parser='earley', lexer=w['lexer'], ambiguity='forest').parse(w['text']).is_ambiguous:
                res.known_hits.append(('F20', '%s: %r on %r has one derivation, root.is_ambiguous is True' % (f['what'], w['grammar'], w['text'])))
    jobs, outs = forestlib.forest_stream(ctx, 20, {'c20'}, 3000, 25000, prio=True)
    # ---- soundness certificate: the exported SPPF of every real forest is checked by the verified local checker ForestCert.checkForest
    # (theorem certified_forest_encodes_only_parses: a certified forest encodes only parses, however many trees it holds, cyclic or not)
    if ctx['driver_ok']:
        from common import run_driver_parallel
        ccases, cwhere = [], []
        for ji, (st, rec) in enumerate(outs):
            if st != 'ok':
                continue
            for run_ in rec.get('runs', []):
                if run_.get('cert') is not None:
                    ccases.append({k: v for k, v in run_['cert'].items() if k != 'root'}); cwhere.append((rec['grammar'], run_))
                elif run_.get('cert_export_error'):
                    res.count('forest_certificate_not_exported')
        for (g_, run_), m in zip(cwhere, run_driver_parallel(ccases, timeout=900)):
            if 'error' in m:
                raise InfraError('driver forest_cert: %s' % m['error'])
            res.count('forests_certified_sound' if m['ok'] else 'forests_not_certified'); res.count('certified_forest_nodes', len(run_['cert']['nodes']))
            if not m['ok']:
                c = run_['cert']; k, i = m['bad'][0]
                res.corr_break('the real forest fails the soundness certificate ForestCert.checkForest (theorem certified_forest_encodes_only_parses no longer applies to it)',
                               {'grammar': g_, 'text': run_['text'], 'lexer': run_['lexer'], 'node [kind, a, b, start, end]': c['nodes'][k], 'family [rule, left, right]': c['fams'][k][i],
                                'left_node': c['nodes'][c['fams'][k][i][1]] if c['fams'][k][i][1] is not None else None,
                                'right_node': c['nodes'][c['fams'][k][i][2][1]] if c['fams'][k][i][2] and c['fams'][k][i][2][0] == 0 else None,
                                'rule': c['rules'][c['fams'][k][i][0]], 'failing_families': len(m['bad'])})
    # ---- the walk itself: the Lean model of ForestVisitor.visit (ForestVisit.lean: total on every graph, a proper depth-first walk, single_visit enters
    # no node twice) run on the exported node graph must produce the event sequence the real visitor produced
    if ctx['driver_ok']:
        from common import run_driver_parallel
        vcases, vwhere = [], []
        for ji, (st, rec) in enumerate(outs):
            if st != 'ok':
                continue
            for ri, run_ in enumerate(rec.get('runs', [])):
                for v in run_.get('visit_logs', []):
                    vcases.append({'op': 'forest_visit', 'nodes': v['nodes'], 'kids': v['kids'], 'toks': v['toks'], 'sv': v['sv'], 'root': v['root']})
                    vwhere.append((rec['grammar'], run_['text'], run_['lexer'], v))
        for (g_, text_, lexer_, v), m in zip(vwhere, run_driver_parallel(vcases, timeout=900)):
            res.count('walks_replayed_on_the_lean_model'); res.count('walk_events', len(v['events']))
            res.count('walks_with_on_cycle', 1 if any(e[0] == 3 for e in v['events']) else 0)
            if 'error' in m:
                raise InfraError('driver forest_visit: %s' % m['error'])
            if m['events'] != v['events']:
                k = next((i for i, (a, b) in enumerate(zip(m['events'], v['events'])) if a != b), min(len(m['events']), len(v['events'])))
                info = {'grammar': g_, 'text': text_, 'lexer': lexer_, 'single_visit': v['sv'], 'first_difference_at_event': k,
                        'model': m['events'][max(0, k - 3):k + 3], 'code': v['events'][max(0, k - 3):k + 3], 'graph': {'kids': v['kids'], 'toks': v['toks'], 'root': v['root']}}
                # is the real sequence still a proper depth-first walk?  (replayed independently: enter only off-path, leave innermost, cycle only on-path)
                path, ok = [], True
                for kind, n in v['events']:
                    if kind == 0:
                        ok = ok and n not in path; path.append(n)
                    elif kind == 1:
                        ok = ok and bool(path) and path[-1] == n
                        if path: path.pop()
                    elif kind == 3:
                        ok = ok and n in path
                seen_in = [n for kind, n in v['events'] if kind == 0]
                if not ok or path or (v['sv'] and len(seen_in) != len(set(seen_in))):
                    res.violation('ForestVisitor.visit is not a proper depth-first walk of the forest (a node entered while on the path, unbalanced in/out, on_cycle for a node off the path, or a node entered twice under single_visit)', info)
                else:
                    res.corr_break('ForestVisitor.visit: event sequence differs from the Lean model VisitProto.visit (theorems visit_is_depth_first, single_visit_enters_once)', info)
    for job, rec in problems(res, jobs, outs, 'building/walking the forest'):
        if 'gerr' in rec:
            res.count('grammar_error'); continue
        g = rec['grammar']
        for run_ in rec['runs']:
            where = {'grammar': g, 'text': run_['text'], 'lexer': run_['lexer'], 'maybe_placeholders': rec['maybe_placeholders']}
            if run_.get('forest_timeout'):
                if len(run_['text'].split()) <= 4:
                    res.violation('a forest walk (visitor/transformer) did not terminate within 8 s on a forest of at most 4 tokens', where)
                else:
                    # exponentially many trees are slow, not non-terminating: inconclusive
                    res.inconclusive['forest_timeout_large_input'] = res.inconclusive.get('forest_timeout_large_input', 0) + 1
                continue
            if 'forest_accept' not in run_:
                continue
            if run_.get('walk_loops'):
                res.violation('a forest walk is not a proper depth-first walk with cycle reporting (node re-entered while on the path, out without in, or on_cycle for a node not on the path)', dict(where, walkers=run_['walk_loops'])); continue
            if run_.get('walk_slow'):
                res.inconclusive['walk_slower_than_2s_no_loop_seen'] = res.inconclusive.get('walk_slower_than_2s_no_loop_seen', 0) + 1; continue
            nd = run_.get('nderivs')
            res.case(['c20', g, run_['text'], run_['lexer']], nontrivial=bool(nd and nd > 1) or not rec['acyclic'],
                     sample=dict(where, derivations=nd, forest_nodes=run_.get('graph_nodes'), is_ambiguous=run_.get('is_ambiguous')) if nd and nd > 1 and len(res.samples) < 3 else None)
            res.count('lexer_' + run_['lexer']); res.count('acyclic' if rec['acyclic'] else 'cyclic')
            if rec['acyclic'] and run_.get('cycles_reported', 0):
                res.violation('on_cycle was called %d times on the forest of a grammar without derivation cycles' % run_['cycles_reported'], where); continue
            if not rec['acyclic'] and run_['forest_accept']:
                res.count('cyclic_forests_walked'); res.count('cycles_reported', run_.get('cycles_reported', 0))
            if nd is None:
                res.count('no_enumeration'); continue
            if run_['forest_accept'] != (nd > 0):
                res.violation('forest mode %s the input although it has %d derivations' % ('accepts' if run_['forest_accept'] else 'rejects', nd), where); continue
            if nd == 0:
                res.count('rejected'); continue
            res.count('accepted'); res.count('ambiguous' if nd > 1 else 'unambiguous')
            if 'forest_trees' in run_:
                got, want = run_['forest_trees'], run_['unshaped']
                if sorted(set(got)) != want:
                    missing = [x for x in want if x not in got][:2]; extra = [x for x in set(got) if x not in want][:2]
                    res.violation('the trees the forest encodes (TreeForestTransformer(resolve_ambiguity=False), _ambig expanded) are not exactly the derivations of the input',
                                  dict(where, derivations=len(want), forest_trees=len(set(got)), missing=missing, not_a_derivation=extra)); continue
                if len(got) != len(set(got)):
                    # the property speaks of the *set* of trees; a derivation encoded twice (dynamic lexer: a completed start item carried over %ignore
                    # re-completes a left-recursive parent) is counted, not reported
                    res.count('inputs_with_a_derivation_encoded_twice')
            if run_['forest_one'] not in run_['unshaped']:
                res.violation('TreeForestTransformer(resolve_ambiguity=True) returns a tree that is not a derivation of the input', dict(where, tree=run_['forest_one'])); continue
            if nd == 1 and run_['is_ambiguous']:
                f20 = [f for f in ctx['known'] if f['id'] == 'F20' and f['status'] == 'open']
                import re as _re
                recursive_start = any(_re.search(r'\bstart\b', line.split(':', 1)[1]) for line in g.split('\n') if ':' in line and not line.startswith(('A', 'B', '%')))
                if f20 and run_['lexer'] != 'basic' and recursive_start:
                    res.count('skipped_region_of_F20')     # dynamic lexer + %ignore + recursive start symbol: known finding, pinned witness below
                else:
                    res.violation('single derivation but root.is_ambiguous is True', where)
    # ---- tiling of every encoded tree, terminals that may contain ignored characters
    from common import pmap, tier_scale
    import random as _r
    rng2 = _r.Random(ctx['seed'] * 1000003 + 2020)
    seeds = [rng2.randrange(1 << 30) for _ in range(tier_scale(ctx['tier'], 1500, 15000) * (3 if ctx['deepen'] else 1))]
    for seed, (st, rec) in zip(seeds, pmap(_tile_case, seeds, chunksize=8)):
        if st != 'ok':
            if st == 'exc':
                if not exc_in_lark(rec):
                    raise InfraError(rec)
                res.violation('parsing raised an unexpected exception', {'seed': seed, 'detail': rec})
            else:
                res.inconclusive[st] = res.inconclusive.get(st, 0) + 1
            continue
        res.case(['tile', rec['grammar'], seed], nontrivial=rec['trees'] > 1, sample=None)
        res.count('tiling_grammars'); res.count('tiling_inputs', rec['inputs']); res.count('tiling_trees', rec['trees'])
        for f in rec['fails']:
            res.violation('a tree encoded by the forest is not a tiling of the input (tokens overlap, or a gap is not ignored text)', dict(f, grammar=rec['grammar']))
    # ---- completeness under dynamic_complete with regexp terminals: the forest against the lattice-level derivation oracle (C04's third stream, forest mode)
    from props.c04 import _lattice_case
    import functools
    rng4 = _r.Random(ctx['seed'] * 1000003 + 2024)
    seeds4 = [rng4.randrange(1 << 30) for _ in range(tier_scale(ctx['tier'], 500, 7000) * (3 if ctx['deepen'] else 1))]
    for seed, (st, rec) in zip(seeds4, pmap(functools.partial(_lattice_case, mode='forest'), seeds4, chunksize=4)):
        if st != 'ok':
            if st == 'exc':
                if not exc_in_lark(rec):
                    raise InfraError(rec)
                res.violation('parsing with dynamic_complete raised an unexpected exception', {'seed': seed, 'detail': rec})
            else:
                res.inconclusive[st] = res.inconclusive.get(st, 0) + 1
            continue
        if rec.get('nobuild') or rec.get('cyclic'):
            continue
        for run_ in rec['runs']:
            if 'skipped' in run_:
                continue
            res.case(['lattice_forest', rec['grammar'], run_['text']], nontrivial=run_['nderivs'] > 1, sample=None)
            res.count('lattice_forest_inputs'); res.count('lattice_forest_ambiguous', 1 if run_['nderivs'] > 1 else 0)
            if 'missing' in run_:
                res.violation('dynamic_complete: the trees the forest encodes are not exactly the derivations of the character lattice (ambiguity inside terminals included)',
                              {'grammar': rec['grammar'], 'text': run_['text'], 'derivations': run_['nderivs'], 'missing': run_['missing'], 'not_a_derivation': run_['extra']})
            elif run_['nderivs'] == 1 and run_.get('is_ambiguous') and '%ignore' not in rec['grammar']:
                res.violation('single derivation but root.is_ambiguous is True', {'grammar': rec['grammar'], 'text': run_['text']})
