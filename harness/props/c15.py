"""C15 — input representation does not matter: str, bytes and TextSlice agree."""
import random, json
from common import pmap, run_driver_parallel, guarded, Timeout, tier_scale, exc_in_lark, InfraError
import gen, lalrlib, earleylib

CONFIGS = [('lalr', 'basic'), ('lalr', 'contextual'), ('earley', 'basic'), ('earley', 'dynamic'), ('earley', 'dynamic_complete'), ('cyk', 'basic')]


def canon(t, shift=0):
    """tree shape, token types/values and offsets (shifted); line/column are checked separately against the model"""
    from lark import Tree, Token
    if isinstance(t, Tree):
        m = t.meta
        meta = None if m.empty else [m.start_pos - shift, m.end_pos - shift]
        return ['T', str(t.data), meta, [canon(c, shift) for c in t.children]]
    if isinstance(t, Token):
        v = t.value.decode('latin-1') if isinstance(t.value, bytes) else t.value
        return ['t', t.type, v, t.start_pos - shift, t.end_pos - shift]
    return None


def toks_of(t, out):
    from lark import Tree, Token
    if isinstance(t, Tree):
        for c in t.children: toks_of(c, out)
    elif isinstance(t, Token):
        out.append([t.start_pos, t.line, t.column, t.end_pos, t.end_line, t.end_column])
    return out


def metas_of(t, out):
    from lark import Tree
    if isinstance(t, Tree):
        m = t.meta
        if not m.empty:
            out.append([m.start_pos, m.line, m.column, m.end_pos, m.end_line, m.end_column])
        for c in t.children: metas_of(c, out)
    return out


def outcome(p, data, shift=0):
    from lark.exceptions import UnexpectedInput, UnexpectedCharacters, UnexpectedToken, UnexpectedEOF, ParseError
    try:
        with guarded(8):
            t = p.parse(data)
        return {'ok': True, 'tree': canon(t, shift), 'toks': toks_of(t, []), 'metas': metas_of(t, [])}
    except UnexpectedCharacters as e:
        return {'ok': False, 'err': 'UnexpectedCharacters', 'pos': e.pos_in_stream - shift, 'lc': [e.line, e.column]}
    except UnexpectedToken as e:
        if e.token.type == '$END':
            return {'ok': False, 'err': 'UnexpectedToken', 'pos': '$END'}
        return {'ok': False, 'err': 'UnexpectedToken', 'pos': e.token.start_pos - shift, 'lc': [e.line, e.column]}
    except UnexpectedEOF:
        return {'ok': False, 'err': 'UnexpectedEOF'}
    except ParseError:
        return {'ok': False, 'err': 'ParseError'}


def _case(args):
    g, seed, cfgs = args
    from lark import Lark
    from lark.utils import TextSlice
    from lark.exceptions import LarkError
    rng = random.Random(seed)
    recs = []
    for parser, lexer in cfgs:
        try:
            with guarded(6):
                ps = Lark(g, parser=parser, lexer=lexer, propagate_positions=True)
                pb = Lark(g, parser=parser, lexer=lexer, propagate_positions=True, use_bytes=True)
        except (LarkError, Timeout):
            recs.append({'cfg': [parser, lexer], 'nobuild': True}); continue
        for _ in range(3):
            s = earleylib.sample_sentence(rng, ps) if rng.random() < 0.6 else None
            if s is None or len(s) > 14:
                s = ''.join(rng.choice('abc \n') for _ in range(rng.randint(0, 8)))
            elif rng.random() < 0.3 and s:
                k = rng.randrange(len(s)); s = s[:k] + rng.choice('abc\n') + s[k + 1:]
            pre = ''.join(rng.choice('ab \n\n') for _ in range(rng.randint(0, 6)))
            suf = ''.join(rng.choice('ab \n') for _ in range(rng.randint(0, 4)))
            buf = pre + s + suf
            a, b = len(pre), len(pre) + len(s)
            rec = {'cfg': [parser, lexer], 'text': s, 'buffer': buf, 'window': [a, b]}
            rec['str'] = outcome(ps, s)
            rec['bytes'] = outcome(pb, s.encode('ascii'))
            if not lexer.startswith('dynamic'):
                rec['slice'] = outcome(ps, TextSlice(buf, a, b), shift=a)
                rec['slice_bytes'] = outcome(pb, TextSlice(buf.encode('ascii'), a, b), shift=a)
            recs.append(rec)
    return {'grammar': g, 'recs': recs}


def run(ctx, res):
    rng = random.Random(ctx['seed'] * 1000003 + 15)
    N = tier_scale(ctx['tier'], 500, 9000) * (3 if ctx['deepen'] else 1)
    jobs = []
    for i in range(N):
        g = earleylib.gen_cfg(rng, regex_terms=True, ignore_p=0.5).replace('" "', '/[ \\n]/').replace('/ +/', '/[ \\n]+/')
        cfgs = CONFIGS if i % 4 == 0 else [CONFIGS[i % 6], CONFIGS[(i + 2) % 6]]
        jobs.append((g, rng.randrange(1 << 30), cfgs))
    outs = pmap(_case, jobs, chunksize=4)
    stamps, meta = [], []
    for job, (st, rec) in zip(jobs, outs):
        if st != 'ok':
            if st == 'exc':
                if not exc_in_lark(rec):
                    raise InfraError(rec)
                res.violation('parse raised an unexpected exception for one representation', {'grammar': job[0], 'seed': job[1], 'detail': rec})
            else:
                res.inconclusive[st] = res.inconclusive.get(st, 0) + 1
            continue
        g = rec['grammar']
        for r in rec['recs']:
            if r.get('nobuild'):
                res.count('nobuild_%s_%s' % tuple(r['cfg'])); continue
            where = {'grammar': g, 'config': r['cfg'], 'text': r['text'], 'buffer': r['buffer'], 'window': r['window']}
            base = r['str']
            res.case(['c15', g, r['cfg'], r['buffer'], r['window']], nontrivial=len(r['text']) > 0 and r['window'][0] > 0,
                     sample=dict(where, result=base) if base['ok'] and '\n' in r['buffer'][:r['window'][0]] and len(res.samples) < 3 else None)
            res.count('cfg_%s_%s' % tuple(r['cfg'])); res.count('accepted' if base['ok'] else 'rejected_' + base['err'])
            for rep in ('bytes', 'slice', 'slice_bytes'):
                if rep not in r:
                    continue
                other = r[rep]
                res.count('compared_' + rep)
                keys = ['ok', 'tree'] if base['ok'] else ['ok', 'err', 'pos']
                if any(base.get(k) != other.get(k) for k in keys):
                    res.violation('str and %s disagree (tree shape, token types/values/offsets, or error class/position)' % rep, dict(where, str={k: base.get(k) for k in keys}, other={k: other.get(k) for k in keys}))
                    continue
                if rep == 'bytes' and (base.get('toks') != other.get('toks') or base.get('metas') != other.get('metas') or base.get('lc') != other.get('lc')):
                    res.violation('str and bytes disagree on line/column', dict(where, str=base.get('toks'), bytes=other.get('toks')))
                    continue
                if rep.startswith('slice'):
                    # line/column of a window are those of the underlying buffer: ask the verified model
                    spans = [[t[0], t[3]] for t in other.get('toks', [])] + [[m[0], m[3]] for m in other.get('metas', [])]
                    got = other.get('toks', []) + other.get('metas', [])
                    if 'lc' in other and other['pos'] != '$END':
                        spans.append([other['pos'] + r['window'][0], other['pos'] + r['window'][0]]); got = got + [[other['pos'] + r['window'][0]] + other['lc'] + [None, None, None]]
                    if spans:
                        stamps.append({'op': 'dyn_stamps' if r['cfg'][1].startswith('dynamic') else 'stamps', 'text': r['buffer'], 'spans': spans}); meta.append((where, rep, got))
    model = run_driver_parallel(stamps)
    for (where, rep, got), m in zip(meta, model):
        for g_, m_ in zip(got, m):
            ok = g_[:3] == m_[:3] and (g_[3] is None or g_[3:] == m_[3:])
            if not ok:
                res.violation('%s: positions are not the offsets/lines/columns of the underlying buffer' % rep, dict(where, got=g_, buffer_coordinates=m_)); break
