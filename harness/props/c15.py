"""C15 — input representation does not matter: str, bytes and TextSlice agree."""
import random, json
from common import pmap, run_driver_parallel, guarded, Timeout, tier_scale, exc_in_lark, InfraError
import gen, lalrlib, earleylib

CONFIGS = [('lalr', 'basic'), ('lalr', 'contextual'), ('earley', 'basic'), ('earley', 'dynamic'), ('earley', 'dynamic_complete'), ('cyk', 'basic')]


def canon(t, shift=0):
    """tree shape, token types/values and offsets (shifted); line/column are checked separately against the model"""
    from lark import Tree, Token
    if isinstance(t, Tree):
        m = t.meta
        meta = None if m.empty else [m.start_pos - shift, m.end_pos - shift]
        return ['T', str(t.data), meta, [canon(c, shift) for c in t.children]]
    if isinstance(t, Token):
        v = t.value.decode('latin-1') if isinstance(t.value, bytes) else t.value
        return ['t', t.type, v, t.start_pos - shift, t.end_pos - shift]
    return None


def toks_of(t, out):
    from lark import Tree, Token
    if isinstance(t, Tree):
        for c in t.children: toks_of(c, out)
    elif isinstance(t, Token):
        out.append([t.start_pos, t.line, t.column, t.end_pos, t.end_line, t.end_column])
    return out


def metas_of(t, out):
    from lark import Tree
    if isinstance(t, Tree):
        m = t.meta
        if not m.empty:
            out.append([m.start_pos, m.line, m.column, m.end_pos, m.end_line, m.end_column])
        for c in t.children: metas_of(c, out)
    return out


def outcome(p, data, shift=0, skip_chars=False):
    from lark.exceptions import UnexpectedInput, UnexpectedCharacters, UnexpectedToken, UnexpectedEOF, ParseError
    try:
        with guarded(8):
            if skip_chars:
                # error recovery: unmatched characters are skipped (on_error returns True for them), anything else is re-raised
                t = p.parse(data, on_error=lambda e: isinstance(e, UnexpectedCharacters))
            else:
                t = p.parse(data)
        return {'ok': True, 'tree': canon(t, shift), 'toks': toks_of(t, []), 'metas': metas_of(t, [])}
    except UnexpectedCharacters as e:
        return {'ok': False, 'err': 'UnexpectedCharacters', 'pos': e.pos_in_stream - shift, 'lc': [e.line, e.column]}
    except UnexpectedToken as e:
        if e.token.type == '$END':
            return {'ok': False, 'err': 'UnexpectedToken', 'pos': '$END'}
        return {'ok': False, 'err': 'UnexpectedToken', 'pos': e.token.start_pos - shift, 'lc': [e.line, e.column]}
    except UnexpectedEOF:
        return {'ok': False, 'err': 'UnexpectedEOF'}
    except ParseError:
        return {'ok': False, 'err': 'ParseError'}


def _case(args):
    g, seed, cfgs = args
    from lark import Lark
    from lark.utils import TextSlice
    from lark.exceptions import LarkError
    rng = random.Random(seed)
    recs = []
    for parser, lexer in cfgs:
        try:
            with guarded(6):
                ps = Lark(g, parser=parser, lexer=lexer, propagate_positions=True)
                pb = Lark(g, parser=parser, lexer=lexer, propagate_positions=True, use_bytes=True)
        except (LarkError, Timeout):
            recs.append({'cfg': [parser, lexer], 'nobuild': True}); continue
        for _ in range(3):
            s = earleylib.sample_sentence(rng, ps) if rng.random() < 0.6 else None
            if s is None or len(s) > 14:
                s = ''.join(rng.choice('abc \n') for _ in range(rng.randint(0, 8)))
            elif rng.random() < 0.3 and s:
                k = rng.randrange(len(s)); s = s[:k] + rng.choice('abc\n') + s[k + 1:]
            pre = ''.join(rng.choice('ab \n\n') for _ in range(rng.randint(0, 6)))
            suf = ''.join(rng.choice('ab \n') for _ in range(rng.randint(0, 4)))
            buf = pre + s + suf
            a, b = len(pre), len(pre) + len(s)
            rec = {'cfg': [parser, lexer], 'text': s, 'buffer': buf, 'window': [a, b]}
            rec['str'] = outcome(ps, s)
            rec['bytes'] = outcome(pb, s.encode('ascii'))
            if not lexer.startswith('dynamic'):
                ts_, tb_ = TextSlice(buf, a, b), TextSlice(buf.encode('ascii'), a, b)
                if rng.random() < 0.5:
                    # the same window OBJECT parsed before (a TextSlice is a value: using it must not change it)
                    outcome(ps, ts_, shift=a); outcome(pb, tb_, shift=a); rec['window_object_used_before'] = True
                rec['slice'] = outcome(ps, ts_, shift=a)
                rec['slice_bytes'] = outcome(pb, tb_, shift=a)
            recs.append(rec)
            if parser == 'lalr' and rng.random() < 0.5:
                # the same through on_error recovery over junk characters
                k = rng.randint(0, len(s)); s2 = s[:k] + rng.choice(['?', '??', '?\n?']) + s[k:]
                buf2 = pre + s2 + suf; b2 = a + len(s2)
                rec2 = {'cfg': [parser, lexer], 'text': s2, 'buffer': buf2, 'window': [a, b2], 'on_error': 'skip unmatched characters'}
                rec2['str'] = outcome(ps, s2, skip_chars=True)
                rec2['bytes'] = outcome(pb, s2.encode('ascii'), skip_chars=True)
                rec2['slice'] = outcome(ps, TextSlice(buf2, a, b2), shift=a, skip_chars=True)
                rec2['slice_bytes'] = outcome(pb, TextSlice(buf2.encode('ascii'), a, b2), shift=a, skip_chars=True)
                recs.append(rec2)
    return {'grammar': g, 'recs': recs}


def _custom_lexer_case(seed):
    """lexers that do not understand TextSlice (custom lexer classes of interface 0 and 1): a window is either refused (TypeError) or, when it is the
    whole buffer, parsed like the plain text — never silently parsed as something else"""
    from lark import Lark, Token
    from lark.lexer import Lexer
    from lark.utils import TextSlice
    from lark.exceptions import UnexpectedInput
    rng = random.Random(seed)
    class L0(Lexer):
        __future_interface__ = 0
        def __init__(self, conf): pass
        def lex(self, text):
            pos = 0
            for w in text.split(' '):
                if w: yield Token('W', w, pos)
                pos += len(w) + 1
    class L1(Lexer):
        __future_interface__ = 1
        def __init__(self, conf): pass
        def lex(self, lexer_state, parser_state):
            text = lexer_state.text.text if hasattr(lexer_state.text, 'text') else lexer_state.text
            for w in text.split(' '):
                if w: yield Token('W', w)
    out = []
    for cls in (L0, L1):
        p = Lark('start: W+\n%declare W\n', parser='lalr', lexer=cls)
        for _ in range(6):
            buf = ' '.join(rng.choice(['a', 'bb', 'c']) for _ in range(rng.randint(1, 5)))
            a = rng.choice([0, 0, 0, rng.randint(0, len(buf))]); b = rng.choice([len(buf), rng.randint(a, len(buf))])
            want = [w for w in buf[a:b].split(' ') if w]
            try:
                t = p.parse(TextSlice(buf, a, b))
                got = [str(c) for c in t.children]
            except TypeError:
                got = 'TypeError'
            except UnexpectedInput:
                got = 'rejected'
            ok = got == 'TypeError' and (a, b) != (0, len(buf)) or (got == want) or (got == 'rejected' and not want)
            out.append({'interface': cls.__future_interface__, 'buffer': buf, 'window': [a, b], 'got': got, 'words_in_window': want, 'ok': bool(ok)})
    return out


def run(ctx, res):
    rng = random.Random(ctx['seed'] * 1000003 + 15)
    cl_seeds = [rng.randrange(1 << 30) for _ in range(tier_scale(ctx['tier'], 40, 400))]
    for seed, (st, recs_) in zip(cl_seeds, pmap(_custom_lexer_case, cl_seeds, chunksize=8)):
        if st != 'ok':
            if st == 'exc' and not exc_in_lark(recs_):
                raise InfraError(recs_)
            res.violation('a custom lexer over a TextSlice raised an unexpected exception', {'seed': seed, 'detail': recs_}); continue
        for r in recs_:
            res.case(['custom_lexer', r['interface'], r['buffer'], r['window']], nontrivial=r['window'] != [0, len(r['buffer'])])
            res.count('custom_lexer_windows')
            if not r['ok']:
                res.violation('a lexer that does not support TextSlice was handed a window and the result is neither a TypeError nor the parse of the window', r)
    N = tier_scale(ctx['tier'], 500, 9000) * (3 if ctx['deepen'] else 1)
    jobs = []
    for i in range(N):
        g = earleylib.gen_cfg(rng, regex_terms=True, ignore_p=0.5).replace('" "', '/[ \\n]/').replace('/ +/', '/[ \\n]+/')
        cfgs = CONFIGS if i % 4 == 0 else [CONFIGS[i % 6], CONFIGS[(i + 2) % 6]]
        jobs.append((g, rng.randrange(1 << 30), cfgs))
    outs = pmap(_case, jobs, chunksize=4)
    stamps, meta = [], []
    for job, (st, rec) in zip(jobs, outs):
        if st != 'ok':
            if st == 'exc':
                if not exc_in_lark(rec):
                    raise InfraError(rec)
                res.violation('parse raised an unexpected exception for one representation', {'grammar': job[0], 'seed': job[1], 'detail': rec})
            else:
                res.inconclusive[st] = res.inconclusive.get(st, 0) + 1
            continue
        g = rec['grammar']
        for r in rec['recs']:
            if r.get('nobuild'):
                res.count('nobuild_%s_%s' % tuple(r['cfg'])); continue
            where = {'grammar': g, 'config': r['cfg'], 'text': r['text'], 'buffer': r['buffer'], 'window': r['window']}
            base = r['str']
            res.case(['c15', g, r['cfg'], r['buffer'], r['window']], nontrivial=len(r['text']) > 0 and r['window'][0] > 0,
                     sample=dict(where, result=base) if base['ok'] and '\n' in r['buffer'][:r['window'][0]] and len(res.samples) < 3 else None)
            res.count('cfg_%s_%s' % tuple(r['cfg'])); res.count('accepted' if base['ok'] else 'rejected_' + base['err'])
            for rep in ('bytes', 'slice', 'slice_bytes'):
                if rep not in r:
                    continue
                other = r[rep]
                res.count('compared_' + rep)
                keys = ['ok', 'tree'] if base['ok'] else ['ok', 'err', 'pos']
                if any(base.get(k) != other.get(k) for k in keys):
                    res.violation('str and %s disagree (tree shape, token types/values/offsets, or error class/position)' % rep, dict(where, str={k: base.get(k) for k in keys}, other={k: other.get(k) for k in keys}))
                    continue
                if rep == 'bytes' and (base.get('toks') != other.get('toks') or base.get('metas') != other.get('metas') or base.get('lc') != other.get('lc')):
                    res.violation('str and bytes disagree on line/column', dict(where, str=base.get('toks'), bytes=other.get('toks')))
                    continue
                if rep.startswith('slice'):
                    # line/column of a window are those of the underlying buffer: ask the verified model
                    spans = [[t[0], t[3]] for t in other.get('toks', [])] + [[m[0], m[3]] for m in other.get('metas', [])]
                    got = other.get('toks', []) + other.get('metas', [])
                    if 'lc' in other and other['pos'] != '$END':
                        spans.append([other['pos'] + r['window'][0], other['pos'] + r['window'][0]]); got = got + [[other['pos'] + r['window'][0]] + other['lc'] + [None, None, None]]
                    if spans:
                        stamps.append({'op': 'dyn_stamps' if r['cfg'][1].startswith('dynamic') else 'stamps', 'text': r['buffer'], 'spans': spans}); meta.append((where, rep, got))
    model = run_driver_parallel(stamps)
    for (where, rep, got), m in zip(meta, model):
        for g_, m_ in zip(got, m):
            ok = g_[:3] == m_[:3] and (g_[3] is None or g_[3:] == m_[3:])
            if not ok:
                res.violation('%s: positions are not the offsets/lines/columns of the underlying buffer' % rep, dict(where, got=g_, buffer_coordinates=m_)); break
