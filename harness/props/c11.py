"""C11 — saved, cached and stand-alone parsers behave like the original."""
import random, io, os, json, tempfile, shutil, logging, importlib.util
from common import pmap, run_driver, guarded, Timeout, tier_scale, exc_in_lark, InfraError
import shapelib


def canon(t, Tree, Token):
    if isinstance(t, Tree):
        m = t.meta
        mm = None if getattr(m, 'empty', True) else [m.line, m.column, m.start_pos, m.end_line, m.end_column, m.end_pos]
        return [str(t.data), mm] + [canon(c, Tree, Token) for c in t.children]
    if isinstance(t, Token):
        v = t.value.decode('latin-1') if isinstance(t.value, bytes) else str(t)
        return ['t', t.type, v, t.start_pos, t.line, t.column, t.end_line, t.end_column, t.end_pos]
    return t


def behave(p, texts, ns, use_bytes=False, with_scan=True):
    """parse, interactive parse (token by token) and scan on every text"""
    Tree, Token, UnexpectedInput = ns
    out = []
    for s in texts:
        data = s.encode('latin-1') if use_bytes else s
        try:
            with guarded(5):
                out.append(canon(p.parse(data), Tree, Token))
        except UnexpectedInput as e:
            out.append([type(e).__name__, getattr(e, 'pos_in_stream', None), getattr(e, 'line', None), getattr(e, 'column', None),
                        sorted(getattr(e, 'expected', None) or getattr(e, 'allowed', None) or [])])
        try:
            with guarded(5):
                ip = p.parse_interactive(data)
                steps = []
                for tok in ip.iter_parse():
                    steps.append(sorted(ip.accepts()))
                out.append(['interactive', steps, canon(ip.feed_eof(), Tree, Token)])
        except UnexpectedInput as e:
            out.append(['interactive-error', type(e).__name__, getattr(e, 'pos_in_stream', None)])
        if with_scan:
            try:
                with guarded(5):
                    out.append([[list(m.range), canon(m.value, Tree, Token)] for m in p.scan(data)])
            except UnexpectedInput as e:
                out.append(['scan-error', type(e).__name__])
    return out


def rand_pv(rng, depth=0):
    r = rng.random()
    if depth > 2 or r < 0.3:
        return rng.choice([None, 0, 1, -3, 17, 'a', 'flags', '', 'i'])
    if r < 0.5:
        return [rand_pv(rng, depth + 1) for _ in range(rng.randint(0, 3))]
    if r < 0.7:
        return {'fset': sorted({rng.choice(['i', 's', 'm', 'x', 'u']) for _ in range(rng.randint(0, 3))})}
    ks = rng.sample(['a', 'b', 'value', 'flags', 'name'], rng.randint(0, 3))
    return {'keys': ks, 'vals': [rand_pv(rng, depth + 1) for _ in ks]}


def pv_to_py(v):
    if isinstance(v, dict) and 'fset' in v:
        return frozenset(v['fset'])
    if isinstance(v, dict):
        return {k: pv_to_py(x) for k, x in zip(v['keys'], v['vals'])}
    if isinstance(v, list):
        return [pv_to_py(x) for x in v]
    return v


def py_to_pv(v):
    if isinstance(v, frozenset):
        return {'fset': sorted(v)}
    if isinstance(v, dict):
        return {'keys': list(v.keys()), 'vals': [py_to_pv(x) for x in v.values()]}
    if isinstance(v, list):
        return [py_to_pv(x) for x in v]
    return v


def sort_like(template, x):
    """a list that came out of a frozenset has hash order: sort it (canonicalisation)"""
    if isinstance(template, frozenset) and isinstance(x, list):
        return sorted(x)
    if isinstance(template, dict) and isinstance(x, dict):
        return {k: sort_like(template.get(k), v) for k, v in x.items()}
    if isinstance(template, list) and isinstance(x, list) and len(template) == len(x):
        return [sort_like(t, v) for t, v in zip(template, x)]
    return x


def _ser_case(v):
    from lark.utils import _serialize, _deserialize
    py = pv_to_py(v)
    s = _serialize(py, None)
    return py_to_pv(sort_like(py, s)), py_to_pv(sort_like(py, _deserialize(s, {}, {})))


def _case(args):
    g, seed, do_standalone = args
    from lark import Lark, Tree, Token
    from lark.exceptions import GrammarError, UnexpectedInput, LarkError
    from lark.tools.standalone import gen_standalone
    logging.getLogger('lark').setLevel(logging.CRITICAL)
    rng = random.Random(seed)
    g = g.replace('A: "a"', rng.choice(['A: "a"', 'A: "a"i', 'A: /a+/', 'A.2: "a"', 'A: "a"i']))
    g = g.replace('B: "b"', rng.choice(['B: "b"', 'B: /[b-d]/', 'B: "b" | "bb"', 'B: /[a-z]+/s', 'B: /b/i']))
    use_bytes = rng.random() < 0.15
    opts = dict(keep_all_tokens=rng.random() < 0.2, maybe_placeholders=rng.random() < 0.5, propagate_positions=rng.random() < 0.6,
                lexer=rng.choice(['basic', 'contextual']), use_bytes=use_bytes)
    if rng.random() < 0.2:
        opts['g_regex_flags'] = 2
    try:
        with guarded(8):
            p = Lark(g, parser='lalr', **opts)
    except (GrammarError, LarkError):
        return {'nobuild': True}
    texts = []
    for _ in range(3):
        try:
            texts.append(shapelib.sample_sentence(rng, p))
        except (RecursionError, KeyError):
            pass
    texts += [''.join(rng.choice(['a', 'b', 'c', 'u', 'x', ' ', 'A', 'bb', 'z', 'aa']) for _ in range(rng.randint(0, 6))) for _ in range(3)]
    ns = (Tree, Token, UnexpectedInput)
    ref = behave(p, texts, ns, use_bytes)
    rec = {'grammar': g, 'opts': opts, 'texts': texts, 'diffs': []}
    def compare(name, b, r=ref):
        if b != r:
            i = [k for k in range(len(r)) if k >= len(b) or r[k] != b[k]][0]
            per = len(r) // max(1, len(texts))
            rec['diffs'].append({'variant': name, 'text': texts[i // per] if per else None, 'what': ['parse', 'interactive', 'scan'][i % per] if per == 3 else 'parse', 'original': r[i], 'variant_result': b[i] if i < len(b) else None})
    # ---- the parse table's own re-encoding (ParseTableBase.serialize/deserialize, Enumerator) against the Lean TableSer model
    try:
        from lark.parsers.lalr_analysis import IntParseTable, Shift, Reduce
        from lark.utils import SerializeMemoizer
        from lark.grammar import Rule
        from lark.lexer import TerminalDef
        pt = p.parser.parser._parse_table
        memo = SerializeMemoizer([Rule, TerminalDef])
        data = pt.serialize(memo)
        rid = {id(r): i for r, i in memo.memoized.enums.items()}
        def act(a):
            return [0, a[1]] if a[0] is Shift else [1, rid[id(a[1])]]
        rec['table'] = [[st, [[str(tok), ] + act(a) for tok, a in row.items()]] for st, row in pt.states.items()]
        rec['table_ser'] = {'tokens': [str(data['tokens'][i]) for i in range(len(data['tokens']))],
                            'states': [[st, [[i, a[0], a[1] if a[0] == 0 else a[1]['@']] for i, a in row.items()]] for st, row in data['states'].items()]}
        back = IntParseTable.deserialize(data, {i: r for r, i in memo.memoized.enums.items()})
        rec['table_back_equal'] = (back.states == pt.states and list(back.states) == list(pt.states) and all(list(back.states[k_]) == list(pt.states[k_]) for k_ in pt.states)
                                   and back.start_states == pt.start_states and back.end_states == pt.end_states)
    except AttributeError as e:
        rec['table_export_error'] = repr(e)
    # ---- save / load (with and without load-time options)
    buf = io.BytesIO(); p.save(buf)
    buf.seek(0); compare('Lark.load(save)', behave(Lark.load(buf), texts, ns, use_bytes))
    # ---- cache: second construction is served from the file
    d = tempfile.mkdtemp(prefix='larkverif_c11_')
    try:
        fn = os.path.join(d, 'cache')
        Lark(g, parser='lalr', cache=fn, **opts)
        compare('cache', behave(Lark(g, parser='lalr', cache=fn, **opts), texts, ns, use_bytes))
        # ---- a second, different option set on the same location must not be served the first one
        # (an explicit path inside our temp dir: never cache=True, whose files in the system temp dir would outlive this run)
        fn2 = os.path.join(d, 'cache2')
        for first, second in [(dict(opts, maybe_placeholders=not opts['maybe_placeholders']), opts),
                              ({k: v for k, v in opts.items() if k != 'maybe_placeholders'}, dict(opts, maybe_placeholders=False)),
                              ({k: v for k, v in opts.items() if k != 'keep_all_tokens'}, dict(opts, keep_all_tokens=True))]:
            try:
                if os.path.exists(fn2): os.remove(fn2)
                p2 = Lark(g, parser='lalr', **second)
                Lark(g, parser='lalr', cache=fn2, **first)
                compare('cache: second option set %s after %s on one location' % ({k: second.get(k) for k in ('maybe_placeholders', 'keep_all_tokens')}, {k: first.get(k, 'default') for k in ('maybe_placeholders', 'keep_all_tokens')}),
                        behave(Lark(g, parser='lalr', cache=fn2, **second), texts, ns, use_bytes), behave(p2, texts, ns, use_bytes))
            except (GrammarError, LarkError):
                pass
        # ---- stand-alone module
        if do_standalone and not use_bytes:
            out = io.StringIO(); gen_standalone(p, out=out)
            path = os.path.join(d, 'sa_mod.py'); open(path, 'w').write(out.getvalue())
            spec = importlib.util.spec_from_file_location('sa_mod_%d' % seed, path); mod = importlib.util.module_from_spec(spec)
            spec.loader.exec_module(mod)
            sns = (mod.Tree, mod.Token, mod.UnexpectedInput)
            pref = ref
            # instantiate with load-time options first, then plainly: the module-level data must not remember the first call
            mod.Lark_StandAlone(propagate_positions=not opts['propagate_positions'], g_regex_flags=0 if opts.get('g_regex_flags') else 2)
            sa = mod.Lark_StandAlone()
            compare('standalone', behave(sa, texts, sns, False, with_scan=hasattr(sa, 'scan')), pref if hasattr(sa, 'scan') else [x for k, x in enumerate(pref) if k % 3 != 2])
            rec['standalone'] = True
    finally:
        shutil.rmtree(d, ignore_errors=True)
    return rec


def _import_cache_history(seed):
    """a cached parser whose grammar imports a file: random histories of (construct through the cache | edit the imported file); after every construction
    the cached parser must behave like a direct build of the grammar as it is *now* (parse, interactive, scan)"""
    import tempfile, shutil, os, logging
    from lark import Lark, Tree, Token
    from lark.exceptions import UnexpectedInput
    logging.getLogger('lark').setLevel(logging.CRITICAL)
    rng = random.Random(seed)
    d = tempfile.mkdtemp(prefix='larkverif_c11_')
    try:
        variants = ['item: "a"\n', 'item: "a" | "b" "a"\n', 'item: "b"+\n', 'item: "a" "b"?\n']
        main = '%import .mod.item\nstart: item+\n%ignore " "\n'
        mpath, cpath = os.path.join(d, 'mod.lark'), os.path.join(d, 'cache.bin')
        cur = rng.randrange(len(variants)); open(mpath, 'w').write(variants[cur])
        texts = ['a', 'b a', 'b b', 'a b', 'a a b', '']
        ns = (Tree, Token, UnexpectedInput)
        hist, fails = [], []
        for step in range(rng.randint(3, 8)):
            if rng.random() < 0.4:
                cur = rng.choice([v for v in range(len(variants)) if v != cur]); open(mpath, 'w').write(variants[cur])
                hist.append(['edit', variants[cur]])
            else:
                pc = Lark(main, parser='lalr', source_path=os.path.join(d, 'main.lark'), cache=cpath)
                pd = Lark(main, parser='lalr', source_path=os.path.join(d, 'main.lark'))
                hist.append(['build'])
                if behave(pc, texts, ns) != behave(pd, texts, ns):
                    fails.append({'history': list(hist), 'imported_file_now': variants[cur]})
                    break
        return {'history': hist, 'fails': fails}
    finally:
        shutil.rmtree(d, ignore_errors=True)


def run(ctx, res):
    rng = random.Random(ctx['seed'] * 1000003 + 11)
    # ---- serialisation core vs the Lean model
    pvs = [rand_pv(rng) for _ in range(tier_scale(ctx['tier'], 400, 4000))]
    real = pmap(_ser_case, pvs, chunksize=64)
    model = run_driver([{'op': 'ser', 'v': v} for v in pvs])
    for v, (st, r), m in zip(pvs, real, model):
        res.case(['ser', v], nontrivial='fset' in json.dumps(v))
        res.count('serialize_values')
        if st != 'ok':
            raise InfraError(r)
        if 'error' in m:
            raise InfraError('driver: %s' % m['error'])
        if r[0] != m['ser'] or r[1] != m['round']:
            res.corr_break('_serialize/_deserialize differ from the Lean ser/deser', {'value': v, 'code': r, 'model': m})
    # ---- fixed finding F3 (must pass)
    for f in ctx['known']:
        if f['id'] == 'F3' and f['status'] == 'fixed':
            from lark import Lark
            from lark.exceptions import UnexpectedInput
            w = f['witness']
            p = Lark(w['grammar'], parser='lalr', lexer='basic')
            buf = io.BytesIO(); p.save(buf); buf.seek(0)
            try:
                Lark.load(buf).parse(w['text'])
            except UnexpectedInput:
                res.violation('regression of fixed finding F3: ' + f['what'], w)
    hs = [rng.randrange(1 << 30) for _ in range(tier_scale(ctx['tier'], 120, 1500))]
    for seed, (st, rec) in zip(hs, pmap(_import_cache_history, hs, chunksize=4)):
        if st != 'ok':
            if st == 'exc' and not exc_in_lark(rec):
                raise InfraError(rec)
            res.violation('constructing a cached parser with an imported grammar raised', {'seed': seed, 'detail': rec}); continue
        res.case(['import_cache', rec['history']], nontrivial=len(rec['history']) > 2)
        res.count('import_cache_histories')
        for f in rec['fails']:
            res.violation('a parser restored from the cache does not behave like a direct build of the grammar (the imported file was edited in between)', f)
    N = tier_scale(ctx['tier'], 900, 9000) * (3 if ctx['deepen'] else 1)
    jobs = [(shapelib.gen_grammar(rng), rng.randrange(1 << 30), i % 3 == 0) for i in range(N)]
    outs = pmap(_case, jobs, chunksize=2)
    tcases, twhere = [], []
    for job, (st, rec) in zip(jobs, outs):
        if st != 'ok':
            if st == 'exc':
                if not exc_in_lark(rec):
                    raise InfraError(rec)
                res.violation('save/load/cache/standalone raised an unexpected exception', {'grammar': job[0], 'seed': job[1], 'detail': rec})
            else:
                res.inconclusive[st] = res.inconclusive.get(st, 0) + 1
            continue
        if rec.get('nobuild'):
            res.count('not_lalr'); continue
        res.case(['c11', rec['grammar'], rec['opts'], rec['texts']], nontrivial=True,
                 sample={'grammar': rec['grammar'], 'opts': rec['opts'], 'texts': rec['texts']} if len(res.samples) < 3 else None)
        res.count('grammars'); res.count('texts', len(rec['texts']))
        if rec.get('standalone'): res.count('standalone_modules')
        if rec['opts']['use_bytes']: res.count('bytes_mode')
        for dff in rec['diffs']:
            res.violation('%s does not behave like the original (%s)' % (dff['variant'], dff['what']), {'grammar': rec['grammar'], 'opts': rec['opts'], 'detail': dff})
        if 'table' in rec:
            tcases.append({'op': 'table_ser', 'table': rec['table'], 'enc': rec['table_ser']}); twhere.append(rec)
        elif 'table_export_error' in rec:
            res.count('parse_table_not_exported')
    if ctx['driver_ok'] and tcases:
        from common import run_driver_parallel
        for rec, m in zip(twhere, run_driver_parallel(tcases)):
            res.count('parse_tables_reencoded'); res.count('parse_table_rows', len(rec['table']))
            if 'error' in m:
                raise InfraError('driver table_ser: %s' % m['error'])
            where = {'grammar': rec['grammar'], 'opts': rec['opts']}
            if not rec['table_back_equal']:
                res.violation('ParseTable.deserialize(ParseTable.serialize(t)) is not the parse table t (the saved/cached/stand-alone parser runs on another table)', where)
            elif m['tokens'] != rec['table_ser']['tokens'] or m['states'] != rec['table_ser']['states']:
                res.corr_break('ParseTableBase.serialize differs from the Lean TableSer.serialize (theorem TableSer.roundtrip)', dict(where, model={'tokens': m['tokens'], 'states': m['states'][:3]}, code={'tokens': rec['table_ser']['tokens'], 'states': rec['table_ser']['states'][:3]}))
            elif m['deser_of_code'] != rec['table']:
                res.corr_break('the Lean TableSer.deserialize of the real encoded table is not the real table', where)
