"""C13 — interactive parser: forks independent, accepts() exact, resume equals parse."""
import random, json
from common import pmap, guarded, Timeout, tier_scale, exc_in_lark, InfraError
import shapelib


def canon(t):
    from lark import Tree, Token
    if isinstance(t, Tree):
        m = t.meta
        meta = None if m.empty else [m.start_pos, m.end_pos, m.line, m.column, m.end_line, m.end_column,
                                     getattr(m, 'container_start_pos', None), getattr(m, 'container_end_pos', None)]
        return ['T', str(t.data), meta, [canon(c) for c in t.children]]
    if isinstance(t, Token):
        return ['t', t.type, str(t), t.start_pos, t.end_pos]
    return None if t is None else ['?', repr(t)]


def _case(args):
    g, seed = args
    from lark import Lark, Token
    from lark.exceptions import GrammarError, UnexpectedInput, UnexpectedToken, UnexpectedCharacters, LarkError
    rng = random.Random(seed)
    opts = dict(propagate_positions=rng.random() < 0.7, maybe_placeholders=rng.random() < 0.5, keep_all_tokens=rng.random() < 0.2)
    try:
        with guarded(5):
            p = Lark(g, parser='lalr', lexer='basic', **opts)
    except (GrammarError, LarkError):
        return {'nobuild': True}
    # ---- token sequences sharing prefixes
    try:
        base = shapelib.sample_sentence(rng, p)
    except RecursionError:
        return {'nobuild': True}
    texts = [base]
    words = base.split(' ')
    for _ in range(2):
        w = list(words)
        if w and rng.random() < 0.8:
            k = rng.randrange(len(w)); op = rng.random()
            if op < 0.3: del w[k]
            elif op < 0.6: w.insert(k, rng.choice(['a', 'b', 'c', 'x', 'u']))
            elif op < 0.8: w = w[:k]
            else:
                try: w = w[:k] + shapelib.sample_sentence(rng, p).split(' ')
                except RecursionError: pass
        texts.append(' '.join(w))
    seqs, refs, stexts = [], [], []
    for text in texts:
        try:
            toks = list(p.lex(text))
        except UnexpectedCharacters:
            continue
        try:
            with guarded(4):
                ref = ['ok', canon(p.parse(text))]
        except UnexpectedToken as e:
            idx = len(toks) if e.token.type == '$END' else [i for i, t in enumerate(toks) if t.start_pos == e.token.start_pos][0]
            ref = ['err', idx]
        seqs.append(toks); refs.append(ref); stexts.append(text)
    if not seqs:
        return {'nobuild': True}
    # ---- reference stepper over lark's own table (states only): what feed_token must do to the state stack, errors included —
    # reductions made before the error is noticed stay, the offending token is not consumed
    from lark.parsers.lalr_analysis import Shift
    pt = p.parser.parser._parse_table if hasattr(p.parser.parser, '_parse_table') else p.parser.parser.parser.parse_table
    states, end_state = pt.states, pt.end_states['start']
    def ref_feed(stack, ttype, is_end=False):
        while True:
            try:
                action, arg = states[stack[-1]][ttype]
            except KeyError:
                return 'error'
            if action is Shift:
                stack.append(arg); return 'shift'
            size = len(arg.expansion)
            if size: del stack[-size:]
            stack.append(states[stack[-1]][arg.origin.name][1])
            if is_end and stack[-1] == end_state:
                return 'accept'
    def stack_of(obj):
        return list(obj.parser_state.state_stack)
    # the same table in the Lean driver's format; every real feed_token call is logged as a query (stack before, token, is_end) with what it did
    tnames = sorted({k for row in states.values() for k in row if k.isupper() or k.startswith('$') or k.startswith('_') and k.upper() == k})
    allsyms = sorted({k for row in states.values() for k in row})
    rules_l, ridx = [], {}
    def rix(r):
        if id(r) not in ridx:
            ridx[id(r)] = len(rules_l); rules_l.append(r)
        return ridx[id(r)]
    is_term_name = {}
    for r in p.rules:
        for s_ in r.expansion: is_term_name[s_.name] = s_.is_term
        is_term_name[r.origin.name] = False
    for row in states.values():
        for k, (a_, arg) in row.items():
            if a_ is not Shift:
                rix(arg)
                for s_ in arg.expansion: is_term_name[s_.name] = s_.is_term
                is_term_name[arg.origin.name] = False
    is_term_name['$END'] = True
    tid = {n: i for i, n in enumerate(sorted(n for n in allsyms if is_term_name.get(n, True)))}
    ntid = {n: i for i, n in enumerate(sorted({n for n in allsyms if not is_term_name.get(n, True)} | {r.origin.name for r in rules_l}))}
    qlog = []
    def logq(before, ttype, is_end, status, after):
        if ttype in tid:
            qlog.append([[before, tid[ttype], 1 if is_end else 0], [status, after]])
    def check_stack(c, what):
        if stack_of(c['obj']) != c['ref']:
            failures.append({'kind': 'state_stack', 'cursor': c['id'], 'after': what, 'consumed': [str(t) for t in seqs[c['seq']][:c['k']]], 'state_stack': stack_of(c['obj']), 'reference_stepper': list(c['ref'])})
            return False
        return True
    same_prefix = lambda a, b, k: [(t.type, str(t)) for t in seqs[a][:k]] == [(t.type, str(t)) for t in seqs[b][:k]]
    # ---- the fork tree
    log, failures = [], []
    cursors = []      # dict(obj, seq, k, imm, dead)
    ip = p.parse_interactive(stexts[0])
    cursors.append({'obj': ip, 'seq': 0, 'k': 0, 'imm': False, 'id': 0, 'ref': stack_of(ip), 'errored': False})
    nid = [1]
    def new(obj, c, imm):
        d = {'obj': obj, 'seq': c['seq'], 'k': c['k'], 'imm': imm, 'id': nid[0], 'ref': list(c['ref']), 'errored': c['errored']}; nid[0] += 1
        cursors.append(d); return d
    terms = [t.name for t in p.terminals if t.name not in p.ignore_tokens] + ['$END']
    def check_accepts(c):
        got = set(c['obj'].accepts())
        want = set()
        for t in terms:
            probe = c['obj'].copy() if not c['imm'] else c['obj'].as_mutable()
            try:
                probe.feed_token(Token(t, ''))
                want.add(t)
            except UnexpectedToken:
                pass
        if got != want:
            failures.append({'kind': 'accepts', 'cursor': c['id'], 'after': [str(t) for t in seqs[c['seq']][:c['k']]], 'accepts': sorted(got), 'feedable': sorted(want)})
    with guarded(20):
        for step in range(rng.randint(6, 22)):
            live = [c for c in cursors if not c.get('dead')]
            if not live or len(cursors) > 14:
                break
            c = rng.choice(live)
            r = rng.random()
            if r < 0.45:      # feed
                toks = seqs[c['seq']]
                if c['k'] >= len(toks):
                    continue
                tok = toks[c['k']]
                try:
                    if c['imm']:
                        n = new(c['obj'].feed_token(tok), c, True); n['k'] += 1
                        ref_feed(n['ref'], tok.type)
                        log.append(['feed_imm', c['id'], n['id']])
                        if not (check_stack(n, 'immutable feed_token') and check_stack(c, 'immutable feed_token (the original)')): break
                    else:
                        before_ = stack_of(c['obj'])
                        c['obj'].feed_token(tok); c['k'] += 1
                        logq(before_, tok.type, False, 'shifted', stack_of(c['obj']))
                        ref_feed(c['ref'], tok.type)
                        log.append(['feed', c['id']])
                        if not check_stack(c, 'feed_token'): break
                except UnexpectedToken:
                    exp = refs[c['seq']]
                    if exp != ['err', c['k']] and not c['errored']:
                        failures.append({'kind': 'feed_error', 'cursor': c['id'], 'at_token': c['k'], 'reference': exp})
                    log.append(['feed_error', c['id']])
                    if c['imm']:
                        if not check_stack(c, 'a failed immutable feed_token (the original)'): break
                    else:
                        logq(list(c['ref']), tok.type, False, 'error', stack_of(c['obj']))
                        # the error state: reductions made before the error was noticed stay, the token is not consumed; the cursor goes on with the
                        # rest of its sequence (the offending token dropped), as an on_error handler would
                        if ref_feed(c['ref'], tok.type) != 'error':
                            failures.append({'kind': 'feed_error_unexpected', 'cursor': c['id'], 'at_token': c['k'], 'note': 'the table has an action for this token'}); break
                        if not check_stack(c, 'a failed feed_token (error state)'): break
                        toks2 = toks[:c['k']] + toks[c['k'] + 1:]
                        seqs.append(toks2); refs.append(None); stexts.append(' '.join(str(t) for t in toks2))
                        c['seq'] = len(seqs) - 1; c['errored'] = True
            elif r < 0.62:
                n = new(c['obj'].copy(), c, c['imm']); log.append(['copy', c['id'], n['id']])
            elif r < 0.74:
                if c['imm']:
                    n = new(c['obj'].as_mutable(), c, False); log.append(['as_mutable', c['id'], n['id']])
                else:
                    n = new(c['obj'].as_immutable(), c, True); log.append(['as_immutable', c['id'], n['id']])
            elif r < 0.86:    # switch to another sequence with the same consumed prefix
                alts = [j for j in range(len(seqs)) if j != c['seq'] and len(seqs[j]) >= c['k'] and same_prefix(c['seq'], j, c['k']) and (refs[j] is not None or c['errored'])]
                if alts:
                    if c['imm']:
                        c['seq'] = rng.choice(alts)
                    else:
                        n = new(c['obj'].copy(), c, False); n['seq'] = rng.choice(alts)
                    log.append(['switch', c['id']])
            elif r < 0.93 and not c['imm']:
                # probe: a terminal that is a key of the current row (choices()) but is not accepted — the table reduces on it before it notices the
                # error.  The token must be refused, the stacks must be those the reductions left (the error state), and the cursor goes on.
                tset = set(terms)
                try:
                    cand = sorted(t for t in c['obj'].choices() if t in tset and t != '$END' and t not in set(c['obj'].accepts()))
                except UnexpectedToken:
                    cand = []
                if cand:
                    t = rng.choice(cand)
                    before_ = stack_of(c['obj'])
                    try:
                        c['obj'].feed_token(Token(t, 'x'))
                        failures.append({'kind': 'accepts', 'cursor': c['id'], 'after': [str(t_) for t_ in seqs[c['seq']][:c['k']]], 'accepts': 'does not contain %s' % t, 'feedable': 'feed_token(%s) succeeded' % t}); break
                    except UnexpectedToken:
                        logq(before_, t, False, 'error', stack_of(c['obj']))
                        if ref_feed(c['ref'], t) != 'error':
                            failures.append({'kind': 'feed_error_unexpected', 'cursor': c['id'], 'at_token': c['k'], 'note': 'the table has an action for this token'}); break
                        log.append(['probe_rejected', c['id'], t])
                        if not check_stack(c, 'a rejected probe token %s (error state: reductions stay, token not consumed)' % t): break
                        toks2 = list(seqs[c['seq']])
                        seqs.append(toks2); refs.append(None); stexts.append(' '.join(str(t_) for t_ in toks2))
                        c['seq'] = len(seqs) - 1; c['errored'] = True
            else:
                check_accepts(c); log.append(['accepts', c['id']])
        # ---- finish every cursor; immutable ones twice (the original must be unaffected by its own continuation and by everybody else's)
        order = list(cursors); rng.shuffle(order)
        kept = []
        def finish(c):
            obj = c['obj'].as_mutable() if c['imm'] else c['obj']
            toks = seqs[c['seq']]
            k = c['k']
            # the stepper's verdict from the cursor's own state
            rs, want = list(c['ref']), None
            for j in range(k, len(toks)):
                if ref_feed(rs, toks[j].type) == 'error':
                    want = ['err', j]; break
            if want is None:
                want = ['ok'] if ref_feed(rs, '$END', True) == 'accept' else ['err', len(toks)]
            c['stepper'] = want
            try:
                while k < len(toks):
                    obj.feed_token(toks[k]); k += 1
                res = obj.feed_eof(toks[-1] if toks else None)
                kept.append((c['id'], res, canon(res)))
                return ['ok', canon(res)]
            except UnexpectedToken:
                return ['err', k]
        results = {}
        for c in order:
            if c.get('dead'):
                continue
            results[c['id']] = (c, finish(c))
        for c in order:
            if c['imm'] and not c.get('dead'):
                again = finish(c)
                if again != results[c['id']][1]:
                    failures.append({'kind': 'immutable_changed', 'cursor': c['id'], 'first': results[c['id']][1], 'second': again})
    # results already returned must not be modified by forks that ran later
    for cid, obj, before in kept:
        if canon(obj) != before:
            failures.append({'kind': 'returned_result_modified', 'cursor': cid, 'when_returned': before, 'now': canon(obj)})
    for cid, (c, got) in results.items():
        if got[:1] + (got[1:] if got[0] == 'err' else []) != c['stepper']:
            failures.append({'kind': 'outcome_vs_table', 'cursor': cid, 'sequence': stexts[c['seq']], 'got': got[:1] + (got[1:] if got[0] == 'err' else []), 'stepping_the_table_from_its_state': c['stepper'], 'continued_from_an_error_state': c['errored']})
        elif not c['errored'] and refs[c['seq']] is not None and got != refs[c['seq']]:
            failures.append({'kind': 'result', 'cursor': cid, 'sequence': stexts[c['seq']], 'got': got, 'parse': refs[c['seq']]})
    # ---- lexer-driven forks: parse_interactive(text) pulls its tokens from its own lexer thread; a snapshot/copy taken half way must go on from its own
    # position whatever the original does afterwards (iter_parse, exhaust_lexer), and each must end with parse(text)
    for ti, text in enumerate(stexts[:3]):
        if refs[ti] is None:
            continue
        toks = seqs[ti]
        resume_ = rng.random() < 0.5
        def run_to_end(obj, imm):
            try:
                if imm:
                    obj = obj.exhaust_lexer()
                    before_ = stack_of(obj)
                    r_ = obj.feed_eof()
                    if stack_of(obj) != before_:
                        return ['immutable parser changed by its own feed_eof()', before_, stack_of(obj)]
                    if not hasattr(r_, 'result'):
                        return ['feed_eof() on an immutable parser returned %s, not a new parser' % type(r_).__name__]
                    return ['ok', canon(r_.result)]
                if resume_:
                    return ['ok', canon(obj.resume_parse())]       # pulls the rest through the parser state's own lexer
                obj.exhaust_lexer()
                return ['ok', canon(obj.feed_eof())]
            except UnexpectedToken as e:
                return ['err', len(toks) if e.token.type == '$END' else [i for i, t in enumerate(toks) if t.start_pos == e.token.start_pos][0]]
        try:
            with guarded(6):
                ip = p.parse_interactive(text)
                j = rng.randint(0, max(0, len(toks) - 1))
                gen_ = ip.lexer_thread.lex(ip.parser_state)     # (iter_parse() yields a token before feeding it: no consistent point to fork at)
                for _ in range(j):
                    ip.feed_token(next(gen_))
                snap, cp = ip.as_immutable(), ip.copy()
                order = [('original', ip, False), ('as_immutable() snapshot', snap, True), ('copy()', cp, False)]
                rng.shuffle(order)
                outs_ = [(name, run_to_end(o, imm)) for name, o, imm in order]
        except (UnexpectedToken, StopIteration):
            continue
        log.append(['lexer_driven', ti, j, [n for n, _ in outs_]])
        want = refs[ti]
        def strip_end(r):
            # feed_eof() without a last token: $END carries no position, results are compared without the root's end coordinates being affected (they are not)
            return r
        for name, got in outs_:
            if strip_end(got) != strip_end(want):
                failures.append({'kind': 'lexer_driven', 'text': text, 'snapshot_after_tokens': j, 'finished_in_order': [n for n, _ in outs_], 'which': name, 'got': got, 'parse': want})
                break
    # results returned earlier must not have been modified by later forks: re-canonicalise is implicit (canon copies), so compare stored objects again
    lr_case = None
    if qlog:
        shifts, reduces, gotos = [], [], []
        for q, row in states.items():
            for k, (a_, arg) in row.items():
                if a_ is Shift:
                    (shifts if k in tid else gotos).append([q, tid[k] if k in tid else ntid[k], arg])
                elif k in tid:
                    reduces.append([q, tid[k], rix(arg)])
        lr_case = {'op': 'lr_feed', 'rules': [{'lhs': ntid[r.origin.name], 'rhs': [[1, tid[s_.name]] if s_.is_term else [0, ntid[s_.name]] for s_ in r.expansion]} for r in rules_l],
                   'items': [], 'shifts': shifts, 'reduces': reduces, 'gotos': gotos, 'start': pt.start_states['start'], 'final': end_state, 'fuel': 400,
                   'queries': [q for q, _ in qlog]}
    return {'grammar': g, 'opts': opts, 'texts': texts, 'log': log, 'failures': failures[:3], 'lr_case': lr_case, 'lr_real': [r for _, r in qlog], 'forks': len(cursors), 'ops': len(log),
            'accepted': sum(1 for r in refs if r and r[0] == 'ok'), 'seqs': len(seqs), 'error_states_continued': sum(1 for c in cursors if c['errored'])}


def replay_f10(f, res):
    """the fixed finding F10 as a pinned history: must pass"""
    from lark import Lark
    w = f['witness']
    p = Lark(w['grammar'], parser='lalr', lexer='basic', propagate_positions=True)
    toks = list(p.lex('b)!'))
    ip = p.parse_interactive('b)')
    ip.feed_token(toks[0]); ip.feed_token(toks[1])
    f1, f2 = ip.copy(), ip.copy()
    r1 = f1.feed_eof(toks[1])
    before = canon(r1)
    f2.feed_token(toks[2]); f2.feed_eof(toks[2])
    if canon(r1) != before:
        res.violation('regression of fixed finding F10: ' + f['what'], {'grammar': w['grammar'], 'history': w['history'], 'before': before, 'after': canon(r1)})


def _copy_fresh_case(args):
    """the conclusions of Props.C13.deepcopy_is_fresh_and_equal observed on the real copy(): after feeding k tokens, the fork's value stack shares no mutable
    object (child list, Tree, Meta) with the original's and is equal to it"""
    g, seed = args
    from lark import Lark, Tree
    from lark.exceptions import UnexpectedInput, GrammarError, LarkError
    rng = random.Random(seed)
    try:
        with guarded(6):
            p = Lark(g, parser='lalr', lexer='basic', propagate_positions=rng.random() < 0.5)      # basic lexer: the tokens can be lexed before any is fed
    except (GrammarError, LarkError):
        return {'nobuild': True}
    def mutable_ids(stack):
        out = {}
        todo = list(stack)
        while todo:
            x = todo.pop()
            if isinstance(x, Tree):
                out[id(x)] = 'Tree'; out[id(x.children)] = 'children list'
                if getattr(x, '_meta', None) is not None: out[id(x._meta)] = 'Meta'
                todo.extend(x.children)
            elif isinstance(x, list):
                out[id(x)] = 'list'; todo.extend(x)
        return out
    shared, unequal, checked = [], [], 0
    for _ in range(3):
        try:
            text = shapelib.sample_sentence(rng, p)
        except (RecursionError, KeyError):
            continue
        with guarded(10):
            ip = p.parse_interactive(text)
            try:
                toks = list(p.lex(text))
                k = rng.randint(0, len(toks))
                for t in toks[:k]: ip.feed_token(t)
            except UnexpectedInput:
                continue
            fork = ip.copy()
            a, b = mutable_ids(ip.parser_state.value_stack), mutable_ids(fork.parser_state.value_stack)
            checked += 1
            common = set(a) & set(b)
            if common:
                shared.append({'text': text, 'tokens_fed': k, 'shared_objects': sorted({a[i] for i in common})})
            if ip.parser_state.value_stack != fork.parser_state.value_stack or ip.parser_state.state_stack != fork.parser_state.state_stack:
                unequal.append({'text': text, 'tokens_fed': k})
    return {'grammar': g, 'checked': checked, 'shared': shared, 'unequal': unequal}


def run(ctx, res):
    rngc = random.Random(ctx['seed'] * 1000003 + 1313)
    cjobs = [(shapelib.gen_grammar(rngc), rngc.randrange(1 << 30)) for _ in range(tier_scale(ctx['tier'], 600, 6000))]
    for job, (st, rec) in zip(cjobs, pmap(_copy_fresh_case, cjobs, chunksize=8)):
        if st != 'ok':
            if st == 'exc':
                if not exc_in_lark(rec):
                    raise InfraError(rec)
                res.violation('copy() raised an unexpected exception', {'grammar': job[0], 'seed': job[1], 'detail': rec})
            else:
                res.inconclusive[st] = res.inconclusive.get(st, 0) + 1
            continue
        if rec.get('nobuild'):
            continue
        res.count('copies_checked_for_freshness', rec['checked'])
        for f in rec['shared']:
            res.violation('copy() shares a mutable object of the value stack with the original (the deep copy is not fresh: Props.C13.deepcopy_is_fresh_and_equal is about a copy that is)', dict(f, grammar=rec['grammar']))
        for f in rec['unequal']:
            res.violation('the stacks of a fresh copy() differ from the original\'s', dict(f, grammar=rec['grammar']))
    for f in ctx['known']:
        if f['id'] == 'F10' and f['status'] == 'fixed':
            replay_f10(f, res)
        if f['id'] == 'F34' and f['status'] == 'fixed':
            from lark import Lark
            w = f['witness']
            p_ = Lark(w['grammar'], parser='lalr')
            ip_ = p_.parse_interactive(w['text']); fork_ = ip_.copy()
            a_, b_ = fork_.resume_parse(), ip_.resume_parse()
            if a_ != b_ or a_ != p_.parse(w['text']):
                res.violation('regression of fixed finding F34: ' + f['what'], {'grammar': w['grammar'], 'text': w['text'], 'history': w['history'], 'fork': str(a_), 'original': str(b_)})
    rng = random.Random(ctx['seed'] * 1000003 + 13)
    N = tier_scale(ctx['tier'], 4000, 40000) * (3 if ctx['deepen'] else 1)
    import lalrlib
    jobs = [((shapelib.gen_grammar(rng) if i % 3 else lalrlib.gen_lalr(rng) + '%ignore " "\n'), rng.randrange(1 << 30)) for i in range(N)]
    outs = pmap(_case, jobs, chunksize=4)
    lr_jobs = []
    for job, (st, rec) in zip(jobs, outs):
        if st != 'ok':
            if st == 'exc':
                if not exc_in_lark(rec):
                    raise InfraError(rec)
                res.violation('interactive parsing raised an unexpected exception', {'grammar': job[0], 'seed': job[1], 'detail': rec})
            else:
                res.inconclusive[st] = res.inconclusive.get(st, 0) + 1
            continue
        if rec.get('nobuild'):
            res.count('not_lalr'); continue
        res.case(['forks', rec['grammar'], rec['texts'], rec['log']], nontrivial=rec['forks'] > 2,
                 sample={'grammar': rec['grammar'], 'opts': rec['opts'], 'texts': rec['texts'], 'operations': rec['log']} if rec['forks'] > 4 and len(res.samples) < 3 else None)
        if rec.get('lr_case'):
            lr_jobs.append((rec, rec['lr_case']))
        res.count('fork_trees'); res.count('cursors', rec['forks']); res.count('operations', rec['ops']); res.count('sequences', rec['seqs']); res.count('accepted_sequences', rec['accepted'])
        for f in rec['failures']:
            what = {'result': 'a fork does not end with the result of parse() on its own token sequence',
                    'immutable_changed': 'an immutable parser gives a different continuation after other forks ran',
                    'accepts': 'accepts() is not the set of terminals that can be fed',
                    'returned_result_modified': 'a result already returned by one fork was modified by another fork running later',
                    'feed_error': 'feed_token raises at a token parse() accepts (or parse() rejects elsewhere)',
                    'feed_error_unexpected': 'feed_token raises although the parse table has an action for the token',
                    'state_stack': 'the state stack after an operation is not what stepping the parse table gives (error states included)',
                    'outcome_vs_table': 'a fork does not end as stepping the parse table from its state does',
                    'lexer_driven': 'a lexer-driven fork (parse_interactive(text) + as_immutable()/copy() + exhaust_lexer) does not end with the result of parse(text)'}[f['kind']]
            res.violation(what, {'grammar': rec['grammar'], 'opts': rec['opts'], 'texts': rec['texts'], 'operations': rec['log'], 'detail': f})

    # ---- every logged feed_token call against the Lean driver model on lark's own table: verdict (reduceLoop) and stacks left behind (reductionsOn)
    from common import run_driver_parallel
    model = run_driver_parallel([c for _, c in lr_jobs]) if lr_jobs else []
    for (rec, case), m in zip(lr_jobs, model):
        if isinstance(m, dict):
            raise InfraError('driver lr_feed: %s' % m)
        res.count('feed_calls_against_lean_model', len(m))
        for q, real, mo in zip(case['queries'], rec['lr_real'], m):
            if [mo['status'], mo['stack']] != real:
                res.violation('feed_token: verdict / state stack left behind differ from the model (reduceLoop / reductionsOn on lark\'s own table)' + (' — an error state' if real[0] == 'error' else ''),
                              {'grammar': rec['grammar'], 'opts': rec['opts'], 'state_stack_before': q[0], 'token_id': q[1], 'code': real, 'model': [mo['status'], mo['stack']]})
                break
