"""C13 — interactive parser: forks independent, accepts() exact, resume equals parse."""
import random, json
from common import pmap, guarded, Timeout, tier_scale, exc_in_lark, InfraError
import shapelib


def canon(t):
    from lark import Tree, Token
    if isinstance(t, Tree):
        m = t.meta
        meta = None if m.empty else [m.start_pos, m.end_pos, m.line, m.column, m.end_line, m.end_column,
                                     getattr(m, 'container_start_pos', None), getattr(m, 'container_end_pos', None)]
        return ['T', str(t.data), meta, [canon(c) for c in t.children]]
    if isinstance(t, Token):
        return ['t', t.type, str(t), t.start_pos, t.end_pos]
    return None if t is None else ['?', repr(t)]


def _case(args):
    g, seed = args
    from lark import Lark, Token
    from lark.exceptions import GrammarError, UnexpectedInput, UnexpectedToken, UnexpectedCharacters, LarkError
    rng = random.Random(seed)
    opts = dict(propagate_positions=rng.random() < 0.7, maybe_placeholders=rng.random() < 0.5, keep_all_tokens=rng.random() < 0.2)
    try:
        with guarded(5):
            p = Lark(g, parser='lalr', lexer='basic', **opts)
    except (GrammarError, LarkError):
        return {'nobuild': True}
    # ---- token sequences sharing prefixes
    try:
        base = shapelib.sample_sentence(rng, p)
    except RecursionError:
        return {'nobuild': True}
    texts = [base]
    words = base.split(' ')
    for _ in range(2):
        w = list(words)
        if w and rng.random() < 0.8:
            k = rng.randrange(len(w)); op = rng.random()
            if op < 0.3: del w[k]
            elif op < 0.6: w.insert(k, rng.choice(['a', 'b', 'c', 'x', 'u']))
            elif op < 0.8: w = w[:k]
            else:
                try: w = w[:k] + shapelib.sample_sentence(rng, p).split(' ')
                except RecursionError: pass
        texts.append(' '.join(w))
    seqs, refs = [], []
    for text in texts:
        try:
            toks = list(p.lex(text))
        except UnexpectedCharacters:
            continue
        try:
            with guarded(4):
                ref = ['ok', canon(p.parse(text))]
        except UnexpectedToken as e:
            idx = len(toks) if e.token.type == '$END' else [i for i, t in enumerate(toks) if t.start_pos == e.token.start_pos][0]
            ref = ['err', idx]
        seqs.append(toks); refs.append(ref)
    if not seqs:
        return {'nobuild': True}
    same_prefix = lambda a, b, k: [(t.type, str(t)) for t in seqs[a][:k]] == [(t.type, str(t)) for t in seqs[b][:k]]
    # ---- the fork tree
    log, failures = [], []
    cursors = []      # dict(obj, seq, k, imm, dead)
    ip = p.parse_interactive(texts[0])
    cursors.append({'obj': ip, 'seq': 0, 'k': 0, 'imm': False, 'id': 0})
    nid = [1]
    def new(obj, c, imm):
        d = {'obj': obj, 'seq': c['seq'], 'k': c['k'], 'imm': imm, 'id': nid[0]}; nid[0] += 1
        cursors.append(d); return d
    terms = [t.name for t in p.terminals if t.name not in p.ignore_tokens] + ['$END']
    def check_accepts(c):
        got = set(c['obj'].accepts())
        want = set()
        for t in terms:
            probe = c['obj'].copy() if not c['imm'] else c['obj'].as_mutable()
            try:
                probe.feed_token(Token(t, ''))
                want.add(t)
            except UnexpectedToken:
                pass
        if got != want:
            failures.append({'kind': 'accepts', 'cursor': c['id'], 'after': [str(t) for t in seqs[c['seq']][:c['k']]], 'accepts': sorted(got), 'feedable': sorted(want)})
    with guarded(20):
        for step in range(rng.randint(6, 22)):
            live = [c for c in cursors if not c.get('dead')]
            if not live or len(cursors) > 14:
                break
            c = rng.choice(live)
            r = rng.random()
            if r < 0.45:      # feed
                toks = seqs[c['seq']]
                if c['k'] >= len(toks):
                    continue
                tok = toks[c['k']]
                try:
                    if c['imm']:
                        n = new(c['obj'].feed_token(tok), c, True); n['k'] += 1
                        log.append(['feed_imm', c['id'], n['id']])
                    else:
                        c['obj'].feed_token(tok); c['k'] += 1
                        log.append(['feed', c['id']])
                except UnexpectedToken:
                    exp = refs[c['seq']]
                    if exp != ['err', c['k']]:
                        failures.append({'kind': 'feed_error', 'cursor': c['id'], 'at_token': c['k'], 'reference': exp})
                    if not c['imm']:
                        c['dead'] = True
                    log.append(['feed_error', c['id']])
            elif r < 0.62:
                n = new(c['obj'].copy(), c, c['imm']); log.append(['copy', c['id'], n['id']])
            elif r < 0.74:
                if c['imm']:
                    n = new(c['obj'].as_mutable(), c, False); log.append(['as_mutable', c['id'], n['id']])
                else:
                    n = new(c['obj'].as_immutable(), c, True); log.append(['as_immutable', c['id'], n['id']])
            elif r < 0.86:    # switch to another sequence with the same consumed prefix
                alts = [j for j in range(len(seqs)) if j != c['seq'] and len(seqs[j]) >= c['k'] and same_prefix(c['seq'], j, c['k'])]
                if alts:
                    if c['imm']:
                        c['seq'] = rng.choice(alts)
                    else:
                        n = new(c['obj'].copy(), c, False); n['seq'] = rng.choice(alts)
                    log.append(['switch', c['id']])
            else:
                check_accepts(c); log.append(['accepts', c['id']])
        # ---- finish every cursor; immutable ones twice (the original must be unaffected by its own continuation and by everybody else's)
        order = list(cursors); rng.shuffle(order)
        kept = []
        def finish(c):
            obj = c['obj'].as_mutable() if c['imm'] else c['obj']
            toks = seqs[c['seq']]
            k = c['k']
            try:
                while k < len(toks):
                    obj.feed_token(toks[k]); k += 1
                res = obj.feed_eof(toks[-1] if toks else None)
                kept.append((c['id'], res, canon(res)))
                return ['ok', canon(res)]
            except UnexpectedToken:
                return ['err', k]
        results = {}
        for c in order:
            if c.get('dead'):
                continue
            results[c['id']] = (c, finish(c))
        for c in order:
            if c['imm'] and not c.get('dead'):
                again = finish(c)
                if again != results[c['id']][1]:
                    failures.append({'kind': 'immutable_changed', 'cursor': c['id'], 'first': results[c['id']][1], 'second': again})
    # results already returned must not be modified by forks that ran later
    for cid, obj, before in kept:
        if canon(obj) != before:
            failures.append({'kind': 'returned_result_modified', 'cursor': cid, 'when_returned': before, 'now': canon(obj)})
    for cid, (c, got) in results.items():
        if got != refs[c['seq']]:
            failures.append({'kind': 'result', 'cursor': cid, 'sequence': texts[c['seq']] if c['seq'] < len(texts) else None, 'got': got, 'parse': refs[c['seq']]})
    # results returned earlier must not have been modified by later forks: re-canonicalise is implicit (canon copies), so compare stored objects again
    return {'grammar': g, 'opts': opts, 'texts': texts, 'log': log, 'failures': failures[:3], 'forks': len(cursors), 'ops': len(log),
            'accepted': sum(1 for r in refs if r[0] == 'ok'), 'seqs': len(seqs)}


def replay_f10(f, res):
    """the fixed finding F10 as a pinned history: must pass"""
    from lark import Lark
    w = f['witness']
    p = Lark(w['grammar'], parser='lalr', lexer='basic', propagate_positions=True)
    toks = list(p.lex('b)!'))
    ip = p.parse_interactive('b)')
    ip.feed_token(toks[0]); ip.feed_token(toks[1])
    f1, f2 = ip.copy(), ip.copy()
    r1 = f1.feed_eof(toks[1])
    before = canon(r1)
    f2.feed_token(toks[2]); f2.feed_eof(toks[2])
    if canon(r1) != before:
        res.violation('regression of fixed finding F10: ' + f['what'], {'grammar': w['grammar'], 'history': w['history'], 'before': before, 'after': canon(r1)})


def run(ctx, res):
    for f in ctx['known']:
        if f['id'] == 'F10' and f['status'] == 'fixed':
            replay_f10(f, res)
    rng = random.Random(ctx['seed'] * 1000003 + 13)
    N = tier_scale(ctx['tier'], 2000, 30000) * (3 if ctx['deepen'] else 1)
    import lalrlib
    jobs = [((shapelib.gen_grammar(rng) if i % 3 else lalrlib.gen_lalr(rng) + '%ignore " "\n'), rng.randrange(1 << 30)) for i in range(N)]
    outs = pmap(_case, jobs, chunksize=4)
    for job, (st, rec) in zip(jobs, outs):
        if st != 'ok':
            if st == 'exc':
                if not exc_in_lark(rec):
                    raise InfraError(rec)
                res.violation('interactive parsing raised an unexpected exception', {'grammar': job[0], 'seed': job[1], 'detail': rec})
            else:
                res.inconclusive[st] = res.inconclusive.get(st, 0) + 1
            continue
        if rec.get('nobuild'):
            res.count('not_lalr'); continue
        res.case(['forks', rec['grammar'], rec['texts'], rec['log']], nontrivial=rec['forks'] > 2,
                 sample={'grammar': rec['grammar'], 'opts': rec['opts'], 'texts': rec['texts'], 'operations': rec['log']} if rec['forks'] > 4 and len(res.samples) < 3 else None)
        res.count('fork_trees'); res.count('cursors', rec['forks']); res.count('operations', rec['ops']); res.count('sequences', rec['seqs']); res.count('accepted_sequences', rec['accepted'])
        for f in rec['failures']:
            what = {'result': 'a fork does not end with the result of parse() on its own token sequence',
                    'immutable_changed': 'an immutable parser gives a different continuation after other forks ran',
                    'accepts': 'accepts() is not the set of terminals that can be fed',
                    'returned_result_modified': 'a result already returned by one fork was modified by another fork running later',
                    'feed_error': 'feed_token raises at a token parse() accepts (or parse() rejects elsewhere)'}[f['kind']]
            res.violation(what, {'grammar': rec['grammar'], 'opts': rec['opts'], 'texts': rec['texts'], 'operations': rec['log'], 'detail': f})
