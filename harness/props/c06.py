"""C06 — token (and tree) positions are exact source coordinates."""
import random, json
from common import run_driver_parallel, run_driver, pmap, guarded, Timeout, tier_scale
import gen

CONFIGS = [('lalr', 'basic'), ('lalr', 'contextual'), ('earley', 'basic'), ('earley', 'dynamic'), ('earley', 'dynamic_complete')]


def _tok(t, use_bytes):
    v = t.value
    if isinstance(v, bytes):
        v = v.decode('latin-1')
    return [t.type, v, t.start_pos, t.end_pos, t.line, t.column, t.end_line, t.end_column]


def _all_tokens(tree):
    from lark import Token, Tree
    out = []
    stack = [tree]
    while stack:
        x = stack.pop()
        if isinstance(x, Tree):
            stack.extend(x.children)
        elif isinstance(x, Token):
            out.append(x)
    return out


def _case(args):
    """Build one grammar, run inputs through every configuration; return observations."""
    g, texts, use_bytes, configs = args
    from lark import Lark
    from lark.exceptions import UnexpectedInput, LarkError
    obs = []
    import re as _re, zlib as _zlib
    # a sixth of the grammars are built with the parser-wide DOTALL flag: a plain `.` then matches newlines, whatever the terminal's own text says
    gflags = _re.S if _zlib.crc32(g.encode('utf-8')) % 6 == 0 else 0
    for parser, lexer in configs:
        try:
            with guarded(10):
                # dynamic_complete: every token of *every* derivation is checked (explicit ambiguity), not only those of the resolved tree
                p = Lark(g, parser=parser, lexer=lexer, use_bytes=use_bytes, g_regex_flags=gflags, **({'ambiguity': 'explicit'} if lexer == 'dynamic_complete' else {}))
        except LarkError as e:
            obs.append({'cfg': [parser, lexer], 'build_error': type(e).__name__})
            continue
        # hypothesis of stampAll_exact, evaluated on the code's own newline_types
        flagsound = True
        try:
            lx = p.parser.lexer if hasattr(p.parser, 'lexer') and p.parser.lexer is not None else None
            lexers = []
            if lx is not None:
                inner = getattr(lx, 'lexer', lx)
                if hasattr(inner, 'newline_types'):
                    lexers.append(inner)
                if hasattr(inner, 'lexers'):
                    lexers.extend(inner.lexers.values()); lexers.append(inner.root_lexer)
            for l in lexers:
                for t in l.terminals:
                    if t.name not in l.newline_types and not (t.pattern.type == 'str' and '\n' not in t.pattern.value):
                        flagsound = False
        except Exception:
            pass
        for text in texts:
            data = text.encode('latin-1') if use_bytes else text
            rec = {'cfg': [parser, lexer], 'text': text, 'bytes': use_bytes, 'flagsound': flagsound, 'g_regex_flags': int(gflags)}
            try:
                with guarded(10):
                    tree = p.parse(data)
                toks = _all_tokens(tree)
                rec['tokens'] = [_tok(t, use_bytes) for t in toks]
                rec['slice_ok'] = all(data[t.start_pos:t.end_pos] == t.value for t in toks)
            except UnexpectedInput as e:
                rec['error'] = type(e).__name__
            if lexer == 'basic' and parser == 'lalr':
                try:
                    with guarded(10):
                        lt = list(p.lex(data))
                    rec['lex_tokens'] = [_tok(t, use_bytes) for t in lt]
                    rec['slice_ok'] = rec.get('slice_ok', True) and all(data[t.start_pos:t.end_pos] == t.value for t in lt)
                except UnexpectedInput:
                    pass
            obs.append(rec)
    return obs


def _unit_case(args):
    """real LineCounter under arbitrary feeds / advance_to"""
    feeds, text, steps = args
    from lark.lexer import LineCounter
    lc = LineCounter('\n')
    out1 = []
    for tok, flag in feeds:
        lc.feed(tok, flag)
        out1.append([lc.char_pos, lc.line, lc.column, lc.line_start_pos])
    lc = LineCounter('\n')
    out2 = []
    for p in steps:
        lc.advance_to(text, p)
        lc.column = lc.char_pos - lc.line_start_pos + 1 if False else lc.column
        out2.append([lc.char_pos, lc.line, lc.line_start_pos])
    return out1, out2


# shapes the random stream reaches rarely: collapsing ?rules around filtered tokens (region of F19), empty trees inlined by ?rules, inlined _rules, placeholders
META_CORPUS = [
    'start: r A\n?r: _U B\nA: "a"\nB: "b"\n_U: "u"\n%ignore /[ \\n]+/\n',
    'start: a c\n?a: "x" b\nb: "y"*\nc: "z"\n%ignore /[ \\n]+/\n',
    'start: (_l | r)+\n_l: "(" A ")"\n?r: "[" (A | _l) "]"\nA: "a"\n%ignore /[ \\n]+/\n',
    'start: p p\n?p: "<" [A] ">"\nA: "a"\n%ignore /[ \\n]+/\n',
    'start: x+\n?x: "(" x ")" | y\ny: A*\nA: "a"\n%ignore /[ \\n]+/\n',
    'start: _sep{A, ","} ";"\n_sep{x, s}: x (s x)*\nA: "a"\n%ignore /[ \\n]+/\n',
    'start: q q\n!?q: "k" | "(" q ")"\n%ignore /[ \\n]+/\n',
    # a ?rule whose alternative is one inlined _rule (the brackets are matched inside it)
    'start: stmt+\nstmt: atom ";"\n?atom: A | _paren | _pair\n_paren: "(" atom ")"\n_pair: "[" atom "," atom "]"\nA: "a"\n%ignore /[ \\n]+/\n',
]


def run(ctx, res):
    rng = random.Random(ctx['seed'] * 1000003 + 6)
    tier = ctx['tier']
    mult = 3 if ctx['deepen'] else 1

    # ---- unit level: LineCounter.feed / advance_to mirror
    units = []
    for _ in range(tier_scale(tier, 400, 4000) * mult):
        feeds = [[gen.rand_text(rng, 5, nonascii=rng.random() < 0.2), rng.random() < 0.6] for _ in range(rng.randint(1, 6))]
        text = gen.rand_text(rng, 20)
        steps = sorted(rng.randint(0, len(text)) for _ in range(rng.randint(1, 4)))
        units.append((feeds, text, steps))
    real = pmap(_unit_case, units, chunksize=64)
    m1 = run_driver([{'op': 'lc_feed', 'feeds': u[0]} for u in units])
    m2 = run_driver([{'op': 'lc_advance', 'text': u[1], 'steps': u[2]} for u in units])
    for u, (st, r), a, b in zip(units, real, m1, m2):
        res.case(['unit', u], nontrivial=any('\n' in f[0] for f in u[0]))
        res.count('linecounter_unit')
        if st != 'ok':
            res.corr_break('LineCounter raised: %s' % r, {'feeds': u[0]}); continue
        if r[0] != a:
            res.corr_break('LineCounter.feed differs from model', {'feeds': u[0], 'code': r[0], 'model': a})
        if r[1] != [[x[0], x[1], x[3]] for x in b]:
            res.corr_break('LineCounter.advance_to differs from model', {'text': u[1], 'steps': u[2], 'code': r[1], 'model': b})

    # ---- property level
    jobs = []
    for i in range(tier_scale(tier, 700, 8000) * mult):
        use_bytes = rng.random() < 0.3
        terms, ign = gen.term_set(rng, 1, 5, ascii_only=use_bytes)
        g = gen.term_grammar(terms, ign)
        texts = [gen.rand_text(rng, 10, nonascii=(not use_bytes and rng.random() < 0.15)) for _ in range(4)]
        # terminals with an optional tail: texts holding a full match followed by more input (the prefixes of the match are what dynamic_complete tries)
        tails = {'/a(\\n\\nb)?/': ['a\n\nb', 'a\n\nbb', 'a\n\n'], '/a(bc)?/': ['abc', 'abcc', 'ab'], '/0+(-0+)?/': ['0-0', '00-0-', '0-'], '/b(\\n c)?/': ['b\n c', 'b\n cb', 'b\n ']}
        for _n, sp, _nl in terms:
            if sp in tails:
                texts += [rng.choice(tails[sp]) + gen.rand_text(rng, 3), gen.rand_text(rng, 2) + rng.choice(tails[sp])]
        cfgs = CONFIGS if i % 3 == 0 else [CONFIGS[i % 5], CONFIGS[(i // 5 + 1) % 5]]
        jobs.append((g, texts, use_bytes, cfgs))
    outs = pmap(_case, jobs, chunksize=2)
    checks = []   # (job, rec, key, tokens)
    for job, (st, obs) in zip(jobs, outs):
        if st != 'ok':
            res.inconclusive[st] = res.inconclusive.get(st, 0) + 1
            if st == 'exc':
                res.violation('unexpected exception while lexing/parsing', {'grammar': job[0], 'texts': job[1], 'detail': obs})
            continue
        for rec in obs:
            if 'build_error' in rec:
                res.count('build_' + rec['build_error']); continue
            if not rec.get('flagsound', True):
                res.corr_break('newline_types misses a terminal that is not a newline-free string (hypothesis of stampAll_exact fails on the code)', {'grammar': job[0], 'cfg': rec['cfg']})
            for key in ('tokens', 'lex_tokens'):
                if key in rec and rec[key]:
                    checks.append((job, rec, key))
            if 'error' in rec:
                res.count('reject_' + rec['error'])
            else:
                res.count('accepted')
    dyn = lambda rec: rec['cfg'][1].startswith('dynamic')
    cases = [{'op': 'dyn_stamps' if dyn(rec) else 'stamps', 'text': rec['text'], 'spans': [[t[2], t[3]] for t in rec[key]]} for job, rec, key in checks]
    model = run_driver_parallel(cases)
    for (job, rec, key), m in zip(checks, model):
        toks = rec[key]
        nl = '\n' in rec['text']
        res.case(['pos', job[0], rec['text'], rec['cfg'], rec['bytes'], key], nontrivial=nl,
                 sample={'grammar': job[0], 'text': rec['text'], 'config': rec['cfg'], 'bytes': rec['bytes'], 'tokens': toks[:3]} if nl and len(toks) > 1 else None)
        res.count('tokens_checked', len(toks))
        res.count('cfg_%s_%s' % tuple(rec['cfg']))
        if rec['bytes']:
            res.count('bytes_cases')
        if not rec.get('slice_ok', True):
            res.violation('text[start_pos:end_pos] != token', {'grammar': job[0], 'text': rec['text'], 'config': rec['cfg'], 'bytes': rec['bytes'], 'g_regex_flags': rec.get('g_regex_flags', 0), 'tokens': toks})
            continue
        for t, ms in zip(toks, m):
            got = [t[2], t[4], t[5], t[3], t[6], t[7]]
            if got != ms:
                res.violation('token %r at %d: (start_pos,line,column,end_pos,end_line,end_column) = %s, source coordinates are %s' % (t[1], t[2], got, ms),
                              {'grammar': job[0], 'text': rec['text'], 'config': rec['cfg'], 'bytes': rec['bytes'], 'g_regex_flags': rec.get('g_regex_flags', 0), 'token': t, 'expected': ms})
                break


    # ---- tree meta (propagate_positions): spans of the raw derivation vs Tree.meta, via the C03 stream with newline-bearing ignores
    import shapelib
    from props import c03
    for f in ctx['known']:
        if f['id'] == 'F22' and f['status'] == 'fixed':
            from lark import Lark
            w = f['witness']
            for kw in (dict(parser='lalr'), dict(parser='earley'), dict(parser='earley', ambiguity='explicit')):
                try:
                    Lark(w['grammar'], propagate_positions=True, **kw).parse(w['text'])
                except AttributeError as e:
                    res.violation('regression of fixed finding F22: ' + f['what'], dict(w, options=kw, error=repr(e)))
        if f['id'] == 'F19' and f['status'] == 'open':
            from lark import Lark
            w = f['witness']
            t = Lark(w['grammar'], parser='lalr', propagate_positions=True).parse(w['text'])
            if t.meta.start_pos != 0:
                res.known_hits.append(('F19', '%s: %r on %r gives start.meta.start_pos=%d, the rule matched from offset 0' % (f['what'], w['grammar'], w['text'], t.meta.start_pos)))
    jobs2, outs2 = shapelib.shape_stream(ctx, 66, 160, 2500, ntexts=3, newlines=True, positions=True, corpus=META_CORPUS)
    c03.check(ctx, res, jobs2, outs2, want_meta=True)
