"""C03 — the returned tree is the documented shaping of a derivation; engines agree."""
import json
from common import exc_in_lark, InfraError
import shapelib


def strip_pos(t):
    if t is None:
        return None
    if t[0] == 't':
        return ['t', t[1], t[2]]
    return ['T', t[1], [strip_pos(c) for c in t[2]]]


model_spans_check = True


def check(ctx, res, jobs, outs, want_meta=False):
    for job, (st, rec) in zip(jobs, outs):
        g = job[0]
        if st != 'ok':
            if st == 'exc':
                if not exc_in_lark(rec):
                    raise InfraError(rec)
                res.violation('parsing raised an unexpected exception', {'grammar': g, 'detail': rec})
            else:
                res.inconclusive[st] = res.inconclusive.get(st, 0) + 1
            continue
        if 'gerr' in rec:
            res.count('grammar_error'); continue
        for nb in rec['nobuild']:
            res.count('nobuild_%s_%s' % (nb[0], nb[2]))
        for run in rec['runs']:
            if 'explicit_timeout' in run:
                res.inconclusive['explicit_timeout'] = res.inconclusive.get('explicit_timeout', 0) + 1; continue
            if 'sample_rejected' in run:
                if not want_meta:
                    res.violation('a sentence sampled from the compiled rules is rejected by Earley (explicit)', {'grammar': g, 'text': run['text'], 'opts': rec['opts'], 'error': run['sample_rejected']})
                continue
            trees = {}
            for e in run['engines']:
                name = '%s/%s' % tuple(e['engine'])
                if 'reject' in e:
                    res.count('reject_' + name)
                    if e['engine'][0] == 'earley' and not want_meta:
                        res.violation('Earley %s rejects a sentence sampled from the compiled rules' % name, {'grammar': g, 'text': run['text'], 'opts': rec['opts']})
                    continue
                if e.get('timeout') or 'raw_failed' in e or 'model' not in e:
                    res.count('skipped_' + name); continue
                m = e['model']
                if 'error' in m:
                    raise InfraError('driver: %s' % m['error'])
                real = e['real']
                if want_meta:
                    nl = '\n' in run['text']
                    res.case(['meta', g, run['text'], name, rec['opts']], nontrivial=len(e['metas']) > 1,
                             sample={'grammar': g, 'text': run['text'], 'engine': name, 'metas': e['metas'][:4]} if nl and len(e['metas']) > 2 else None)
                    res.count('meta_nodes', len(e['metas']))
                    if shapelib.model_tree(m['built'][0], e['labels'], e['toks']) != real:
                        continue      # a shaping disagreement: C03's business
                    pm = e.get('pos_model')
                    if pm is None or 'error' in pm:
                        raise InfraError('driver positions: %r' % (pm,))
                    # offsets -> (line, column): the tokens' own coordinates (checked against the text by the token half of this property)
                    slc = {t[2]: (t[4], t[5]) for t in e['toks']}
                    elc = {t[3]: (t[6], t[7]) for t in e['toks']}
                    full = lambda sp: None if sp is None else [sp[0], slc[sp[0]][0], slc[sp[0]][1], sp[1], elc[sp[1]][0], elc[sp[1]][1]]
                    mm = [full(x[0]) for x in pm['metas'][0]]      # what the model of PropagatePositions computes
                    own = [full(x[1]) for x in pm['metas'][0]]     # SPEC: span of what the rule that built the node matched
                    if model_spans_check and shapelib.model_spans(m['built'][0], e['spans'], []) != own:
                        raise InfraError('span oracle of the harness and spans of the Lean model differ')
                    if len(mm) != len(e['metas']):
                        res.corr_break('model of PropagatePositions yields %d trees, the real result has %d' % (len(mm), len(e['metas'])),
                                       {'grammar': g, 'text': run['text'], 'engine': name, 'opts': rec['opts']}); continue
                    bad = [k for k, (a, b) in enumerate(zip(e['metas'], own)) if b is not None and a != b]
                    if not pm['clean']:
                        res.count('meta_cases_in_region_F19')
                    if bad:
                        k = bad[0]
                        if not pm['clean'] and e['metas'] == mm:
                            res.count('meta_F19_behaviour_as_modelled'); continue     # exactly what the model predicts inside the region of F19
                        res.violation('meta of a tree node is not the span (first token start .. last token end) of what its rule matched',
                                      {'grammar': g, 'text': run['text'], 'engine': name, 'opts': rec['opts'], 'node_preorder_index': k,
                                       'meta [start_pos,line,column,end_pos,end_line,end_column]': e['metas'][k], 'span_of_rule_yield': own[k],
                                       'model_of_PropagatePositions': mm[k], 'theorem_hypothesis_cleanB': pm['clean']})
                    elif e['metas'] != mm:
                        k = [i for i, (a, b) in enumerate(zip(e['metas'], mm)) if a != b][0]
                        res.corr_break('Tree.meta differs from the model of PropagatePositions (on a node the property does not constrain)',
                                       {'grammar': g, 'text': run['text'], 'engine': name, 'opts': rec['opts'], 'node_preorder_index': k, 'code': e['metas'][k], 'model': mm[k]})
                    continue
                res.case(['shape', g, run['text'], name, rec['opts']], nontrivial=len(e['labels']) > 1,
                         sample={'grammar': g, 'text': run['text'], 'engine': name, 'opts': rec['opts'], 'tree': strip_pos(real)} if len(e['labels']) > 3 and len(res.samples) < 4 else None)
                res.count('engine_' + name)
                if not m['wf']:
                    res.corr_break('derivation violates the well-formedness hypothesis of buildList_eq_shapeList (markers vs children)', {'grammar': g, 'text': run['text'], 'engine': name})
                if m['built'] != m['spec']:
                    res.corr_break('driver: buildList differs from shapeList', {'grammar': g, 'text': run['text']})
                mt = shapelib.model_tree(m['built'][0], e['labels'], e['toks'])
                if mt != real:
                    res.violation('tree returned by %s is not the documented shaping of the derivation the engine itself found' % name,
                                  {'grammar': g, 'text': run['text'], 'opts': rec['opts'], 'engine': name, 'returned': strip_pos(real), 'shaping_of_derivation': strip_pos(mt)})
                    continue
                trees[name] = real
            if not want_meta and not run['ambiguous'] and len(trees) > 1:
                res.count('unambiguous_inputs')
                ref_name, ref = next(iter(trees.items()))
                for name, t in trees.items():
                    if strip_pos(t) != strip_pos(ref):
                        res.violation('single derivation, but %s and %s return different trees' % (ref_name, name),
                                      {'grammar': g, 'text': run['text'], 'opts': rec['opts'], ref_name: strip_pos(ref), name: strip_pos(t)})
                        break
            elif not want_meta and run['ambiguous']:
                res.count('ambiguous_inputs')


def run(ctx, res):
    for f in ctx['known']:
        if f['id'] == 'F17' and f['status'] == 'fixed':
            from lark import Lark
            w = f['witness']
            t = Lark(w['grammar'], parser='lalr').parse(w['text'])
            b = [c for c in t.children if c.data == 'b'][0]
            if b.children:
                res.violation('regression of fixed finding F17: ' + f['what'], w)
    for f in ctx['known']:
        if f['id'] == 'F31' and f['status'] == 'fixed':
            from lark import Lark, Token
            w = f['witness']
            for parser in ('lalr', 'earley'):
                t = Lark(w['grammar'], parser=parser).parse(w['text'])
                if [len(c.children) for c in t.children] != [0, 2]:
                    res.violation('regression of fixed finding F31: ' + f['what'], dict(w, parser=parser, tree=str(t)))
                t = Lark(w['grammar2'], parser=parser).parse(w['text2'])
                kept = [[x.type for x in sub.scan_values(lambda v: isinstance(v, Token))] for sub in t.children]
                if kept != [['X', 'X'], ['X', 'COMMA', 'X']]:
                    res.violation('regression of fixed finding F31: ' + f['what'], dict(w, parser=parser, tree=str(t)))
    # hand-written shapes the random stream does not reach: alternatives of three and more symbols with a common first symbol whose names run together
    # when joined by '_' (helper non-terminals of CYK's normal form are named after the symbols they stand for), aliases on such alternatives
    corpus = [
        'start: rec+\nrec: KEY sep_value end | KEY sep value_end\nsep_value: SEP VAL\nend: "!"\nsep: SEP\nvalue_end: VAL ";"\nKEY: "k"\nSEP: "="\nVAL: "v"\n%ignore " "\n',
        'start: stmt+\nstmt: IF cond then _blk -> if_long | IF cond_then _blk -> if_short\ncond: "(" NAME ")"\nthen: "then" NAME\ncond_then: "[" NAME "]"\n_blk: "{" NAME "}"\nIF: "if"\nNAME: "n"\n%ignore " "\n',
        'start: a_b c d | a b_c d\na_b: "1"\nc: "2"\nd: "3"\na: "4"\nb_c: "5"\n%ignore " "\n',
    ]
    jobs, outs = shapelib.shape_stream(ctx, 3, 200, 6000, corpus=corpus)
    check(ctx, res, jobs, outs)
    # ---- EBNF level: lark's compilation of ? * + ~ groups, ! and keep_all_tokens vs an independent desugaring into explicit inlined helper rules
    import ebnflib
    ebnflib.check(ctx, res, 33, 500, 10000, big=False)
    ebnflib.check_maybe(ctx, res, 34, 400, 8000)
