"""C14 — scan() yields leftmost-longest non-overlapping matches consistent with parse()."""
import random, re, json
from common import pmap, run_driver_parallel, guarded, Timeout, tier_scale, exc_in_lark, InfraError
from props.c13 import canon


def gen_safe(rng):
    """prefix-free single-character terminals, blank ignored: the substring brute force is the definition (outside finding F9)"""
    nts = ['start'] + ['n%d' % i for i in range(rng.randint(0, 2))]
    terms = ['"a"', '"b"', '"c"', 'D'][:rng.randint(2, 4)]
    lines = []
    for nt in nts:
        alts = []
        for _ in range(rng.randint(1, 3)):
            k = rng.choice([0, 1, 1, 2, 2, 3]) if nt != 'start' or rng.random() < 0.3 else rng.choice([1, 2, 3])
            alts.append(' '.join(rng.choice(nts + terms + terms) for _ in range(k)))
        lines.append('%s: %s' % (nt, ' | '.join(dict.fromkeys(alts))))
    lines.append('D: "d"')
    if rng.random() < 0.7:
        lines.append('%ignore " "')
    return '\n'.join(lines) + '\n'


def gen_rich(rng):
    """keywords, identifiers, numbers, newline-bearing ignore: compared through the model loop only"""
    shapes = ['start: NAME "=" NUM ";"\n', 'start: KW NAME ("," NAME)*\n', 'start: "(" start ")" | NUM\n', 'start: NAME | NAME "." start\n', 'start: item+\nitem: NUM ":" NAME | KW\n',
              'start: [KW] NAME\n', 'start: NUM ("+" NUM)* |\n']
    g = rng.choice(shapes) + 'NAME: /[a-z]+/\nNUM: /[0-9]+/\nKW: "let"\n'
    g += rng.choice(['%ignore /[ \\n]+/\n', '%ignore " "\n', 'COMMENT: /#[^\\n]*/\n%ignore COMMENT\n%ignore /[ \\n]+/\n'])
    return g


def gen_ctx(rng):
    """one sub-rule reached through the same LALR state and stack depth in a context that rejects end-of-input after it and one that accepts it"""
    a, b, c, d = rng.sample('abcd', 4)
    return rng.choice(['start: "%s" x "%s" | "%s" x\nx: "%s"\n' % (a, d, b, c), 'start: pair+\npair: "%s" x "%s" | "%s" x\nx: "%s" | "%s" "%s"\n' % (a, d, b, c, c, c),
                       'start: "%s" x "%s" "%s" | "%s" x | x "%s"\nx: "%s"\n' % (a, d, d, b, a, c)]) + rng.choice(['%ignore " "\n', ''])


def gen_multi(rng):
    """several start rules whose opening terminals differ"""
    a, b, c, d = rng.sample('abcd', 4)
    return rng.choice(['s0: "%s" "%s"\ns1: "%s" "%s"?\n' % (a, b, c, d), 's0: "%s"+\ns1: "%s" s0 | "%s"\ns2: "%s"\n' % (a, b, c, d), 's0: x "%s"\ns1: "%s" x\nx: "%s" | "%s"\n' % (a, b, c, d)]) + rng.choice(['%ignore " "\n', ''])


def gen_overlap(rng):
    """an %ignore pattern that can begin where a start terminal begins (and win there), hiding a real start inside its span"""
    return rng.choice(['start: "a" "c"\n%ignore /aba/\n', 'start: "#" WORD+\nWORD: /[a-z]+/\n%ignore /#![^ \\n]*/\n%ignore " "\n', 'start: A B\nA: "a"\nB: "b"\n%ignore /ab+a/\n%ignore " "\n',
                       'start: "a" "b"+\n%ignore /ab?c/\n', 'start: X+ ";"\nX: "x"\n%ignore /x;x/\n%ignore " "\n',
                       # the ignored span can hold a whole match that does not begin at its first character, and the attempt after it consumes a token before failing
                       'start: "a" "b"\n%ignore /a+x[ab]*;/\n', 'start: A B\nA: "a"\nB: "b"\n%ignore /a;[ab]*;/\n%ignore " "\n', 'start: "a" "b" "c"?\n%ignore /a+x[abc]*;/\n',
                       'start: X "=" Y\nX: /[a-c]+/\nY: /[x-y]+/\n%ignore /c;[^ ]*/\n%ignore " "\n'])


def brute(p, data, lo, hi, blank, start='start'):
    from lark.exceptions import UnexpectedInput
    out = []; pos = lo
    while pos < hi:
        found = None
        for s in range(pos, hi):
            if data[s:s + 1] == blank: continue
            best = None
            for e in range(hi, s, -1):
                if data[e - 1:e] == blank: continue
                try:
                    p.parse(data[s:e], start=start); best = e; break
                except UnexpectedInput:
                    pass
            if best is not None:
                found = (s, best); break
        if not found: break
        out.append(list(found)); pos = found[1]
    return out


def _case(args):
    g, seed, safe = args
    from lark import Lark, Token
    from lark.utils import TextSlice
    from lark.exceptions import GrammarError, UnexpectedInput, LarkError
    rng = random.Random(seed)
    lx = rng.choice(['basic', 'contextual'])
    use_bytes = rng.random() < 0.25
    starts = re.findall(r'^(s[0-9]): ', g, re.M) or ['start']
    gflags = re.I if rng.random() < 0.2 else 0        # global regexp flags change what every terminal — and the search for a snippet's start — matches
    try:
        with guarded(5):
            p = Lark(g, parser='lalr', lexer=lx, use_bytes=use_bytes, propagate_positions=True, start=starts, g_regex_flags=gflags)
    except (GrammarError, LarkError):
        return {'nobuild': True}
    recs = []
    for _ in range(4):
        if safe == 'overlap':
            text = ''.join(rng.choice(['a', 'b', 'c', 'aba', 'ab', 'abc', '#', '#!', 'x', 'y', ';', 'x;x', ' ', 'ax', 'axab;', 'a;ab;', 'c;a=x', '=', 'ab;']) for _ in range(rng.randint(0, 9)))
        elif safe:
            text = ''.join(rng.choice('abcd  x') for _ in range(rng.randint(0, 10)))
        else:
            text = ''.join(rng.choice(['x', 'ab', 'let', '1', '42', '=', ';', ',', '.', '(', ')', ':', '+', ' ', ' ', '\n', '#c\n', '?']) for _ in range(rng.randint(0, 12)))
        if gflags:
            text = ''.join(ch.upper() if rng.random() < 0.4 else ch for ch in text)
        data = text.encode('latin-1') if use_bytes else text
        lo = rng.randint(0, len(text)) if rng.random() < 0.35 else 0
        hi = rng.randint(lo, len(text)) if rng.random() < 0.35 else len(text)
        ts = TextSlice(data, lo, hi)
        rec = {'text': text, 'lo': lo, 'hi': hi, 'lexer': lx, 'bytes': use_bytes, 'g_regex_flags': int(gflags)}
        with guarded(10):
            st_ = rng.choice(starts)            # (several start rules: one instance scanned with different start= values in sequence)
            rec['start'] = st_
            ms = list(p.scan(ts, start=st_) if len(starts) > 1 else p.scan(ts))
        rec['ranges'] = [list(m.range) for m in ms]
        # values = parse of the snippet, coordinates of the whole buffer
        vals_ok = True
        for m in ms:
            s, e = m.range
            try:
                ref = p.parse(TextSlice(data, s, e), start=st_)
                if canon(ref) != canon(m.value):
                    vals_ok = False; rec['value_diff'] = {'range': [s, e], 'scan': canon(m.value), 'parse': canon(ref)}
            except UnexpectedInput as ex:
                vals_ok = False; rec['value_diff'] = {'range': [s, e], 'parse_error': type(ex).__name__}
        rec['values_ok'] = vals_ok
        # ---- oracle tables for the model loop
        start_state = p.parser.parser._parse_table.start_states[st_]
        lexer = p.parser.lexer
        sub = lexer.lexers[start_state] if hasattr(lexer, 'lexers') else lexer
        flags = p.options.g_regex_flags
        cands = [t for t in sub.terminals if t.name not in p.ignore_tokens]
        comp = [re.compile(t.pattern.to_regexp().encode('latin-1') if use_bytes else t.pattern.to_regexp(), flags) for t in cands]
        search = []
        for pos in range(lo, hi + 1):
            qs = [m.start() for m in (c.search(data, pos, hi) for c in comp) if m]
            if qs:
                search.append([pos, min(qs)])
        attempt = []
        first_start = {}
        for s in range(lo, hi):
            with guarded(10):
                ip = p.parse_interactive(TextSlice(data, s, hi), start=st_)
                ip.parser_state.parse_conf.callbacks = {}
                toks, longest = [], 0
                try:
                    for tok in ip.lexer_thread.lex(ip.parser_state):
                        ip.feed_token(tok); toks.append(tok)
                        if '$END' in ip.choices():
                            probe = ip.copy(deepcopy_values=False)
                            try:
                                probe.feed_token(Token.new_borrow_pos('$END', '', tok))
                                longest = len(toks)
                            except UnexpectedInput:
                                pass
                except UnexpectedInput:
                    pass
            if longest:
                attempt.append([s, toks[longest - 1].end_pos]); first_start[s] = toks[0].start_pos
        rec['search'], rec['attempt'], rec['first_start'] = search, attempt, first_start
        if safe is True:
            with guarded(20):
                rec['brute'] = brute(p, data, lo, hi, b' ' if use_bytes else ' ', st_)
        recs.append(rec)
    return {'grammar': g, 'recs': recs}


def run(ctx, res):
    rng = random.Random(ctx['seed'] * 1000003 + 14)
    N = tier_scale(ctx['tier'], 20000, 120000) * (3 if ctx['deepen'] else 1)
    jobs = []
    import lalrlib
    for i in range(N):
        safe = i % 2 == 0
        if i % 8 == 2:
            jobs.append((rng.choice([gen_ctx(rng), lalrlib.gen_lalr(rng, prio_p=0) + '%ignore " "\n']), rng.randrange(1 << 30), True))      # merged-lookahead / shared-core LALR shapes
        elif i % 8 == 5:
            jobs.append((gen_overlap(rng), rng.randrange(1 << 30), 'overlap'))
        elif i % 8 == 7:
            jobs.append((gen_multi(rng), rng.randrange(1 << 30), True))
        else:
            jobs.append(((gen_safe if safe else gen_rich)(rng), rng.randrange(1 << 30), safe))
    for f in ctx['known']:
        if f['id'] == 'F9' and f['status'] == 'open':
            from lark import Lark
            w = f['witness']
            p = Lark(w['grammar'], parser='lalr')
            if [m.range for m in p.scan(w['text'])] == [] and p.parse('a') is not None:
                res.known_hits.append(('F9', '%s: %r, scan(%r) == [] although parse("a") succeeds at offset 0' % (f['what'], w['grammar'], w['text'])))
    outs = pmap(_case, jobs, chunksize=4)
    cases, meta = [], []
    for job, (st, rec) in zip(jobs, outs):
        if st != 'ok':
            if st == 'exc':
                if not exc_in_lark(rec):
                    raise InfraError(rec)
                res.violation('scan() raised an unexpected exception', {'grammar': job[0], 'seed': job[1], 'detail': rec})
            else:
                res.inconclusive[st] = res.inconclusive.get(st, 0) + 1
            continue
        if rec.get('nobuild'):
            res.count('not_lalr'); continue
        for r in rec['recs']:
            cases.append({'op': 'scan', 'n': r['hi'], 'pos': r['lo'], 'search': r['search'], 'attempt': r['attempt']}); meta.append((rec['grammar'], r, job[2]))
    model = run_driver_parallel(cases)
    for (g, r, safe), m in zip(meta, model):
        if isinstance(m, dict) and 'error' in m:
            raise InfraError('driver: %s' % m['error'])
        where = {'grammar': g, 'text': r['text'], 'window': [r['lo'], r['hi']], 'lexer': r['lexer'], 'bytes': r['bytes']}
        res.case(['scan', g, r['text'], r['lo'], r['hi'], r['lexer'], r['bytes']], nontrivial=len(r['ranges']) > 0,
                 sample=dict(where, matches=r['ranges']) if len(r['ranges']) > 1 and len(res.samples) < 4 else None)
        res.count('safe' if safe else 'rich'); res.count('matches', len(r['ranges']))
        if (r['lo'], r['hi']) != (0, len(r['text'])): res.count('windows')
        if r['bytes']: res.count('bytes')
        want = [[r['first_start'].get(str(s), r['first_start'].get(s, s)), e] for s, e in m]
        if r['ranges'] != want:
            res.violation('scan() ranges differ from the verified loop (next candidate, longest completed token prefix, resume at its end / one past the candidate)',
                          dict(where, scan=r['ranges'], model=want)); continue
        if any(a[1] > b[0] for a, b in zip(r['ranges'], r['ranges'][1:])) or any(s >= e for s, e in r['ranges']):
            res.violation('matches overlap or are empty', dict(where, scan=r['ranges'])); continue
        if not r['values_ok']:
            res.violation('a match value differs from parse() of the snippet (tree, token positions or meta in full-text coordinates)', dict(where, detail=r.get('value_diff'))); continue
        if safe is True and r['brute'] != r['ranges']:
            res.violation('scan() is not leftmost-longest over the substrings that parse (prefix-free terminals)', dict(where, scan=r['ranges'], brute_force=r['brute']))
