"""Shared by C02 / C08 / C13 / C14: random LALR grammars, export of lark's own analyzer and table, model driver calls."""
import random, re, json
from common import guarded, Timeout, pmap, run_driver_parallel, tier_scale

TERMS = [('A', '"a"'), ('B', '"b"'), ('C', '"c"'), ('D', '"d"')]


def gen_lalr(rng, prio_p=0.25):
    """random CFG text; about half of them are deliberately LALR-friendly shapes (lists, expressions, nullable suffixes, shared cores)"""
    r = rng.random()
    k = rng.randint(1, 4)
    tn = [t for t, _ in TERMS[:k]]
    if r < 0.5:
        nts = ['start'] + ['n%d' % i for i in range(rng.randint(0, 4))]
        lines = []
        for nt in nts:
            alts = []
            for _ in range(rng.randint(1, 3)):
                n = rng.choice([0, 1, 1, 2, 2, 3])
                alts.append(' '.join(rng.choice(nts + tn + tn) for _ in range(n)))
            alts = list(dict.fromkeys(alts))
            pr = '.%d' % rng.randint(1, 3) if rng.random() < prio_p else ''
            lines.append('%s%s: %s' % (nt, pr, ' | '.join(alts)))
    else:
        t = lambda: rng.choice(tn)
        shape = rng.choice(['list', 'expr', 'nullsuffix', 'sharedcore', 'opt', 'nested', 'nullchain', 'nullchain', 'indirect'])
        if shape == 'list':
            lines = ['start: item | start %s item' % t(), 'item: %s | %s start %s |' % (t(), t(), t()) if rng.random() < 0.5 else 'item: %s | %s' % (t(), t())]
        elif shape == 'expr':
            a, b, c = t(), t(), t()
            lines = ['start: start %s term | term' % a, 'term: term %s atom | atom' % b, 'atom: %s | %s start %s' % (c, a, b)]
        elif shape == 'nullsuffix':
            lines = ['start: %s x y z' % t(), 'x: %s |' % t(), 'y: %s |' % t(), 'z: %s | x' % t() if rng.random() < 0.5 else 'z: %s |' % t()]
        elif shape == 'sharedcore':
            a, b, c, d = t(), t(), t(), t()
            lines = ['start: %s u %s | %s v %s | %s u %s' % (a, c, b, d, b, c) if rng.random() < 0.5 else 'start: %s u %s | %s v %s' % (a, c, b, d), 'u: w', 'v: w', 'w: %s |' % t()]
        elif shape == 'nullchain':
            # nullability that needs several fixpoint rounds: a chain of unit rules ending in an empty alternative, listed top-down or bottom-up,
            # sitting between a nonterminal and a terminal (so that a reduction's lookahead depends on it)
            depth = rng.randint(2, 5); q, x, y = t(), t(), t()
            chain = []
            for i in range(depth):
                alt = ' '.join([q] * (i + 1)) if rng.random() < 0.8 else t()
                chain.append('c%d: c%d | %s' % (i, i + 1, alt))
            chain.append('c%d: | %s' % (depth, ' '.join([q] * (depth + 1))))
            if rng.random() < 0.3:
                chain.reverse()
            head = rng.choice(['start: a c0 %s' % x, 'start: a c0 %s | c0 a' % x, 'start: a c0 c1 %s' % x, 'start: %s a c0' % x])
            lines = [head, 'a: %s' % y] + chain
        elif shape == 'indirect':
            # indirect left recursion (a leftmost cycle through two or three nonterminals): the closure of a kernel has to follow the cycle all the way round
            ts = [t() for _ in range(6)]
            if rng.random() < 0.5:
                lines = ['start: %s y | %s x' % (ts[0], ts[1]), 'x: y %s | %s' % (ts[2], ts[3]), 'y: x %s | %s' % (ts[4], ts[5])]
            else:
                lines = ['start: %s x %s | y' % (ts[0], ts[1]), 'x: y %s | %s' % (ts[2], ts[3]), 'y: z %s' % ts[4], 'z: x %s | %s' % (ts[5], ts[0])]
            if rng.random() < 0.3:
                rng.shuffle(lines)
        elif shape == 'opt':
            lines = ['start: a b c', 'a: %s |' % t(), 'b: %s a |' % t(), 'c: %s | a %s' % (t(), t())]
        else:
            a, b = t(), t()
            lines = ['start: %s start %s | m' % (a, b), 'm: %s m | k' % t(), 'k: | %s' % t()]
        if rng.random() < prio_p:
            i = rng.randrange(len(lines)); n, rest = lines[i].split(':', 1)
            lines[i] = '%s.%d:%s' % (n, rng.randint(1, 3), rest)
    for n, sp in TERMS[:k]:
        lines.append('%s: %s' % (n, sp))
    return '\n'.join(lines) + '\n'


def export(g):
    """run lark's LALR_Analyzer directly on the compiled rules; returns a JSON-able description (or the GrammarError)"""
    from lark import Lark
    from lark.exceptions import GrammarError
    from lark.parsers.lalr_analysis import LALR_Analyzer, Shift, Reduce
    from lark.common import ParserConf
    pe = Lark(g, parser='earley', lexer='basic')     # compile the grammar only
    rules = list(pe.rules)
    conf = ParserConf(rules, {}, ['start'])
    a = LALR_Analyzer(conf, debug=True)
    a.compute_lr0_states(); a.compute_reads_relations(); a.compute_includes_lookback(); a.compute_lookaheads()
    # ---- symbols
    nts = sorted({r.origin.name for r in rules} | {'$root_start'})
    terms = sorted({s.name for r in rules for s in r.expansion if s.is_term} | {'$END'})
    tid = {t: i for i, t in enumerate(terms)}
    nid = {n: i for i, n in enumerate(nts)}
    allrules = list(rules)     # the root rule ($root_start -> start) is appended by rix() when first met
    ridx = {id(r): i for i, r in enumerate(allrules)}
    def rix(r):
        if id(r) not in ridx:
            ridx[id(r)] = len(allrules); allrules.append(r)
        return ridx[id(r)]
    states = list(a.lr0_itemsets)
    sid = {id(s): i for i, s in enumerate(states)}
    out = {'grammar': g, 'terms': terms, 'nts': nts}
    rows = []
    for st in states:
        shifts = []
        for sym, nxt in st.transitions.items():
            shifts.append([tid[sym.name] if sym.is_term else len(terms) + nid[sym.name], sid[id(nxt)]])
        las = []
        for la, rs in st.lookaheads.items():
            las.append([tid[la.name], sorted([[r.options.priority or 0, rix(r)] for r in rs], key=lambda x: x[1])])
        rows.append({'shifts': sorted(shifts), 'las': sorted(las)})
    out['rows'] = rows
    out['items'] = [sorted([rix(rp.rule), rp.index] for rp in st.closure) for st in states]
    out['kernels'] = [sorted([rix(rp.rule), rp.index] for rp in st.kernel) for st in states]
    out['rules'] = [{'lhs': nid[r.origin.name], 'rhs': [[1, tid[s.name]] if s.is_term else [0, nid[s.name]] for s in r.expansion]} for r in allrules]
    out['rule_names'] = [(r.origin.name, [s.name for s in r.expansion]) for r in allrules]
    out['plain_rules'] = [(r.origin.name, tuple((s.is_term, s.name) for s in r.expansion)) for r in rules]
    out['prio'] = [r.options.priority or 0 for r in allrules]
    out['start_state'] = sid[id(a.lr0_start_states['start'])]
    # lark's own NULLABLE / FIRST (grammar_analysis.calculate_sets), for the completeness certificate
    out['nullable'] = sorted(nid[s.name] for s in a.NULLABLE if not s.is_term and s.name in nid)
    out['first'] = sorted([nid[s.name], sorted(tid[t.name] for t in fs if t.name in tid)] for s, fs in a.FIRST.items() if not s.is_term and s.name in nid)
    # ---- lark's own decision
    try:
        a.compute_lalr1_states()
        pt = a.parse_table
        closure_sid = {st.closure: sid[id(st)] for st in states}
        table = []
        for st in states:
            row = []
            for name, (act, arg) in pt.states[st.closure].items():
                key = tid[name] if name in tid else len(terms) + nid[name]
                row.append([key, ['s', closure_sid[arg]] if act is Shift else ['r', rix(arg)]])
            table.append(sorted(row))
        out['table'] = table
        out['final_state'] = closure_sid[pt.end_states['start']]
        out['error'] = None
    except GrammarError as e:
        out['error'] = str(e)[:300]
    return out


def ftable_case(ex, toks, fuel=400, ann=None):
    """driver request: lark's own table + a token string"""
    T = len(ex['terms'])
    shifts, reduces, gotos = [], [], []
    for q, row in enumerate(ex['table']):
        for key, (kind, arg) in row:
            if kind == 's':
                (shifts if key < T else gotos).append([q, key if key < T else key - T, arg])
            else:
                reduces.append([q, key, arg])
    case = {'op': 'lr_parse', 'rules': ex['rules'], 'items': ex['items'], 'shifts': shifts, 'reduces': reduces, 'gotos': gotos,
            'start': ex['start_state'], 'final': ex['final_state'], 's0': ex['nts'].index('start'), 'eof': ex['terms'].index('$END'),
            'toks': toks, 'fuel': fuel, 'terms': list(range(T))}
    if ann is not None:
        case.update(ann=ann, nuser=len(ex['plain_rules']), nullable=ex['nullable'], first=ex['first'])
    return case


def sample_tokens(rng, ex, max_depth=6):
    by = {}
    for lhs, rhs in ex['plain_rules']:
        by.setdefault(lhs, []).append(rhs)
    out = []
    def go(name, d):
        alts = by.get(name)
        if not alts:
            return False
        alts = sorted(alts, key=len) if d <= 0 else alts
        r = alts[0] if d <= 0 else rng.choice(alts)
        for is_term, n in r:
            if is_term:
                out.append(n)
            elif d < -6 or not go(n, d - 1):
                return False
        return len(out) <= 12
    try:
        return out if go('start', max_depth) else None
    except RecursionError:
        return None


def has_derivation_cycle(plain_rules):
    """some nonterminal derives itself (X =>+ X): unit rules, possibly surrounded by nullable symbols"""
    nullable = set(); ch = True
    while ch:
        ch = False
        for l, r in plain_rules:
            if l not in nullable and all((not t) and n in nullable for t, n in r):
                nullable.add(l); ch = True
    edges = {}
    for l, r in plain_rules:
        for i, (t, n) in enumerate(r):
            if t:
                continue
            if all((not t2) and n2 in nullable for j, (t2, n2) in enumerate(r) if j != i):
                edges.setdefault(l, set()).add(n)
    def reach(a):
        seen, work = set(), list(edges.get(a, ()))
        while work:
            x = work.pop()
            if x in seen:
                continue
            seen.add(x); work.extend(edges.get(x, ()))
        return seen
    return any(a in reach(a) for a in edges)
