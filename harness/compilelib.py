"""Source-level metamorphic oracle for the grammar loader (C01): the Earley checks start from lark's *compiled* rules and terminals, so a defect in
load_grammar (naming of anonymous terminals, pruning of unused rules/terminals) is invisible to them.  Here a grammar is generated as an AST and rendered twice:
  as written  — anonymous literals (incl. punctuation, whose automatic names PLUS, COLON, ... may collide with user terminals), unreachable rule chains
                holding keywords, unused terminals;
  as meant    — rules nothing else mentions (iterated) and unused terminals removed by *this module's* own computation, every anonymous literal given an explicit, unique,
                filtered name (or the user's terminal with exactly that string, as documented).
Both denote the same language for every lexer; lark must accept the same texts under basic, dynamic and dynamic_complete."""
import random, re
from common import guarded, Timeout

NAMED = [('T0', '"a"'), ('T1', '"b"'), ('T2', '/[ab]+/'), ('T3', '/a+/'), ('T4', '"c"'), ('T5', '/c+/'), ('T6', '"ab"')]
TRAPS = [('PLUS', '"++"'), ('COLON', '"::"'), ('A', '"aa"'), ('AB', '"b"'), ('PLUS', '/\\++/'), ('MINUS', '"--"'), ('DOT', '".."'), ('B', '/b+/')]
LITS = ['a', 'b', 'ab', 'aa', 'c', '+', ':', '++', '-', '.', 'ba']
TRAP_LITERAL = {'PLUS': '+', 'COLON': ':', 'MINUS': '-', 'DOT': '.', 'A': 'a', 'AB': 'ab', 'B': 'b'}
# terminals defined by alternatives (lark joins them into one regexp, longest option first); the widest alternative contains the others, so that the
# joined regexp's preferred match is the longest one (outside finding F6's region); as meant: one terminal per alternative under an inlined rule
ALT_TERMS = [('T7', ['"ab"', '/[ab]+/']), ('T8', ['"a"', '/a+/']), ('T9', ['"ba"', '"b"', '/b[ab]*/']), ('T7', ['/[ab]+/', '"ab"', '"abb"'])]
# terminals defined by a *sequence* of items one of which is a regexp alternation (lark concatenates the items' regexps into one): as meant, one terminal
# per item under an inlined rule (no ignored text in these grammars, so the two readings have the same language)
SEQ_TERMS = [('T10', ['/a|b/', '"c"']), ('T10', ['"a"', '/b|c/']), ('T11', ['/ab|c/', '"b"']), ('T11', ['"c"', '/a|b/', '"c"']), ('T10', ['/a|b/', '/b|c/'])]
IGNORES = [('" "', [' ']), ('/ +/', [' ', '  ']),
           # compound %ignore expressions (an alternative or a sequence that begins with a terminal name): (as meant, samples, as written)
           ('" " | "_"', [' ', '_'], 'SP: " "\nUS: "_"\n%ignore SP | US'), ('" " "_"', [' _'], 'SP: " "\nUS: "_"\n%ignore SP US'),
           ('" " | "_" | "~"', [' ', '_', '~'], 'SP: " "\nUS: "_"\n%ignore SP | US | "~"'), ('" "+ | "_"', [' ', '  ', '_'], 'SP: " "\nUS: "_"\n%ignore SP+ | US')]


def gen(rng):
    nts = ['start'] + ['n%d' % i for i in range(rng.randint(0, 2))]
    named = dict(rng.sample(NAMED, rng.randint(1, 3)))
    forced = []
    for k, v in rng.sample(TRAPS, rng.choice([0, 1, 1, 2])):
        if k not in named:
            named[k] = v
            if k in TRAP_LITERAL and rng.random() < 0.7:
                forced.append(TRAP_LITERAL[k])      # the literal whose automatic name is the user's terminal name
    alt_term = None
    if rng.random() < 0.25:
        alt_term = rng.choice(ALT_TERMS)
        named[alt_term[0]] = ' | '.join(alt_term[1])
    seq_term = None
    if alt_term is None and rng.random() < 0.15:
        seq_term = rng.choice(SEQ_TERMS)
        named[seq_term[0]] = ' '.join(seq_term[1])
    tn = list(named)
    def sym(pool_nts):
        r = rng.random()
        if r < 0.3: return ('nt', rng.choice(pool_nts))
        if r < 0.6: return ('T', rng.choice(tn))
        return ('lit', rng.choice(LITS))
    rules = {}
    for nt in nts:
        alts = []
        for _ in range(rng.randint(1, 3)):
            r = rng.random()
            if r < 0.15: a = [('nt', nt), sym(nts)]
            elif r < 0.3: a = [sym(nts), ('nt', nt)]
            elif r < 0.36: a = []
            else: a = [sym(nts) for _ in range(rng.choice([1, 1, 2, 2, 3]))]
            if a not in alts: alts.append(a)
        rules[nt] = alts
    for lit in forced:
        a = rng.choice(rules['start'])
        a.insert(rng.randint(0, len(a)), ('lit', lit))
    if alt_term and not any(x == ('T', alt_term[0]) for n in rules for a in rules[n] for x in a):
        rules['start'].append([('T', alt_term[0])] + ([('T', alt_term[0])] if rng.random() < 0.5 else []))
    if seq_term and not any(x == ('T', seq_term[0]) for n in rules for a in rules[n] for x in a):
        rules['start'].append([('T', seq_term[0])] + ([('T', seq_term[0])] if rng.random() < 0.5 else []))
    # a large ranged repetition (compiled through factored helper rules): `"c" x~n..m` as one more alternative of start
    big = None
    if rng.random() < 0.1:
        n_ = rng.randint(0, 12); span = rng.choice([50, 64, 75, 100, 51, 60, 7, 49])
        big = (rng.choice(['a', 'ab', '+']), n_, n_ + span - 1)
        rules['start'].append([('lit', 'c'), ('rep',) + big])
    # unreachable chains d0 -> d1 -> ... (each referenced only by its predecessor), holding keywords that collide with live regexps
    dead = []
    for c in range(rng.choice([0, 1, 1, 2])):
        k = rng.randint(1, 3)
        names = ['d%d_%d' % (c, i) for i in range(k)]
        for i, n in enumerate(names):
            body = [('lit', rng.choice(LITS))] + ([sym(nts)] if rng.random() < 0.5 else [])
            if i + 1 < k: body.append(('nt', names[i + 1]))
            rules[n] = [body] + ([[('lit', rng.choice(LITS))]] if rng.random() < 0.3 else [])
        dead += names
    ign = rng.choice(IGNORES) if rng.random() < 0.5 and not seq_term else None
    return {'rules': rules, 'named': named, 'ignore': ign, 'big': big, 'alt_term': alt_term, 'seq_term': seq_term}


def _render(rules, named, ign, lit_name=None):
    out = []
    for nt, alts in rules.items():
        def s(x):
            if x[0] == 'lit':
                return lit_name[x[1]] if lit_name is not None else '"%s"' % x[1]
            if x[0] == 'rep':
                if lit_name is None:
                    return '"%s"~%d..%d' % (x[1], x[2], x[3])
                return '_bigrep'          # as meant: every count written out (rule _bigrep below)
            return x[1]
        out.append('%s: %s' % (nt, ' | '.join(' '.join(s(x) for x in a) for a in alts)))
    for k, v in named.items():
        out.append('%s: %s' % (k, v))
    if ign:
        if len(ign) > 2 and lit_name is None:
            out.append(ign[2])                  # as written: a compound %ignore expression over named terminals
        else:
            out.append('WS: %s' % ign[0]); out.append('%ignore WS')
    return '\n'.join(out) + '\n'


def as_written(ast):
    return _render(ast['rules'], ast['named'], ast['ignore'])


def as_meant(ast):
    rules, named = ast['rules'], ast['named']
    # lark removes a rule when no *other* remaining rule mentions it (iterated to a fixpoint) — chains of dead rules go, dead rules that mention each
    # other stay (and so do their terminals): the same rule is applied here, independently
    live = set(rules)
    while True:
        used = {'start'} | {x[1] for n in live for a in rules[n] for x in a if x[0] == 'nt' and x[1] != n}
        if live <= used:
            break
        live &= used
    lrules = {n: a for n, a in rules.items() if n in live}
    used_t = {x[1] for a in lrules.values() for alt in a for x in alt if x[0] == 'T'}
    lits = list(dict.fromkeys(x[1] for a in lrules.values() for alt in a for x in alt if x[0] in ('lit', 'rep')))
    by_string = {v[1:-1]: k for k, v in named.items() if v.startswith('"')}       # "If already defined, use the user-defined terminal name"
    lit_name, extra = {}, {}
    for i, s_ in enumerate(lits):
        if s_ in by_string:
            lit_name[s_] = by_string[s_]; used_t.add(by_string[s_])
        else:
            lit_name[s_] = '_L%d' % i; extra['_L%d' % i] = '"%s"' % s_
    lnamed = {k: v for k, v in named.items() if k in used_t}
    lnamed.update(extra)
    if ast.get('alt_term') and ast['alt_term'][0] in lnamed:
        tname, alts_ = ast['alt_term']
        del lnamed[tname]
        for i, a_ in enumerate(alts_):
            lnamed['_%s_%d' % (tname, i)] = a_
        lrules = {n: [[(('nt', '_alt_' + tname.lower()) if x == ('T', tname) else x) for x in a] for a in alts] for n, alts in lrules.items()}
        lrules['_alt_' + tname.lower()] = [[('T', '_%s_%d' % (tname, i))] for i in range(len(alts_))]
    if ast.get('seq_term') and ast['seq_term'][0] in lnamed:
        tname, parts_ = ast['seq_term']
        del lnamed[tname]
        for i, a_ in enumerate(parts_):
            lnamed['_%s_%d' % (tname, i)] = a_ if a_.startswith('"') else '/(?:%s)/' % a_[1:-1]
        lrules = {n: [[(('nt', '_seq_' + tname.lower()) if x == ('T', tname) else x) for x in a] for a in alts] for n, alts in lrules.items()}
        lrules['_seq_' + tname.lower()] = [[('T', '_%s_%d' % (tname, i)) for i in range(len(parts_))]]
    txt = _render(lrules, lnamed, ast['ignore'], lit_name)
    if ast.get('big'):
        item, lo, hi = ast['big']
        txt = '_bigrep: %s\n' % ' | '.join(' '.join([lit_name[item]] * k) for k in range(lo, hi + 1)) + txt
    return txt


def _case(seed):
    from lark import Lark
    from lark.exceptions import LarkError, UnexpectedInput
    import earleylib
    rng = random.Random(seed)
    ast = gen(rng)
    gw, gm = as_written(ast), as_meant(ast)
    rec = {'as_written': gw, 'as_meant': gm, 'diffs': [], 'compared': 0, 'builds': {}}
    texts = None
    for lexer in ('basic', 'dynamic', 'dynamic_complete'):
        if (ast.get('alt_term') or ast.get('seq_term')) and lexer != 'dynamic_complete':
            continue        # one terminal per alternative tokenises differently under the other lexers; the exact language is dynamic_complete's
        ps = []
        for g in (gw, gm):
            try:
                with guarded(8):
                    ps.append(Lark(g, parser='earley', lexer=lexer))
            except LarkError as e:
                ps.append(type(e).__name__ + ': ' + str(e)[:80])
            except Timeout:
                ps.append('timeout')
        rec['builds'][lexer] = ['ok' if not isinstance(p, str) else p for p in ps]
        if isinstance(ps[0], str) or isinstance(ps[1], str):
            if isinstance(ps[0], str) != isinstance(ps[1], str) and 'timeout' not in ps:
                rec['diffs'].append({'lexer': lexer, 'construction': rec['builds'][lexer]})
            continue
        if texts is None:
            texts = []
            for _ in range(5):
                s = earleylib.sample_sentence(rng, ps[1])
                if s is not None and len(s) <= 14:
                    texts.append(s)
                    if s and rng.random() < 0.4:
                        k = rng.randrange(len(s)); texts.append(s[:k] + rng.choice('ab+: ') + s[k + 1:])
            al = list('aabbc+:-. ') + (list(ast['ignore'][1]) * 2 if ast.get('ignore') and len(ast['ignore']) > 2 else [])
            texts += [''.join(rng.choice(al) for _ in range(rng.randint(0, 6))) for _ in range(4)]
            if ast.get('big'):
                item, lo, hi = ast['big']
                texts += ['c' + item * k for k in sorted({max(lo - 1, 0), lo, lo + 9, lo + 10, (lo + hi) // 2, hi - 1, hi, hi + 1})]
            texts = list(dict.fromkeys(texts))
        for t in texts:
            r = []
            for p in ps:
                try:
                    with guarded(6):
                        p.parse(t); r.append(True)
                except UnexpectedInput:
                    r.append(False)
                except Timeout:
                    r.append(None)
            if None in r:
                continue
            rec['compared'] += 1
            rec['accepted'] = rec.get('accepted', 0) + (1 if r[1] else 0)
            if r[0] != r[1]:
                rec['diffs'].append({'lexer': lexer, 'text': t, 'as_written_accepts': r[0], 'as_meant_accepts': r[1]})
    return rec


def check(ctx, res, salt, n_quick, n_thorough):
    from common import pmap, tier_scale, exc_in_lark, InfraError
    rng = random.Random(ctx['seed'] * 1000003 + salt)
    seeds = [rng.randrange(1 << 30) for _ in range(tier_scale(ctx['tier'], n_quick, n_thorough) * (3 if ctx['deepen'] else 1))]
    for seed, (st, rec) in zip(seeds, pmap(_case, seeds, chunksize=4)):
        if st != 'ok':
            if st == 'exc':
                if not exc_in_lark(rec):
                    raise InfraError(rec)
                res.violation('loading/parsing a grammar raised an unexpected exception', {'seed': seed, 'detail': rec})
            else:
                res.inconclusive[st] = res.inconclusive.get(st, 0) + 1
            continue
        res.case(['loader', rec['as_written']], nontrivial=rec['compared'] > 0,
                 sample={'as_written': rec['as_written'], 'as_meant': rec['as_meant']} if rec.get('accepted', 0) > 2 and 'd0_1' in rec['as_written'] and len(res.samples) < 6 else None)
        res.count('loader_grammars'); res.count('loader_comparisons', rec['compared']); res.count('loader_accepted', rec.get('accepted', 0))
        res.count('loader_with_dead_chain', 1 if 'd0_1' in rec['as_written'] else 0)
        res.count('loader_with_name_trap', 1 if re.search(r'^(PLUS|COLON|MINUS|DOT|A|AB|B):', rec['as_written'], re.M) else 0)
        for lx, b in rec['builds'].items():
            if b != ['ok', 'ok']:
                res.count('loader_build_' + '_'.join(x.split(':')[0] for x in b))
        for d in rec['diffs']:
            res.violation('the grammar as written (anonymous literals, unreachable rules, unused terminals) and the same grammar with explicit names and without the '
                          'unreachable parts do not accept the same texts', {'as_written': rec['as_written'], 'as_meant': rec['as_meant'], 'detail': d})
