"""Shared by C01 / C08 (/ C04, C05, C20): random CFGs, running real Earley with column snapshots, spec lattices."""
import re, random
from common import guarded, Timeout

# terminals whose regex-preferred match is the longest member prefix and whose language is closed under the
# truncation procedure of dynamic_complete (outside finding F6's region); (spelling, python regex)
TERM_POOL = [('"a"', 'a'), ('"b"', 'b'), ('"c"', 'c'), ('"ab"', 'ab'), ('/a+/', 'a+'), ('/[ab]+/', '[ab]+'), ('/b+c?/', 'b+c?'), ('"aa"', 'aa'), ('/c+/', 'c+'), ('/(ab)+/', '(ab)+')]
IGNORE_POOL = [('" "', ' ', [' ']), ('/ +/', ' +', [' ', '  ']), ('"-"', '-', ['-']), ('/-=+/', '-=+', ['-=', '-==']), ('/ ?=/', ' ?=', ['=', ' =']),
               # the longer of two ignores that match at one position swallows the beginning of a token: some sentences are reachable only through the shorter one
               ('/ a/', ' a', [' a']), ('/-b/', '-b', ['-b'])]
IGNORE_PAIRS = [(0, 5), (2, 6), (1, 5)]


def gen_cfg(rng, regex_terms=True, max_nts=4, ignore_p=0.45, shapes=True, aliases=True):
    """returns grammar text.  Biased towards left/right/middle recursion, nullable chains, unit cycles, hidden left recursion."""
    nts = ['start'] + ['n%d' % i for i in range(rng.randint(0, max_nts - 1))]
    pool = TERM_POOL if regex_terms else TERM_POOL[:4]
    k = rng.randint(1, 3)
    chosen = rng.sample(pool, k)
    tnames = ['T%d' % i for i in range(k)]
    lines = []
    for nt in nts:
        alts = []
        for _ in range(rng.randint(1, 3)):
            r = rng.random()
            if shapes and r < 0.12:
                syms = [nt, rng.choice(tnames)]                       # left recursion
            elif shapes and r < 0.22:
                syms = [rng.choice(tnames), nt]                       # right recursion
            elif shapes and r < 0.28:
                syms = [rng.choice(nts)]                              # unit (possibly a cycle)
            elif shapes and r < 0.36:
                syms = []                                             # empty
            elif shapes and r < 0.42:
                syms = [rng.choice(nts), nt, rng.choice(tnames)]      # hidden left recursion when the first is nullable
            else:
                syms = [rng.choice(nts + tnames + tnames) for _ in range(rng.choice([0, 1, 1, 2, 2, 3]))]
            alts.append(' '.join(syms))
        alts = list(dict.fromkeys(alts))
        if aliases and nt != 'start':
            alts = [a + (' -> al%d' % rng.randint(0, 1) if rng.random() < 0.3 else '') for a in alts]
        lines.append('%s: %s' % (nt, ' | '.join(alts)))
    for n, (sp, _rx) in zip(tnames, chosen):
        lines.append('%s: %s' % (n, sp))
    if rng.random() < ignore_p:
        two = rng.random() < 0.35
        picked = [IGNORE_POOL[i] for i in rng.choice(IGNORE_PAIRS)] if two and rng.random() < 0.3 else rng.sample(IGNORE_POOL, 2 if two else 1)
        for k, ig in enumerate(picked):
            lines.append('WS%d: %s' % (k, ig[0]))
            lines.append('%%ignore WS%d' % k)
    return '\n'.join(lines) + '\n'


def ignore_samples(g):
    out = []
    for sp, _rx, samples in IGNORE_POOL:
        if ': %s\n' % sp in g and '%ignore' in g:
            out.extend(samples)
    return out


def rand_input(rng, g, max_len=8):
    al = list('abc') + ignore_samples(g)
    return ''.join(rng.choice(al) for _ in range(rng.randint(0, max_len)))


def sample_sentence(rng, p, max_depth=7, start='start'):
    """random derivation from lark's compiled rules → a (probably) accepted text"""
    by = {}
    for r in p.rules:
        by.setdefault(r.origin.name, []).append(r)
    tsample = {}
    for t in p.terminals:
        rx = t.pattern.to_regexp()
        for cand in ['a', 'b', 'c', 'ab', 'aa', 'bc', ' ', 'abab', 'bb']:
            if re.fullmatch(rx, cand):
                tsample.setdefault(t.name, []).append(cand)
    out = []
    def go(name, d):
        alts = by.get(name)
        if not alts:
            return False
        alts = sorted(alts, key=lambda r: len(r.expansion)) if d <= 0 else alts
        r = alts[0] if d <= 0 else rng.choice(alts)
        for s in r.expansion:
            if s.is_term:
                c = tsample.get(s.name)
                if not c:
                    return False
                out.append(rng.choice(c))
            elif d < -6 or not go(s.name, d - 1):
                return False
        return True
    try:
        ok = go(start, max_depth)
    except RecursionError:
        ok = False
    if not ok:
        return None
    igs = [s for t in p.terminals if t.name in p.ignore_tokens for s in [' ', '  ', '-', '-=', '-==', '=', ' =', '_', '~', ' _'] if re.fullmatch(t.pattern.to_regexp(), s)]
    if igs and rng.random() < 0.6:
        res = ''
        for tok in out:
            res += tok + (rng.choice(igs) if rng.random() < 0.5 else '')
        return (rng.choice(igs) if rng.random() < 0.3 else '') + res
    return ''.join(out)


def export_rules(p):
    """lark's compiled rules as numbered symbols; returns (rules json, nt map, term map)"""
    nts, ts = {}, {}
    def nt(n): return nts.setdefault(n, len(nts))
    def tm(n): return ts.setdefault(n, len(ts))
    nt('start')
    rules = [{'lhs': nt(r.origin.name), 'rhs': [[1, tm(s.name)] if s.is_term else [0, nt(s.name)] for s in r.expansion]} for r in p.rules]
    return rules, nts, ts


def spec_lattice(p, text, lexer, tm):
    """The lattice the *property* prescribes (not the code's procedure): dynamic = longest member prefix per (terminal, position);
    dynamic_complete = every member prefix; ignore terminals = longest match."""
    n = len(text)
    edges, igns = [], []
    for t in p.terminals:
        rx = re.compile(t.pattern.to_regexp())
        is_ign = t.name in p.ignore_tokens
        for i in range(n):
            ends = [j for j in range(i + 1, n + 1) if rx.fullmatch(text, i, j)]
            if not ends:
                continue
            if is_ign:
                igns.append([i, max(ends)])
            if lexer == 'dynamic' or is_ign:
                ends = [max(ends)]
            if t.name in tm:
                for e in ends:
                    edges.append([tm[t.name], i, e])
    return n, edges, igns


def run_real(p, text, lexer, want_tree=False, start=None):
    """run the real Earley parser with column snapshots; returns dict"""
    from lark.exceptions import UnexpectedInput, UnexpectedCharacters, UnexpectedToken, UnexpectedEOF
    P = p.parser.parser
    ridx = {id(r): i for i, r in enumerate(p.rules)}
    snaps = {}
    orig = type(P).predict_and_complete
    def wrapped(i, to_scan, columns, transitives, node_cache):
        orig(P, i, to_scan, columns, transitives, node_cache)
        snaps[i] = sorted({(ridx.get(id(x.rule), -1), x.ptr, x.start) for x in columns[i]} | {(ridx.get(id(x.rule), -1), x.ptr, x.start) for x in to_scan})
    P.predict_and_complete = wrapped
    rec = {}
    try:
        tree = p.parse(text, start=start) if start is not None else p.parse(text)
        rec['ok'] = True
        if want_tree:
            rec['tree'] = tree
    except UnexpectedInput as e:
        rec['ok'] = False
        rec['err'] = type(e).__name__
        if isinstance(e, UnexpectedCharacters):
            rec['pos'] = e.pos_in_stream; rec['line'] = e.line; rec['column'] = e.column
            rec['expected'] = sorted(e.allowed) if e.allowed else []
        elif isinstance(e, UnexpectedToken):
            rec['pos'] = getattr(e.token, 'start_pos', None); rec['line'] = e.line; rec['column'] = e.column
            rec['expected'] = sorted(e.expected); rec['token_type'] = e.token.type
        elif isinstance(e, UnexpectedEOF):
            rec['expected'] = sorted(e.expected)
    finally:
        del P.predict_and_complete
    rec['cols'] = {i: [list(x) for x in v] for i, v in snaps.items()}
    return rec


LEXERS = ['basic', 'dynamic', 'dynamic_complete']


def _stream_case(args):
    """worker: one grammar, several lexers and texts"""
    g, seed, lexers, ntexts = args
    from lark import Lark
    from lark.exceptions import LarkError, UnexpectedInput, UnexpectedCharacters
    rng = random.Random(seed)
    out = []
    # a fifth of the grammars are built with two start symbols and parsed from either: what is predicted at offset 0 (hence where an error is
    # reported and what is expected there) must be the chosen start symbol's alone
    others = sorted({l.split(':')[0].strip() for l in g.split('\n') if l[:1] == 'n' and ':' in l})
    multi = rng.choice(others) if others and rng.random() < 0.2 else None
    for lexer in lexers:
        try:
            with guarded(8):
                p = Lark(g, parser='earley', lexer=lexer, start=['start', multi]) if multi else Lark(g, parser='earley', lexer=lexer)
        except Timeout:
            out.append({'lexer': lexer, 'build': 'timeout'}); continue
        except LarkError as e:
            out.append({'lexer': lexer, 'build': type(e).__name__ + ': ' + str(e)[:100]}); continue
        rules, nts, tm = export_rules(p)
        st_sym = rng.choice(['start', multi]) if multi else None
        texts = []
        for _ in range(ntexts):
            s = sample_sentence(rng, p, start=st_sym or 'start') if rng.random() < 0.6 else None
            if s is not None and len(s) <= 12 and rng.random() < 0.3 and s:
                # malformed stream: delete / insert / swap / truncate
                k = rng.randrange(len(s)); op = rng.random()
                s = s[:k] + s[k + 1:] if op < 0.3 else s[:k] + rng.choice('abc') + s[k:] if op < 0.6 else s[:k] if op < 0.8 else s[:k] + s[k:][::-1]
            if s is None or len(s) > 12:
                s = rand_input(rng, g)
            texts.append(s)
        for text in dict.fromkeys(texts):
            rec = {'lexer': lexer, 'text': text, 'rules': rules, 'tnames': {v: k for k, v in tm.items()}}
            if multi:
                rec['starts'] = ['start', multi]; rec['start_sym'] = st_sym; rec['start_id'] = nts[st_sym]
            try:
                with guarded(8):
                    rec.update(run_real(p, text, lexer, start=st_sym))
            except Timeout:
                rec['timeout'] = True
                out.append(rec); continue
            if lexer == 'basic':
                try:
                    toks = list(p.lex(text))
                except UnexpectedCharacters:
                    rec['lexfail'] = True
                    out.append(rec); continue
                rec['n'] = len(toks); rec['edges'] = [[tm[t.type], i, i + 1] for i, t in enumerate(toks) if t.type in tm]
                rec['unknown_tok'] = any(t.type not in tm for t in toks)
                rec['igns'] = []; rec['tokpos'] = [[t.start_pos, t.line, t.column] for t in toks]
                rec['lastpos'] = [toks[-1].start_pos, toks[-1].line, toks[-1].column] if toks else None
            else:
                rec['n'], rec['edges'], rec['igns'] = spec_lattice(p, text, lexer, tm)
            out.append(rec)
    return out


def productive_order(rules):
    """certificate for Lean's `productiveB`: indices of rules in an order in which every nonterminal of a right-hand side is the left-hand side of an earlier rule;
    the Lean checker decides whether it proves every rule productive (EarleyProto.productiveB_sound) — nothing here is trusted"""
    done, order, used = set(), [], set()
    changed = True
    while changed:
        changed = False
        for k, r in enumerate(rules):
            if k not in used and all(kind == 1 or n in done for kind, n in r['rhs']):
                used.add(k); order.append(k); done.add(r['lhs']); changed = True
    return order


def earley_stream(ctx, salt, n_quick, n_thorough, ntexts=4):
    """generate grammars, run the real parser and the Lean chart; yields (grammar, rec, model) with rec as above"""
    from common import pmap, run_driver_parallel, tier_scale
    rng = random.Random(ctx['seed'] * 1000003 + salt)
    N = tier_scale(ctx['tier'], n_quick, n_thorough) * (3 if ctx['deepen'] else 1)
    jobs = []
    for i in range(N):
        g = gen_cfg(rng)
        lexers = LEXERS if i % 2 == 0 else [LEXERS[i % 3]]
        jobs.append((g, rng.randrange(1 << 30), lexers, ntexts))
    outs = pmap(_stream_case, jobs, chunksize=4)
    flat, cases = [], []
    problems = []
    for job, (st, recs) in zip(jobs, outs):
        if st != 'ok':
            problems.append((job, st, recs)); continue
        for rec in recs:
            if 'build' in rec or rec.get('timeout') or rec.get('lexfail') or rec.get('unknown_tok'):
                flat.append((job[0], rec, None)); continue
            cases.append({'op': 'earley', 'rules': rec['rules'], 'n': rec['n'], 'edges': rec['edges'], 'igns': rec['igns'], 'start': rec.get('start_id', 0), 'order': productive_order(rec['rules'])})
            flat.append((job[0], rec, len(cases) - 1))
    model = run_driver_parallel(cases, timeout=900)
    return [(g, rec, model[k] if k is not None else None) for g, rec, k in flat], problems
