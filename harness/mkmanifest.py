"""Generates /verif/MANIFEST.json from harness/registry.py (run after editing the registry)."""
import json, sys
from pathlib import Path
sys.path.insert(0, str(Path(__file__).resolve().parent))
import registry
VERIF = Path(__file__).resolve().parent.parent
ALL = ['C%02d' % i for i in range(1, 21)]
FIX_COMMITS = json.loads((VERIF / 'known_findings.json').read_text()).get('fix_commits', []) if (VERIF / 'known_findings.json').exists() else []
m = {
    'version': 1,
    'setup_cmd': './check --setup',
    'hooks': {
        'guard': 'LARK_VERIF',
        'enable': 'no guarded code was needed: every observation point is reachable from Python (wrapping methods, instantiating analyzers directly, sys.settrace scheduling); the checks import lark from /repo\'s working tree as it is',
        'baseline_off_cmd': 'cd /repo && env -u LARK_VERIF /venv/bin/python -m pytest -ra -q -p no:cacheprovider --timeout=900 --continue-on-collection-errors',
        'source_commits': FIX_COMMITS,
        'add_only': True,
    },
    'engines': [
        {'name': 'lean-proof', 'path': 'lean/', 'serves_properties': sorted(registry.PROPS), 'kind_free_text': 'Lean 4.33 library LarkVerif: executable models of lark\'s algorithmic cores, specifications, property theorems (Props/Cxx.lean); built and axiom-audited on every run; Extracted.lean regenerated from /repo source on every run'},
        {'name': 'correspondence', 'path': 'harness/', 'serves_properties': sorted(registry.PROPS), 'kind_free_text': 'Python harness: seeded structured generators, runs the real lark in guarded workers, pipes the same cases through the compiled Lean driver (lean/Driver/Main.lean), diffs canonical outputs; on a break searches for a failing input'},
    ],
    'checks': [],
    'not_applicable': [],
    'notes': 'See DESIGN.md. ./check <ID> [--tier quick|thorough] [--replay FILE]; exit 0 held / 1 violation / 2 infrastructure. known_findings.json lists genuine defects recorded (open) or repaired (fixed).',
}
for pid in ALL:
    r = registry.PROPS.get(pid)
    if not r or r.get('disabled'):
        m['not_applicable'].append({'property_id': pid, 'reason': (r or {}).get('disabled', 'not built yet in this session (planned, see DESIGN.md §5)')})
        continue
    m['checks'].append({
        'property_id': pid,
        'quick_cmd': './check %s --tier quick' % pid,
        'thorough_cmd': './check %s --tier thorough' % pid,
        'evidence_file': 'evidence/%s.json' % pid,
        'replay_cmd_template': './check %s --replay {path}' % pid,
        'engine': 'lean-proof+correspondence',
        'level_claimed': {'category': 'proof', 'text': r['level_text'], 'design_ref': r.get('design_ref', 'DESIGN.md §5')},
        'level_note': r['level_note'],
        'technique': r['technique'],
    })
(VERIF / 'MANIFEST.json').write_text(json.dumps(m, indent=1) + '\n')
print('checks:', [c['property_id'] for c in m['checks']], 'n/a:', len(m['not_applicable']))
