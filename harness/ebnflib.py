"""EBNF-level oracle for C03/C09: grammars are generated as ASTs, rendered to Lark EBNF, and independently *desugared* by this module into plain BNF
with explicit inlined helper rules (no ? * + ~ groups) following docs/grammar.md and docs/tree_construction.md.  Lark's EBNF compilation
(load_grammar.EBNF_to_BNF, SimplifyRule, helper-rule options, rule cache) is then compared with the desugared grammar on languages and trees."""
import random, json, itertools
from common import guarded, Timeout

TERMS = {'A': '"a"', 'B': '"b"', 'C': '"c"', '_U': '"u"'}
LITS = ['"x"', '"y"', '"a"']      # "a": an anonymous (filtered) use of the terminal A — helper rules must not be shared with A's


def gen_expr(rng, names, depth=0):
    r = rng.random()
    if depth > 2 or r < 0.42:
        k = rng.random()
        if k < 0.5: return ('t', rng.choice(list(TERMS)))
        if k < 0.7: return ('lit', rng.choice(LITS))
        return ('nt', rng.choice(names))
    if r < 0.52: return ('opt', gen_expr(rng, names, depth + 1))
    if r < 0.60: return ('star', gen_expr(rng, names, depth + 1))
    if r < 0.68: return ('plus', gen_expr(rng, names, depth + 1))
    if r < 0.78:
        n = rng.randint(0, 3); m = n + rng.choice([0, 0, 1, 2])
        return ('rep', gen_expr(rng, names, depth + 1), n, m)
    if r < 0.90: return ('alt', [gen_seq(rng, names, depth + 1) for _ in range(2)])
    return ('seq', [gen_expr(rng, names, depth + 1) for _ in range(rng.randint(1, 3))])


def gen_seq(rng, names, depth=0):
    return ('seq', [gen_expr(rng, names, depth) for _ in range(rng.choice([1, 1, 2, 2, 3]))])


def gen_grammar(rng, big_reps=False):
    names = ['start'] + rng.sample(['r1', '_r2', 'r3'], rng.randint(1, 2))
    rules = []
    for n in names:
        mod = '' if n == 'start' else rng.choice(['', '', '?', '!', '?!'] if not n.startswith('_') else ['', '!'])
        alts = []
        for _ in range(rng.choice([1, 2, 2])):
            e = gen_seq(rng, names)
            if big_reps and rng.random() < 0.5:
                lo = rng.choice([0, 1, 2, 48, 49, 50, 51]); hi = lo + rng.choice([0, 1, 2, 3, 7])
                e = ('seq', [('rep', rng.choice([('t', 'A'), ('alt', [('seq', [('t', 'A')]), ('seq', [('t', 'B')])]), ('nt', 'r1') if 'r1' in names and n != 'r1' else ('t', 'B')]), lo, hi)] + list(e[1][:1]))
            alias = ('al%d' % rng.randint(0, 2)) if (not n.startswith('_') and rng.random() < 0.2) else None
            alts.append((e, alias))
        rules.append((n, mod, alts))
    if rng.random() < 0.2:
        # one and the same item (a terminal, a group with alternatives, a rule) under `~n..m` in one place and under `+`/`*`/`?` in another: every
        # operator has its own helper rules, whatever was compiled first
        X = rng.choice([('t', 'A'), ('alt', [('seq', [('t', 'A')]), ('seq', [('t', 'B')])]), ('alt', [('seq', [('t', 'A')]), ('seq', [('t', 'B'), ('t', 'C')])]),
                        ('alt', [('seq', [('t', 'A')]), ('seq', [('t', 'B')]), ('seq', [('t', 'C')])])])
        lo = rng.choice([1, 2, 3, 5, 6, 8]); hi = lo + rng.choice([0, 0, 1, 3])
        rep = ('rep', X, lo, hi); other = (rng.choice(['plus', 'star', 'plus', 'opt']), X)
        first, second = (rep, other) if rng.random() < 0.5 else (other, rep)
        if len(rules) > 1 and rng.random() < 0.5:
            n0, mod0, alts0 = rules[0]; n1, mod1, alts1 = rules[1]
            rules[0] = (n0, mod0, alts0 + [(('seq', [first, ('lit', '"x"')]), None)])
            rules[1] = (n1, mod1, alts1 + [(('seq', [('lit', '"x"'), second]), None)])
        else:
            n0, mod0, alts0 = rules[0]
            rules[0] = (n0, mod0, alts0 + [(('seq', [first, ('lit', '"x"'), second]), None)])
    return rules


def render_expr(e, top=False):
    k = e[0]
    if k == 't' or k == 'nt' or k == 'lit': return e[1]
    if k == 'seq':
        s = ' '.join(render_expr(x) for x in e[1])
        return s if top or len(e[1]) == 1 else '(' + s + ')'
    if k == 'alt': return '(' + ' | '.join(render_expr(x, True) for x in e[1]) + ')'
    inner = render_expr(e[1])
    if e[1][0] in ('opt', 'star', 'plus', 'rep'):
        inner = '(' + inner + ')'
    if k == 'opt': return inner + '?'
    if k == 'star': return inner + '*'
    if k == 'plus': return inner + '+'
    if k == 'rep': return inner + ('~%d' % e[2] if e[2] == e[3] else '~%d..%d' % (e[2], e[3]))
    raise ValueError(k)


def render(rules):
    out = []
    for n, mod, alts in rules:
        out.append('%s%s: %s' % (mod, n, '\n   | '.join(render_expr(e, True) + (' -> ' + a if a else '') for e, a in alts)))
    for k, v in TERMS.items(): out.append('%s: %s' % (k, v))
    out.append('%ignore " "')
    return '\n'.join(out) + '\n'


def desugar(rules):
    """plain BNF text: every operator and group becomes an explicit inlined helper rule (kept-all when its owner is a ! rule)"""
    helpers = []
    counter = [0]
    def fresh(keep):
        counter[0] += 1
        return ('!' if keep else '', '_h%d' % counter[0])
    def sym(e, keep):
        """returns one symbol (string) standing for e"""
        k = e[0]
        if k in ('t', 'nt', 'lit'):
            return e[1]
        mod, name = fresh(keep)
        if k == 'seq':
            body = [' '.join(sym(x, keep) for x in e[1])]
        elif k == 'alt':
            body = [' '.join(sym(x, keep) for x in a[1]) for a in e[1]]
        elif k == 'opt':
            body = [sym(e[1], keep), '']
        elif k == 'star':
            x = sym(e[1], keep); body = ['', '%s %s' % (name, x)]
        elif k == 'plus':
            x = sym(e[1], keep); body = [x, '%s %s' % (name, x)]
        elif k == 'rep':
            x = sym(e[1], keep); body = [' '.join([x] * n) for n in range(e[2], e[3] + 1)]
        else:
            raise ValueError(k)
        helpers.append('%s%s: %s' % (mod, name, ' | '.join(dict.fromkeys(body)) if len(set(body)) == len(body) else ' | '.join(dict.fromkeys(body))))
        return name
    out = []
    for n, mod, alts in rules:
        keep = '!' in mod
        rendered = []
        for e, a in alts:
            rendered.append(' '.join(sym(x, keep) for x in e[1]) + (' -> ' + a if a else ''))
        out.append('%s%s: %s' % (mod, n, '\n   | '.join(rendered)))
    out += helpers
    for k, v in TERMS.items(): out.append('%s: %s' % (k, v))
    out.append('%ignore " "')
    return '\n'.join(out) + '\n'


def canon(t):
    from lark import Tree, Token
    if isinstance(t, Tree):
        if t.data == '_ambig':
            return ['_ambig']
        return ['T', str(t.data), [canon(c) for c in t.children]]
    if isinstance(t, Token):
        return ['t', t.type, str(t)]
    return t


def tree_set(t):
    import forestlib
    return sorted({json.dumps(canon(x)) for x in forestlib.expand_ambig(t)})


def _case(args):
    seed, big = args
    from lark import Lark
    from lark.exceptions import GrammarError, UnexpectedInput, LarkError
    import shapelib
    rng = random.Random(seed)
    rules = gen_grammar(rng, big_reps=big)
    src, des = render(rules), desugar(rules)
    kat = rng.random() < 0.25
    rec = {'ebnf': src, 'desugared': des, 'keep_all_tokens': kat, 'diffs': [], 'compared': 0}
    built = {}
    for name, txt in (('ebnf', src), ('desugared', des)):
        try:
            with guarded(10):
                built[name] = Lark(txt, parser='earley', ambiguity='explicit', maybe_placeholders=False, keep_all_tokens=kat)
        except (GrammarError, LarkError) as e:
            built[name] = ('ERR', str(e)[:100])
        except Timeout:
            built[name] = ('TO',)
    a, b = built['ebnf'], built['desugared']
    rec['builds'] = ['err' if isinstance(a, tuple) else 'ok', 'err' if isinstance(b, tuple) else 'ok']
    if isinstance(a, tuple) or isinstance(b, tuple):
        return rec
    import oracle_derivs
    lang_only = False
    if not (oracle_derivs.acyclic(a.rules) and oracle_derivs.acyclic(b.rules)):
        rec['cyclic'] = True       # explicit ambiguity is complete only without derivation cycles (C04): trees are not compared, the language is
        lang_only = True
    texts = []
    for _ in range(4):
        try:
            texts.append(shapelib.sample_sentence(rng, b if rng.random() < 0.5 else a, maxlen=60 if big else 9))
        except (RecursionError, KeyError):
            pass
    texts += [' '.join(rng.choice('abcuxy') for _ in range(rng.randint(0, 5))) for _ in range(2)]
    for text in dict.fromkeys(texts):
        outs = []
        for p in (a, b):
            try:
                with guarded(6):
                    t_ = p.parse(text)
                    outs.append(['accepted'] if lang_only else tree_set(t_))
            except UnexpectedInput:
                outs.append('reject')
            except Timeout:
                outs.append('TO')
        if 'TO' in outs:
            continue
        rec['compared'] += 1
        if outs[0] != outs[1]:
            lang = (outs[0] == 'reject') != (outs[1] == 'reject')
            rec['diffs'].append({'text': text, 'ebnf': outs[0] if outs[0] == 'reject' else outs[0][:3], 'desugared': outs[1] if outs[1] == 'reject' else outs[1][:3],
                                 'language_differs': lang,
                                 # every tree lark returns is the shaping of a derivation of the grammar as written
                                 'sound': (not lang) and set(outs[0]) <= set(outs[1]),
                                 'unique': (not lang) and len(outs[1]) == 1})
    rec['f24_region'] = empty_alt_region(rules)
    rec['f29_region'] = anon_named_region(rules)
    return rec


def opnull(e):
    """can the expression vanish through its operators alone (? * ~0.. and groups of such) - i.e. does lark's EBNF expansion give its owner a literally empty alternative"""
    k = e[0]
    if k in ('t', 'nt', 'lit'): return False
    if k == 'seq': return all(opnull(x) for x in e[1])
    if k == 'alt': return any(opnull(x) for x in e[1])
    if k in ('opt', 'star'): return True
    if k == 'plus': return opnull(e[1])
    if k == 'rep': return e[2] == 0 or opnull(e[1])
    raise ValueError(k)


def anon_named_region(rules):
    """region of finding F29: one rule mentions a terminal both as an anonymous literal and by name (alternatives that differ only in that are merged)"""
    by_pattern = {v: k for k, v in TERMS.items()}
    def syms(e, out):
        if e[0] in ('t', 'lit', 'nt'): out.add((e[0], e[1]))
        elif e[0] in ('seq', 'alt'):
            for x in e[1]: syms(x, out)
        else: syms(e[1], out)
        return out
    for n, mod, alts in rules:
        got = set()
        for e, a in alts: syms(e, got)
        if any(k == 'lit' and v in by_pattern and ('t', by_pattern[v]) in got for k, v in got):
            return True
    return False


def empty_alt_region(rules):
    """region of finding F24: two alternatives of one rule with different aliases can both vanish; Grammar.compile keeps only the first empty alternative"""
    for n, mod, alts in rules:
        aliases = {a for e, a in alts if opnull(e)}
        if len(aliases) > 1:
            return True
    return False


def check(ctx, res, salt, n_quick, n_thorough, big=False, label='EBNF', exact=False):
    """exact=False (C03, C09): same language, every tree of the EBNF grammar is a tree of the desugared one, equal when that one is unique.
    exact=True (C04): the sets of trees under ambiguity='explicit' are equal, outside the region of finding F24."""
    from common import pmap, tier_scale, exc_in_lark, InfraError
    rng = random.Random(ctx['seed'] * 1000003 + salt)
    N = tier_scale(ctx['tier'], n_quick, n_thorough) * (3 if ctx['deepen'] else 1)
    jobs = [(rng.randrange(1 << 30), big) for _ in range(N)]
    for job, (st, rec) in zip(jobs, pmap(_case, jobs, chunksize=4)):
        if st != 'ok':
            if st == 'exc':
                if not exc_in_lark(rec):
                    raise InfraError(rec)
                res.violation('compiling/parsing an EBNF grammar raised an unexpected exception', {'seed': job[0], 'detail': rec})
            else:
                res.inconclusive[st] = res.inconclusive.get(st, 0) + 1
            continue
        res.case(['ebnf', rec['ebnf'], rec['keep_all_tokens']], nontrivial=True, sample={'ebnf': rec['ebnf'], 'desugared': rec['desugared']} if len(res.samples) < 5 and rec['compared'] else None)
        res.count('ebnf_grammars'); res.count('ebnf_comparisons', rec['compared']); res.count('ebnf_cyclic_skipped', 1 if rec.get('cyclic') else 0); res.count('ebnf_builds_' + '_'.join(rec['builds']))
        if rec['builds'][0] != rec['builds'][1] and rec['builds'][0] == 'err':
            res.count('ebnf_only_original_rejected')      # e.g. "Rules defined twice" for expansions that coincide: documented
        for d in rec['diffs']:
            if not exact and d['sound'] and not d['unique']:
                res.count('ebnf_fewer_trees_than_desugared_(completeness_is_C04)'); continue
            if exact and d['sound'] and (rec['f24_region'] or rec['f29_region']):
                res.count('ebnf_missing_derivation_in_region_F24_F29'); continue
            res.violation('the %s grammar and its hand-desugared plain-BNF form (explicit inlined helper rules) disagree on an input: language or shaped trees differ' % label,
                          {'ebnf': rec['ebnf'], 'desugared': rec['desugared'], 'keep_all_tokens': rec['keep_all_tokens'], 'detail': d})


# ------------------------------------------------------------------ placeholder sizing of an unmatched [..] (load_grammar.FindRuleSize)

def gen_maybe_body(rng, depth=0):
    """sequences / alternatives of plain symbols and nested [..]; every alternative starts with a terminal (so the body is not nullable)"""
    def seq():
        items = [rng.choice([('t', 'A'), ('t', 'B'), ('lit', '"x"'), ('t', '_U')])]
        for _ in range(rng.randint(0, 3)):
            r = rng.random()
            if r < 0.3: items.append(('t', rng.choice(['A', 'B', 'C'])))
            elif r < 0.45: items.append(('t', '_U'))
            elif r < 0.6: items.append(('lit', rng.choice(LITS)))
            elif r < 0.75: items.append(('nt', 'r'))
            elif r < 0.87: items.append(('nt', '_i'))
            elif depth < 2: items.append(('maybe', gen_maybe_body(rng, depth + 1)))
        return items
    return [seq() for _ in range(rng.choice([1, 1, 2, 3]))]


def maybe_size(alts, keep_all):
    def kept(sym):
        k = sym[0]
        if k == 't': return 1 if (keep_all or not sym[1].startswith('_')) else 0
        if k == 'lit': return 1 if keep_all else 0
        if k == 'nt': return 0 if sym[1].startswith('_') else 1
        if k == 'maybe': return maybe_size(sym[1], keep_all)
        raise ValueError(sym)
    return max(sum(kept(x) for x in alt) for alt in alts)


def maybe_json(alts, keep_all):
    """the body as the Lean `rule_size` op reads it"""
    def kept(sym):
        k = sym[0]
        if k == 't': return bool(keep_all or not sym[1].startswith('_'))
        if k == 'lit': return bool(keep_all)
        if k == 'nt': return not sym[1].startswith('_')
    def one(sym):
        return {'maybe': maybe_json(sym[1], keep_all)} if sym[0] == 'maybe' else {'s': kept(sym)}
    return {'alt': [{'seq': [one(x) for x in alt]} for alt in alts]}


def render_maybe(alts):
    def r(sym):
        return '[' + render_maybe(sym[1]) + ']' if sym[0] == 'maybe' else sym[1]
    return ' | '.join(' '.join(r(x) for x in alt) for alt in alts)


def _maybe_case(seed):
    from lark import Lark
    from lark.exceptions import LarkError, UnexpectedInput
    rng = random.Random(seed)
    alts = gen_maybe_body(rng)
    bang = rng.random() < 0.4
    kat = (not bang) and rng.random() < 0.2
    g = '%sstart: [%s] E\nr: C\n_i: C C\nE: "e"\n' % ('!' if bang else '', render_maybe(alts)) + ''.join('%s: %s\n' % kv for kv in TERMS.items()) + '%ignore " "\n'
    out = {'grammar': g, 'keep_all_tokens': kat, 'expected_nones': maybe_size(alts, bang or kat), 'got': {}, 'body': maybe_json(alts, bang or kat)}
    for parser in ('lalr', 'earley'):
        try:
            with guarded(8):
                t = Lark(g, parser=parser, maybe_placeholders=True, keep_all_tokens=kat).parse('e')
            out['got'][parser] = [sum(1 for c in t.children if c is None), len(t.children)]
        except (LarkError, UnexpectedInput) as e:
            out['got'][parser] = type(e).__name__
    return out


def check_maybe(ctx, res, salt, n_quick, n_thorough):
    from common import pmap, tier_scale, exc_in_lark, InfraError
    rng = random.Random(ctx['seed'] * 1000003 + salt)
    seeds = [rng.randrange(1 << 30) for _ in range(tier_scale(ctx['tier'], n_quick, n_thorough) * (3 if ctx['deepen'] else 1))]
    outs = pmap(_maybe_case, seeds, chunksize=8)
    # the expected count comes from the Lean model of FindRuleSize (`size`, proved equal to the longest alternative's kept symbols)
    from common import run_driver
    idx = [i for i, (st, rec) in enumerate(outs) if st == 'ok']
    model = dict(zip(idx, run_driver([{'op': 'rule_size', 'body': outs[i][1]['body']} for i in idx])))
    for i, (seed, (st, rec)) in enumerate(zip(seeds, outs)):
        if st == 'ok':
            m = model[i]
            if 'error' in m:
                raise InfraError('driver rule_size: %s' % m)
            if m['size'] != m['longest']:
                res.corr_break('driver: size differs from longest(alts) (theorem placeholder_count_is_longest_alternative)', {'body': rec['body']})
            if m['size'] != rec['expected_nones']:
                raise InfraError('the harness\'s own sizing (%d) and the Lean model (%d) differ on %r' % (rec['expected_nones'], m['size'], rec['body']))
    for seed, (st, rec) in zip(seeds, outs):
        if st != 'ok':
            if st == 'exc' and not exc_in_lark(rec):
                raise InfraError(rec)
            res.inconclusive[st] = res.inconclusive.get(st, 0) + 1; continue
        res.case(['maybe', rec['grammar'], rec['keep_all_tokens']], nontrivial=rec['expected_nones'] > 1, sample=rec if len(res.samples) < 6 and rec['expected_nones'] > 1 else None)
        res.count('placeholder_sizing_cases')
        for parser, got in rec['got'].items():
            if isinstance(got, str):
                res.count('placeholder_sizing_' + got); continue
            if got != [rec['expected_nones'], rec['expected_nones'] + 1]:
                res.violation('an unmatched [..] contributes %d None values, its longest alternative keeps %d symbols' % (got[0], rec['expected_nones']),
                              {'grammar': rec['grammar'], 'keep_all_tokens': rec['keep_all_tokens'], 'parser': parser, 'text': 'e', 'children': got[1]})
