"""Shared by C03 / C06 (meta) / C16 / C13: feature-rich Lark sources, raw derivations from the real engines, the Lean shape model."""
import random, json
from common import guarded, Timeout

TERMS = {'A': '"a"', 'B': '"b"', 'C': '"c"', '_U': '"u"'}


def gen_item(rng, names, depth=0, templates=()):
    r = rng.random()
    if r < 0.30: return rng.choice(list(TERMS))
    if r < 0.45: return rng.choice(['"x"', '"y"', '/z/', '"x"', '"a"', '"b"'])     # "a"/"b": anonymous (filtered) uses of a terminal that is also used by name (kept)
    if r < 0.68 or depth > 1: return rng.choice(names)
    if templates and r < 0.73: return '%s{%s}' % (rng.choice(templates), rng.choice(list(TERMS) + names[1:]))
    if r < 0.82: return '(' + gen_alts(rng, names, depth + 1) + ')'
    if r < 0.93: return '[' + gen_alts(rng, names, depth + 1) + ']'
    return '(' + gen_alts(rng, names, depth + 1) + ')'


def gen_seq(rng, names, depth, templates=()):
    if rng.random() < 0.12:
        # placeholder stress: unmatched [..] next to filtered tokens, several in a row, at either end
        T = lambda: rng.choice(list(TERMS))
        F = lambda: rng.choice(['"x"', '"y"', '_U'])
        return rng.choice(['[%s] %s %s' % (T(), F(), T()), '[%s] [%s] %s %s' % (T(), T(), F(), T()), '%s %s [%s]' % (T(), F(), T()), '[%s %s] %s [%s]' % (T(), T(), F(), T()),
                           '%s [%s] %s [%s] %s' % (F(), T(), F(), T(), F()), '[%s] %s' % (T(), rng.choice(names))])
    items = []
    for _ in range(rng.choice([1, 1, 2, 2, 3])):
        it = gen_item(rng, names, depth, templates)
        op = rng.random()
        if op < 0.12: it += '?'
        elif op < 0.20: it += '*'
        elif op < 0.28: it += '+'
        elif op < 0.33: it += '~%d' % rng.randint(0, 3)
        elif op < 0.38:
            a = rng.randint(0, 2); it += '~%d..%d' % (a, a + rng.randint(0, 2))
        items.append(it)
    return ' '.join(items)


def gen_alts(rng, names, depth=0, templates=()):
    return ' | '.join(gen_seq(rng, names, depth, templates) for _ in range(rng.choice([1, 1, 2])))


def gen_grammar(rng, newlines=False, imports=False):
    names = ['start'] + rng.sample(['r1', '_r2', 'r3', '_r4'], rng.randint(1, 3))
    templates = ['tp'] if rng.random() < 0.25 else []
    lines = []
    for n in names:
        mod = '' if n == 'start' else rng.choice(['', '', '?', '!', '?!'] if not n.startswith('_') else ['', '!'])
        alts = []
        for _ in range(rng.choice([1, 2, 2])):
            s = gen_seq(rng, names, 0, templates)
            if '?' in mod and rng.random() < 0.2:
                s = '[%s]' % rng.choice(list(TERMS))       # a ?rule whose whole alternative is one optional: collapses to the None placeholder
            if not n.startswith('_') and rng.random() < 0.2: s += ' -> al%d' % rng.randint(0, 2)
            alts.append(s)
        pr = '.%d' % rng.randint(1, 2) if rng.random() < 0.1 else ''
        lines.append('%s%s%s: %s' % (mod, n, pr, '\n   | '.join(alts)))
    if imports and rng.random() < 0.1:
        # rules imported from a module file (with filtered tokens and private dependencies)
        imp = rng.choice(['mrule', 'mopt', 'mrule'])
        lines.insert(0, '%%import .shapemod.%s' % imp)
        lines[1] = lines[1] + '\n   | %s %s' % (imp, rng.choice(['', 'A', '"y"']))
    if templates:
        lines.append('%stp{x}: %s' % (rng.choice(['', '?', '!']), rng.choice(['x "," x', 'x+', '"<" x ">"', 'x [B]', '(x | C)~1..2', '[x] "<" [B]', 'x ["," x]'])))
    for k, v in TERMS.items(): lines.append('%s: %s' % (k, v))
    lines.append('%ignore /[ \\n]+/' if newlines else '%ignore " "')
    return '\n'.join(lines) + '\n'


def sample_sentence(rng, p, maxlen=10, newlines=False):
    by = {}
    for r in p.rules: by.setdefault(r.origin.name, []).append(r)
    pat = {t.name: t.pattern.value for t in p.terminals}
    out = []
    from lark.grammar import NonTerminal
    def expand(sym, depth):
        if len(out) > maxlen: raise RecursionError
        if sym.is_term: out.append(pat[sym.name]); return
        rs = by[sym.name]
        r = rng.choice(rs) if depth < 6 else min(rs, key=lambda r: len(r.expansion))
        for s in r.expansion: expand(s, depth + 1)
    expand(NonTerminal('start'), 0)
    if newlines:
        return ''.join(tok + rng.choice([' ', ' ', '\n', ' \n ', '\n\n']) for tok in out)
    return ' '.join(out)


# ------------------------------------------------------------------ raw derivations

class Raw:
    __slots__ = ('rule', 'children')
    def __init__(self, rule, children):
        self.rule, self.children = rule, list(children)


def raw_callbacks(rules):
    return {r: (lambda ch, r=r: Raw(r, ch)) for r in rules}


def raw_parse(p, text, **kw):
    """Run the real engine of Lark instance `p` with raw (rule, children) builders instead of the tree-building callback chain."""
    parser = p.parser.parser          # LALR_Parser / earley.Parser / CYK frontend
    target = parser.parser if hasattr(parser, 'parser') and hasattr(parser.parser, 'callbacks') else parser
    old = target.callbacks
    target.callbacks = raw_callbacks(p.rules)
    try:
        return p.parse(text, **kw)
    finally:
        target.callbacks = old


def sym_info(s):
    # filtered: an anonymous literal occurrence (only lark's own flag tells it from a named use of the same terminal) or — by the documented rule, read from the
    # *name*, not from the compiled flag — any terminal whose name starts with a single underscore (`__ANON_n` are lark's names for anonymous regexps, which are kept; a `!` rule / keep_all_tokens is handled by keepAll)
    return [bool(s.is_term), bool(s.is_term and (s.filter_out or (s.name.startswith('_') and not s.name.startswith('__')))), bool((not s.is_term) and s.name.startswith('_'))]


def to_forest(raw, p, maybe_placeholders):
    """Raw derivation -> the JSON forest the Lean `shape` op reads.  Node and token labels are unique indices so that the
    model's output identifies, for every output node, the derivation node it came from."""
    from lark import Token
    nodes, toks = [], []
    def conv(x, sym):
        if isinstance(x, Raw):
            r = x.rule
            idx = len(nodes); nodes.append(x)
            ei = r.options.empty_indices if maybe_placeholders else None
            markers = [bool(b) for b in ei] if ei else [False] * len(r.expansion)
            kids = [conv(c, s) for c, s in zip(x.children, r.expansion)]
            # keep_all_tokens: the rule's own `!` (as compiled) or the *global option* — the option is read from the Lark instance, not from the
            # compiled rule, so that a rule the option was not handed down to (an imported one) is still expected to keep its tokens
            keep_all = bool(r.options.keep_all_tokens) or bool(p.options.keep_all_tokens)
            return {'s': sym_info(sym), 'r': {'name': idx, 'alias': idx if r.alias else None, 'expand1': bool(r.options.expand1), 'keepAll': keep_all, 'markers': markers}, 'kids': kids}
        assert isinstance(x, Token), type(x)
        toks.append(x)
        return {'s': sym_info(sym), 'ty': len(toks) - 1}
    from lark.grammar import NonTerminal
    root = conv(raw, NonTerminal('start'))
    return [root], nodes, toks


def label_of(rule):
    """the documented node name, from the *source-level* name: alias, else the rule name with template arguments stripped (independent of RuleOptions.template_source)"""
    import re
    return str(rule.alias or re.sub(r'\{.*\}$', '', rule.origin.name))


def span_of(raw):
    """(first token, last token) of the yield of a raw derivation node, filtered tokens included"""
    from lark import Token
    first = last = None
    stack = [raw]
    seq = []
    def walk(x):
        if isinstance(x, Raw):
            for c in x.children: walk(c)
        else:
            seq.append(x)
    walk(raw)
    return (seq[0], seq[-1]) if seq else (None, None)


def canon_real(t):
    from lark import Tree, Token
    if isinstance(t, Tree):
        return ['T', str(t.data), [canon_real(c) for c in t.children]]
    if isinstance(t, Token):
        v = t.value if not isinstance(t.value, bytes) else t.value.decode('latin-1')
        return ['t', t.type, v, t.start_pos, t.end_pos]
    return None if t is None else ['?', repr(t)]


def canon_model(v, nodes, toks):
    if v is None:
        return None
    if 't' in v:
        t = toks[v['t']]
        val = t.value if not isinstance(t.value, bytes) else t.value.decode('latin-1')
        return ['t', t.type, val, t.start_pos, t.end_pos]
    return ['T', label_of(nodes[v['d']].rule), [canon_model(k, nodes, toks) for k in v['k']]]


def meta_pairs(real, v, nodes, toks, out):
    """walk the real tree and the model value in parallel (they are already known to be equal in shape); collect (real meta, expected span)"""
    from lark import Tree
    if isinstance(real, Tree) and v is not None and 'd' in v:
        first, last = span_of(nodes[v['d']])
        m = real.meta
        got = None if m.empty else [m.start_pos, m.line, m.column, m.end_pos, m.end_line, m.end_column]
        exp = None if first is None else [first.start_pos, first.line, first.column, last.end_pos, last.end_line, last.end_column]
        out.append((str(real.data), got, exp))
        for rc, vc in zip(real.children, v['k']):
            meta_pairs(rc, vc, nodes, toks, out)


ENGINES = [('earley', 'dynamic'), ('earley', 'basic'), ('earley', 'dynamic_complete'), ('lalr', 'contextual'), ('lalr', 'basic'), ('cyk', 'basic')]
EBUILD = (4, 3)    # seconds: construction, parse


# (its terminals and literals are spelled differently from the main grammar's: two terminals with one pattern would collide in the basic lexer)
SHAPEMOD = 'mrule: "p" MA _mdep "q" | _MU MB\n_mdep: MB "p"? | \n?mopt: MA | "p" mrule\nMA: "m"\nMB: "n"\n_MU: "w"\n'


def _shape_case(args):
    """(a grammar that says `%import .shapemod.…` is loaded next to a module file holding SHAPEMOD: imported rules with filtered tokens and dependencies)"""
    g = args[0]
    if '%import .shapemod' not in g:
        return _shape_case_(args, {})
    import tempfile, shutil, os
    d = tempfile.mkdtemp(prefix='larkverif_shape_')
    try:
        open(os.path.join(d, 'shapemod.lark'), 'w').write(SHAPEMOD)
        return _shape_case_(args, {'source_path': os.path.join(d, 'main.lark')})
    finally:
        shutil.rmtree(d, ignore_errors=True)


def _shape_case_(args, extra):
    g, seed, ntexts, newlines = args
    from lark import Lark, Tree
    from lark.exceptions import GrammarError, UnexpectedInput, ParseError, LarkError
    rng = random.Random(seed)
    kat = rng.random() < 0.25; mp = rng.random() < 0.55; pp = True
    opts = dict(keep_all_tokens=kat, maybe_placeholders=mp, propagate_positions=pp)
    rec = {'grammar': g, 'opts': opts, 'runs': [], 'nobuild': []}
    try:
        with guarded(EBUILD[0]):
            pe = Lark(g, parser='earley', ambiguity='explicit', **opts, **extra)
    except GrammarError as e:
        rec['gerr'] = str(e)[:120]
        return rec
    import lalrlib
    cyclic = lalrlib.has_derivation_cycle([(r.origin.name, tuple((s_.is_term, s_.name) for s_ in r.expansion)) for r in pe.rules])
    rec['cyclic'] = cyclic
    engines = {}
    for parser, lexer in ENGINES:
        try:
            with guarded(EBUILD[0]):
                engines[(parser, lexer)] = Lark(g, parser=parser, lexer=lexer, **opts, **extra)
        except (GrammarError, LarkError, Timeout) as e:
            rec['nobuild'].append([parser, lexer, type(e).__name__])
    texts = []
    for _ in range(ntexts):
        try:
            texts.append(sample_sentence(rng, pe, newlines=newlines))
        except RecursionError:
            pass
    for s in dict.fromkeys(texts):
        try:
            with guarded(EBUILD[1]):
                te = pe.parse(s)
                has_ambig = bool(list(te.find_data('_ambig')))
        except Timeout:
            rec['runs'].append({'text': s, 'explicit_timeout': True}); continue
        except UnexpectedInput as e:
            rec['runs'].append({'text': s, 'sample_rejected': type(e).__name__}); continue
        ambiguous = has_ambig or cyclic
        run = {'text': s, 'ambiguous': ambiguous, 'engines': []}
        for (parser, lexer), p in engines.items():
            e = {'engine': [parser, lexer]}
            try:
                with guarded(EBUILD[1]):
                    real = p.parse(s)
                    raw = raw_parse(p, s)
            except (UnexpectedInput, ParseError) as ex:
                e['reject'] = type(ex).__name__
                run['engines'].append(e); continue
            except Timeout:
                e['timeout'] = True
                run['engines'].append(e); continue
            if not isinstance(raw, Raw):
                e['raw_failed'] = repr(type(raw))
                run['engines'].append(e); continue
            forest, nodes, toks = to_forest(raw, p, mp)
            e['forest'] = forest
            e['real'] = canon_real(real)
            e['_ctx'] = (real, nodes, toks)
            run['engines'].append(e)
        rec['runs'].append(run)
    # keep only picklable data: finish the model-independent part here, defer comparison to the parent through a second pass
    for run in rec['runs']:
        for e in run.get('engines', []):
            if '_ctx' in e:
                real, nodes, toks = e.pop('_ctx')
                e['labels'] = [label_of(n.rule) for n in nodes]
                e['toks'] = [[t.type, t.value if not isinstance(t.value, bytes) else t.value.decode('latin-1'), t.start_pos, t.end_pos, t.line, t.column, t.end_line, t.end_column] for t in toks]
                spans = []
                for n in nodes:
                    f, l = span_of(n)
                    spans.append(None if f is None else [f.start_pos, f.line, f.column, l.end_pos, l.end_line, l.end_column])
                e['spans'] = spans
                metas = []
                def walk(t):
                    if isinstance(t, Tree):
                        m = t.meta
                        metas.append(None if m.empty else [m.start_pos, m.line, m.column, m.end_pos, m.end_line, m.end_column])
                        for c in t.children: walk(c)
                walk(real)
                e['metas'] = metas          # preorder over Tree nodes of the real result
    return rec


def model_tree(v, labels, toks):
    if v is None:
        return None
    if 't' in v:
        t = toks[v['t']]
        return ['t', t[0], t[1], t[2], t[3]]
    return ['T', labels[v['d']], [model_tree(k, labels, toks) for k in v['k']]]


def model_spans(v, spans, out):
    """preorder list of expected spans for the Tree nodes of the model value"""
    if v is not None and 'd' in v:
        out.append(spans[v['d']])
        for k in v['k']:
            model_spans(k, spans, out)
    return out


def shape_stream(ctx, salt, n_quick, n_thorough, ntexts=4, newlines=False, positions=False, corpus=()):
    from common import pmap, run_driver_parallel, tier_scale
    rng = random.Random(ctx['seed'] * 1000003 + salt)
    N = tier_scale(ctx['tier'], n_quick, n_thorough) * (3 if ctx['deepen'] else 1)
    jobs = [(g, k, ntexts, newlines) for g in corpus for k in range(4)]      # hand-written shapes first (4 option draws each)
    jobs += [(gen_grammar(rng, newlines, imports=True), rng.randrange(1 << 30), ntexts, newlines) for _ in range(N)]
    outs = pmap(_shape_case, jobs, chunksize=2)
    cases, where = [], []
    for ji, (st, rec) in enumerate(outs):
        if st != 'ok':
            continue
        for ri, run in enumerate(rec['runs']):
            for ei, e in enumerate(run.get('engines', [])):
                if 'forest' in e:
                    cases.append({'op': 'shape', 'forest': e.pop('forest')}); where.append((ji, ri, ei))
    model = run_driver_parallel(cases, timeout=900)
    for (ji, ri, ei), m in zip(where, model):
        outs[ji][1]['runs'][ri]['engines'][ei]['model'] = m
    if positions:
        # the Lean model of PropagatePositions (Positions.lean) on the same derivations, tokens replaced by their [start_pos, end_pos)
        pcases = [{'op': 'positions', 'forest': c['forest'], 'spans': [[t[2], t[3]] for t in outs[ji][1]['runs'][ri]['engines'][ei]['toks']]}
                  for c, (ji, ri, ei) in zip(cases, where)]
        pmodel = run_driver_parallel(pcases, timeout=900)
        for (ji, ri, ei), m in zip(where, pmodel):
            outs[ji][1]['runs'][ri]['engines'][ei]['pos_model'] = m
    return jobs, outs
