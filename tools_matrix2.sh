#!/bin/bash
# usage: tools_matrix2.sh <out.tsv> <seeded-dir-name>...      (run from anywhere)
# Like tools_matrix.sh, but leaves /repo and /verif alone: each seeded change is applied to a scratch worktree of /repo HEAD under /tmp/mx (removed afterwards)
# and the change's own property check (quick tier) is run from /root/vmx — a git worktree of /verif's HEAD with its own Lean build — with LARK_REPO pointing at the scratch tree.
out=$1; shift
vm=/root/vmx
git -C $vm reset -q --hard; git -C $vm checkout -q -f --detach $(git -C /verif rev-parse HEAD) || exit 2
(cd $vm && ./check --setup >/dev/null 2>&1)
mkdir -p /tmp/mx
for m in "$@"; do
  d=/verif/seeded/$m; prop=$(echo $m | cut -c1-3); wt=/tmp/mx/$m
  git -C /repo worktree add --detach $wt HEAD >/dev/null 2>&1
  if ! git -C $wt apply $d/patch.diff 2>/dev/null; then echo -e "$m\t-\tNA\tpatch does not apply" >> $out; git -C /repo worktree remove --force $wt; continue; fi
  log=$(cd $vm && LARK_REPO=$wt timeout 1500 ./check $prop 2>&1); rc=$?
  echo -e "$m\t$prop\t$rc\t$(echo "$log" | grep -E "^VIOLATION|quick seed" | head -2 | tr '\n' ' ' | cut -c1-300)" >> $out
  [ -f $vm/replays/${prop}_quick_0.json ] && cp $vm/replays/${prop}_quick_0.json /tmp/mx/$m.replay.json
  git -C /repo worktree remove --force $wt
done
# clean tree again in the copy, so that its Extracted.lean is the unchanged one
echo "DONE" >> $out
