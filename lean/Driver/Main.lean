import Lean.Data.Json
import LarkVerif.Repeat
/-! Line-protocol driver: one JSON request per stdin line (`{"op": ...}`), one JSON answer per stdout line.
    Runs the *executable definitions the theorems are about*.  Not part of the proof library. -/
open Lean

namespace Driver

def natJ (n : Nat) : Json := Json.num (JsonNumber.fromNat n)
def natArr (l : List Nat) : Json := Json.arr (l.map natJ).toArray
def getNat (j : Json) (k : String) : Except String Nat := do (← j.getObjVal? k).getNat?
def getArr (j : Json) (k : String) : Except String (List Json) := do pure (← (← j.getObjVal? k).getArr?).toList
def getStr (j : Json) (k : String) : Except String String := do (← j.getObjVal? k).getStr?
def pairJ (a b : Nat) : Json := natArr [a, b]

open Proto in
partial def rtreeJ : RTree → Json
  | .atom => Json.str "x"
  | .empty => Json.arr #[]
  | .rep a b t => Json.mkObj [("rep", natArr [a, b]), ("t", rtreeJ t)]
  | .repOpt a b t o => Json.mkObj [("opt", natArr [a, b]), ("t", rtreeJ t), ("o", rtreeJ o)]
  | .naive mn mx => Json.mkObj [("naive", natArr [mn, mx])]
  | .cat l r => Json.mkObj [("cat", Json.arr #[rtreeJ l, rtreeJ r])]

def handle (j : Json) : Except String Json := do
  let op ← getStr j "op"
  match op with
  | "small_factors" =>
    let n ← getNat j "n"; let mf ← getNat j "mf"
    pure (Json.arr ((Proto.smallFactors n mf).map (fun ab => pairJ ab.1 ab.2)).toArray)
  | "repeat_tree" =>
    let mn ← getNat j "mn"; let mx ← getNat j "mx"; let bt ← getNat j "break"; let ft ← getNat j "fac"
    pure (rtreeJ (Proto.genTree bt ft mn mx))
  | _ => throw s!"unknown op {op}"

partial def loop (h : IO.FS.Stream) (out : IO.FS.Stream) : IO Unit := do
  let line ← h.getLine
  if line.isEmpty then return ()
  let r := match Json.parse line with
    | .error e => Json.mkObj [("error", Json.str s!"json: {e}")]
    | .ok j => match handle j with
      | .ok r => r
      | .error e => Json.mkObj [("error", Json.str e)]
  out.putStrLn r.compress
  loop h out

end Driver

def main : IO Unit := do
  let out ← IO.getStdout
  Driver.loop (← IO.getStdin) out
  out.flush
