import Lean.Data.Json
import LarkVerif.Repeat
import LarkVerif.Props.C06
import LarkVerif.Indenter
import LarkVerif.IterSubtrees
import LarkVerif.LexModel
import LarkVerif.LexTiling
import LarkVerif.LexFast
import LarkVerif.EarleyExec
import LarkVerif.EarleyExpected
import LarkVerif.LRCheck
import LarkVerif.LRError
import LarkVerif.LRComplete
import LarkVerif.LRClosedCheck
import LarkVerif.LALRTable
import LarkVerif.Shape
import LarkVerif.RuleSize
import LarkVerif.Positions
import LarkVerif.Scan
import LarkVerif.Transform
import LarkVerif.TransformEmbed
import LarkVerif.Cache
import LarkVerif.Serialize
import LarkVerif.Threads
import LarkVerif.Mangle
import LarkVerif.Priority
import LarkVerif.Choice
import LarkVerif.Recons
import LarkVerif.ForestVisit
import LarkVerif.TableSer
import LarkVerif.LR0
import LarkVerif.LR0Viable
import LarkVerif.ForestCert
import LarkVerif.Prune
import Std.Data.HashMap
/-! Line-protocol driver: one JSON request per stdin line (`{"op": ...}`), one JSON answer per stdout line.
    Runs the *executable definitions the theorems are about*.  Not part of the proof library. -/
open Lean

namespace Driver

def natJ (n : Nat) : Json := Json.num (JsonNumber.fromNat n)
def natArr (l : List Nat) : Json := Json.arr (l.map natJ).toArray
def getNat (j : Json) (k : String) : Except String Nat := do (← j.getObjVal? k).getNat?
def getArr (j : Json) (k : String) : Except String (List Json) := do pure (← (← j.getObjVal? k).getArr?).toList
def getStr (j : Json) (k : String) : Except String String := do (← j.getObjVal? k).getStr?
def pairJ (a b : Nat) : Json := natArr [a, b]

open Proto in
partial def rtreeJ : RTree → Json
  | .atom => Json.str "x"
  | .empty => Json.arr #[]
  | .rep a b t => Json.mkObj [("rep", natArr [a, b]), ("t", rtreeJ t)]
  | .repOpt a b t o => Json.mkObj [("opt", natArr [a, b]), ("t", rtreeJ t), ("o", rtreeJ o)]
  | .naive mn mx => Json.mkObj [("naive", natArr [mn, mx])]
  | .cat l r => Json.mkObj [("cat", Json.arr #[rtreeJ l, rtreeJ r])]

def boolOf (j : Json) : Except String Bool := do
  match j with
  | Json.bool b => pure b
  | _ => throw "bool expected"

open LCProto in
def lcJ (lc : LineCounter) : Json := natArr [lc.charPos, lc.line, lc.column, lc.lineStartPos]
open LCProto in
def stampJ (s : Stamp) : Json := natArr [s.startPos, s.line, s.column, s.endPos, s.endLine, s.endColumn]

def spanOf (j : Json) : Except String (Nat × Nat) := do
  match (← j.getArr?).toList with
  | [a, b] => pure (← a.getNat?, ← b.getNat?)
  | _ => throw "span"

open IndProto in
def indTokOf (j : Json) : Except String Tok := do
  match j with
  | Json.str "(" => pure .openP
  | Json.str ")" => pure .closeP
  | _ =>
    match (← j.getArr?).toList with
    | [Json.str "nl", n] => pure (.nl (← n.getNat?))
    | [Json.str "o", n] => pure (.other (← n.getNat?))
    | _ => throw "indenter token"

open IndProto in
def indEvJ : Ev → Json
  | .indent => Json.str "I"
  | .dedent => Json.str "D"
  | .tok .openP => Json.str "("
  | .tok .closeP => Json.str ")"
  | .tok (.nl n) => Json.arr #[Json.str "nl", natJ n]
  | .tok (.other n) => Json.arr #[Json.str "o", natJ n]

-- runs `stepTok` token by token (so that the events emitted before an error are visible, as with the
-- real generator) and appends the closing DEDENTs of `processFrom`
open IndProto in
def runIndenter (toks : List Tok) : Json := Id.run do
  let mut st := St.init
  let mut out : Array Json := #[]
  let mut consumed := 0
  for t in toks do
    match stepTok st t with
    | .error e =>
      -- what the real generator has already yielded for the failing token when it raises
      let partialEvs : List Ev := match t with
        | .nl indent => Ev.tok t :: List.replicate (popWhile indent st.levels).2 Ev.dedent
        | _ => [Ev.tok t]
      return Json.mkObj [("out", Json.arr out), ("consumed", natJ consumed), ("partial", Json.arr (partialEvs.map indEvJ).toArray),
        ("err", Json.str (match e with | .dedentError => "DedentError" | .assertFail => "AssertionError"))]
    | .ok (evs, st') =>
      out := out ++ (evs.map indEvJ).toArray
      st := st'
      consumed := consumed + 1
  out := out ++ ((List.replicate (st.levels.length - 1) Ev.dedent).map indEvJ).toArray
  -- cross-check against the function the theorem is about
  let whole := match process St.init toks with
    | .ok evs => Json.arr (evs.map indEvJ).toArray
    | .error _ => Json.null
  return Json.mkObj [("out", Json.arr out), ("consumed", natJ consumed), ("err", Json.null), ("process", whole)]

def tripleOf (j : Json) : Except String (Nat × Nat × Nat) := do
  match (← j.getArr?).toList with
  | [a, b, c] => pure (← a.getNat?, ← b.getNat?, ← c.getNat?)
  | _ => throw "triple"

def natListOf (j : Json) : Except String (List Nat) := do (← j.getArr?).toList.mapM (·.getNat?)

open LexModel in
def termInfoOf (j : Json) : Except String TermInfo := do
  pure ⟨← getStr j "name", ← (← j.getObjVal? "prio").getInt?, ← getNat j "maxw", ← getNat j "vlen", ← boolOf (← j.getObjVal? "str")⟩

open LexModel LexProto in
def lexErrJ : LexErr → Json
  | .chars p allowed => Json.mkObj [("kind", "chars"), ("pos", natJ p), ("allowed", natArr allowed)]
  | .token ty p len allowed => Json.mkObj [("kind", "token"), ("ty", natJ ty), ("pos", natJ p), ("len", natJ len), ("allowed", natArr allowed)]

open LexModel LexProto in
def runLex (j : Json) : Except String Json := do
  let terms ← (← getArr j "terms").mapM termInfoOf
  let self ← (← getArr j "self").mapM spanOf
  let fsub ← (← getArr j "fsub").mapM spanOf
  let ignore ← natListOf (← j.getObjVal? "ignore")
  let n ← getNat j "n"
  let mtL ← (← getArr j "mt").mapM tripleOf
  let fullL ← (← getArr j "full").mapM tripleOf
  let mtMap : Std.HashMap (Nat × Nat) Nat := mtL.foldl (fun m (t, p, l) => m.insert (t, p) l) {}
  let fullSet : Std.HashMap (Nat × Nat × Nat) Unit := fullL.foldl (fun m k => m.insert k ()) {}
  let L : Lexer := ⟨terms.toArray, self, fsub, ignore⟩
  let F : Facts := ⟨fun t p => mtMap.get? (t, p), fun s p l => fullSet.contains (s, p, l)⟩
  let all := List.range terms.length
  let start := (← getNat j "start")
  let mode ← getStr j "mode"
  let (toks, err) ←
    if mode == "basic" then
      -- the function the tiling theorem is about; `lexBasic` is cross-checked below
      let r := L.lexAllPieces F all n (n + 1) start
      let sorted := L.sorted all
      pure (emitted r.1, if r.2.2 then some (LexErr.chars r.2.1 (sorted.filter (fun t => !L.ignore.contains t))) else none)
    else do
      let subsets ← (← getArr j "subsets").mapM natListOf
      pure (L.lexCtx F all n subsets start)
  let agree := mode != "basic" || (L.lexBasic F all n (n + 1) start).1 == toks
  pure (Json.mkObj [("agree", Json.bool agree), ("toks", Json.arr (toks.map (fun (t, p, l) => natArr [t, p, l])).toArray),
                    ("err", match err with | none => Json.null | some e => lexErrJ e),
                    ("order", natArr (L.scanList (L.sorted all)))])

open EarleyProto in
def symOf (j : Json) : Except String Sym := do
  match (← j.getArr?).toList with
  | [k, n] => do
    let k ← k.getNat?
    let n ← n.getNat?
    pure (if k = 1 then Sym.t n else Sym.nt n)
  | _ => throw "sym"

open EarleyProto in
def ruleOf (j : Json) : Except String Rule := do
  pure ⟨← getNat j "lhs", ← (← getArr j "rhs").mapM symOf⟩

open EarleyProto in
def runEarley (j : Json) : Except String Json := do
  let rules ← (← getArr j "rules").mapM ruleOf
  let n ← getNat j "n"
  let edges ← (← getArr j "edges").mapM tripleOf
  let igns ← (← getArr j "igns").mapM spanOf
  let start ← getNat j "start"
  let G : Grammar := ⟨rules⟩
  let L : FLattice := ⟨n, edges, igns⟩
  let c := chart G L start
  let acc := accepts G L start
  let ridx (r : Rule) : Nat := (rules.findIdx? (· == r)).getD rules.length
  let cols := (List.range (n+1)).map fun i =>
    let items := (c.filter (fun x => x.col = i)).map fun x => [ridx x.rule, x.dot, x.origin]
    Json.arr ((items.mergeSort (fun a b => a ≤ b)).map natArr).toArray
  -- expected terminals per column: items whose next symbol is a terminal
  let exp := (List.range (n+1)).map fun i =>
    let ts := (c.filter (fun x => x.col = i)).filterMap fun x => match x.rule.rhs[x.dot]? with      -- = `expectedAt G L start i` (Props.C08.earley_expected_exact)
      | some (Sym.t a) => some a
      | _ => none
    natArr (ts.mergeSort (fun a b => a ≤ b)).eraseDups
  -- optional productivity certificate: an ordering of rule indices
  let prod ← match j.getObjVal? "order" with
    | .ok o => do
      let idxs ← natListOf o
      pure (Json.bool (productiveB G (idxs.filterMap fun k => rules[k]?)))
    | .error _ => pure Json.null
  let wf := edges.all (fun e => e.2.1 < e.2.2 && e.2.2 ≤ n) && igns.all (fun e => e.1 < e.2 && e.2 ≤ n)
  pure (Json.mkObj [("accept", Json.bool acc), ("cols", Json.arr cols.toArray), ("expected", Json.arr exp.toArray), ("wf", Json.bool wf), ("productive", prod)])

open LALRTable in
def candOf (j : Json) : Except String Cand := do
  match (← j.getArr?).toList with
  | [p, r] => pure (← p.getInt?, ← r.getNat?)
  | _ => throw "cand"

open LALRTable in
def rowInOf (j : Json) : Except String RowIn := do
  let shifts ← (← getArr j "shifts").mapM spanOf
  let las ← (← getArr j "las").mapM fun e => do
    match (← e.getArr?).toList with
    | [la, cs] => pure (← la.getNat?, ← (← cs.getArr?).toList.mapM candOf)
    | _ => throw "la entry"
  pure ⟨shifts, las⟩

open LALRTable in
def actJ : Act → Json
  | .shift q => Json.arr #[Json.str "s", natJ q]
  | .reduce r => Json.arr #[Json.str "r", natJ r]

open LALRTable in
def runLrTable (j : Json) : Except String Json := do
  let rows ← (← getArr j "rows").mapM rowInOf
  match build rows with
  | none => pure (Json.mkObj [("error", Json.bool true),
      ("conflicts", Json.arr ((rows.zipIdx.flatMap fun (r, i) => (conflicts r).map fun la => natArr [i, la]).toArray))])
  | some t => pure (Json.mkObj [("error", Json.bool false),
      ("rows", Json.arr (t.map fun row => Json.arr (row.map fun (la, a) => Json.arr #[natJ la, actJ a]).toArray).toArray)])

open EarleyProto LRProto in
def ftableOf (j : Json) (rules : List Rule) : Except String FTable := do
  let rule (i : Nat) : Rule := rules.getD i ⟨0, []⟩
  let items ← (← getArr j "items").mapM fun st => do
    (← st.getArr?).toList.mapM fun it => do
      let (r, d) ← spanOf it
      pure (rule r, d)
  let shifts ← (← getArr j "shifts").mapM tripleOf
  let reduces ← (← getArr j "reduces").mapM tripleOf
  let gotos ← (← getArr j "gotos").mapM tripleOf
  pure ⟨items, shifts, reduces.map (fun (q, t, r) => (q, t, rule r)), gotos, ← getNat j "start", ← getNat j "final"⟩

open EarleyProto LRProto in
def runLrParse (j : Json) : Except String Json := do
  let rules ← (← getArr j "rules").mapM ruleOf
  let F ← ftableOf j rules
  let s0 ← getNat j "s0"
  let eof ← getNat j "eof"
  let toks ← natListOf (← j.getObjVal? "toks")
  let fuel ← getNat j "fuel"
  let terms ← natListOf (← j.getObjVal? "terms")
  let T := F.toTable
  let G : Grammar := ⟨rules⟩
  let safe := checkSafe G F s0
  -- completeness certificate (optional fields): NULLABLE/FIRST tables and an item-lookahead annotation
  let closed : Json ← match j.getObjVal? "ann" with
    | .error _ => pure Json.null
    | .ok annJ => do
      let nuser ← getNat j "nuser"
      let nullableL ← natListOf (← j.getObjVal? "nullable")
      let firstL ← (← getArr j "first").mapM fun e => do
        match (← e.getArr?).toList with
        | [a, l] => pure (← a.getNat?, ← natListOf l)
        | _ => throw "first entry"
      let ann ← (← annJ.getArr?).toList.mapM fun e => do
        match (← e.getArr?).toList with
        | [q, r, d, l] => pure ((← q.getNat?, rules.getD (← r.getNat?) ⟨0, []⟩, ← d.getNat?), ← natListOf l)
        | _ => throw "ann entry"
      pure (Json.bool (checkClosed ⟨rules.take nuser⟩ F (fnOf nullableL firstL) ⟨ann⟩ s0 eof))
  -- the observable state after every consumed prefix
  let describe (cfg : Config) : Json :=
    let q := cfg.states.headD 0
    let choices := terms.filter fun t => (T.action q t).isSome
    let accepts := acceptsOf T terms eof fuel cfg      -- the function `accepts_is_exact` is about
    Json.mkObj [("choices", natArr choices), ("accepts", natArr accepts)]
  let mut cfg : Config := ⟨[T.start], []⟩
  let mut steps : Array Json := #[describe cfg]
  let mut outcome := "shifted"
  let mut errorAt := toks.length
  let mut k := 0
  for t in toks do
    match reduceLoop T t false fuel cfg with
    | Outcome.shifted c => cfg := c; steps := steps.push (describe cfg)
    | Outcome.error => outcome := "error"; errorAt := k; break
    | Outcome.loop => outcome := "loop"; errorAt := k; break
    | _ => outcome := "crash"; errorAt := k; break
    k := k + 1
  if outcome == "shifted" then
    outcome := match reduceLoop T eof true fuel cfg with
      | Outcome.accept _ => "accept"
      | Outcome.error => "error"
      | Outcome.loop => "loop"
      | _ => "crash"
  -- cross-check with the function the theorems are about
  let whole := match parse T eof fuel toks with
    | Outcome.accept _ => "accept" | Outcome.error => "error" | Outcome.loop => "loop" | Outcome.crash => "crash" | Outcome.shifted _ => "shifted"
  pure (Json.mkObj [("safe", Json.bool safe), ("closed", closed), ("outcome", Json.str outcome), ("errorAt", natJ errorAt), ("steps", Json.arr steps), ("parse", Json.str whole)])

open EarleyProto LRProto in
/-- C13: single `feed_token` calls from arbitrary state stacks — the verdict (`reduceLoop`) and the stacks left behind (`reductionsOn`, error states included) -/
def runLrFeed (j : Json) : Except String Json := do
  let rules ← (← getArr j "rules").mapM ruleOf
  let F ← ftableOf j rules
  let T := F.toTable
  let fuel ← getNat j "fuel"
  let qs ← (← getArr j "queries").mapM fun q => do
    match (← q.getArr?).toList with
    | [st, t, e] => pure (← natListOf st, ← t.getNat?, (← e.getNat?) != 0)
    | _ => throw "query"
  let outs := qs.map fun (stack, t, isEnd) =>
    let states := stack.reverse
    let cfg : Config := ⟨states, List.replicate (states.length - 1) (Sym.t 0, [])⟩
    let left := reductionsOn T t isEnd fuel cfg
    let (status, after) := match reduceLoop T t isEnd fuel cfg with
      | Outcome.shifted c => ("shifted", c.states)
      | Outcome.accept _ => ("accept", left.states)
      | Outcome.error => ("error", left.states)
      | Outcome.crash => ("crash", left.states)
      | Outcome.loop => ("loop", left.states)
    Json.mkObj [("status", Json.str status), ("stack", natArr after.reverse)]
  pure (Json.arr outs.toArray)

/-- {"id": n, "kids": [...]} (Tree children only) -/
partial def iterTOf (j : Json) : Except String IterProto.T := do
  let i ← getNat j "id"
  let ks ← (← getArr j "kids").mapM iterTOf
  pure (IterProto.T.node i ks)

open RuleSizeProto in
/-- C03: body of a `[..]` as JSON: {"s": kept} | {"seq": [...]} | {"alt": [...]} | {"maybe": body} (a nested `[..]`, expanded as `EBNF_to_BNF.maybe` does) -/
partial def eOf (j : Json) : Except String E := do
  match j.getObjVal? "s" with
  | .ok b => pure (E.sym (← boolOf b))
  | .error _ =>
    match j.getObjVal? "seq" with
    | .ok l => pure (E.seq (← (← l.getArr?).toList.mapM eOf))
    | .error _ =>
      match j.getObjVal? "alt" with
      | .ok l => pure (E.alt (← (← l.getArr?).toList.mapM eOf))
      | .error _ =>
        let x ← eOf (← j.getObjVal? "maybe")
        pure (E.alt [x, E.seq (List.replicate (size x) (E.sym false))])

open RuleSizeProto in
def runRuleSize (j : Json) : Except String Json := do
  let e ← eOf (← j.getObjVal? "body")
  pure (Json.mkObj [("size", natJ (size e)), ("longest", natJ (longest (alts e)))])

open ChoiceProto in
/-- C05: the families of one symbol node in iteration order as [isEmpty, priority, rule.order] → index of the chosen one -/
def runChoose (j : Json) : Except String Json := do
  let nodes ← (← getArr j "nodes").mapM fun nd => do
    (← nd.getArr?).toList.mapM fun f => do
      match (← f.getArr?).toList with
      | [e, p, o] => pure (⟨← boolOf e, ← p.getInt?, ← o.getNat?⟩ : Fam)
      | _ => throw "fam"
  pure (Json.arr (nodes.map fun l => match chooseIdx l with | some i => natJ i | none => Json.null).toArray)

open ShapeProto in
def symInfoOf (j : Json) : Except String SymInfo := do
  match (← j.getArr?).toList with
  | [a, b, c] => pure ⟨← boolOf a, ← boolOf b, ← boolOf c⟩
  | _ => throw "syminfo"

open ShapeProto in
partial def dOf (l : List Json) : Except String D := do
  match l with
  | [] => pure D.nil
  | x :: rest =>
    let restD ← dOf rest
    let s ← symInfoOf (← x.getObjVal? "s")
    match x.getObjVal? "kids" with
    | .ok kids =>
      let r ← x.getObjVal? "r"
      let alias ← match r.getObjVal? "alias" with
        | .ok (Json.null) => pure none
        | .ok a => pure (some (← a.getNat?))
        | .error _ => pure none
      let markers ← (← getArr r "markers").mapM boolOf
      let ri : RuleInfo := ⟨← getNat r "name", alias, ← boolOf (← r.getObjVal? "expand1"), ← boolOf (← r.getObjVal? "keepAll"), markers⟩
      let kidsD ← dOf (← kids.getArr?).toList
      pure (D.node s ri kidsD restD)
    | .error _ => pure (D.leaf s (← getNat x "ty") 0 restD)

open ShapeProto in
partial def valJ : Val → Json
  | .tok ty _ => Json.mkObj [("t", natJ ty)]
  | .tree d ks => Json.mkObj [("d", natJ d), ("k", Json.arr (ks.map valJ).toArray)]
  | .none => Json.null

open ShapeProto in
def runShape (j : Json) : Except String Json := do
  let d ← dOf (← getArr j "forest")
  let built := buildList d
  let spec := shapeList d
  -- WF is the hypothesis of buildList_eq_shapeList; evaluate it on the real derivation
  let rec wf : D → Bool
    | .nil => true
    | .leaf _ _ _ rest => wf rest
    | .node _ r kids rest => (r.markers.count false == kids.len) && wf kids && wf rest
  pure (Json.mkObj [("built", Json.arr (built.map (fun x => valJ x.2)).toArray), ("spec", Json.arr (spec.map (fun x => valJ x.2)).toArray), ("wf", Json.bool (wf d))])

open ShapeProto in
/-- tokens are referenced by index in the forest; `positions` replaces the index by the token's `[start_pos, end_pos)` -/
def withSpans (sp : Array (Nat × Nat)) : D → D
  | .nil => .nil
  | .leaf s ty _ rest => let p := sp.getD ty (0, 0); .leaf s p.1 p.2 (withSpans sp rest)
  | .node s r kids rest => .node s r (withSpans sp kids) (withSpans sp rest)

def spanJ : Option (Nat × Nat) → Json
  | none => Json.null
  | some (a, b) => natArr [a, b]

open ShapeProto PosProto in
def runPositions (j : Json) : Except String Json := do
  let d0 ← dOf (← getArr j "forest")
  let sp ← (← getArr j "spans").mapM spanOf
  let d := withSpans sp.toArray d0
  let vs := evalP d
  let ms := vs.map (fun x => Json.arr ((metas x.2).map (fun (m, o) => Json.arr #[spanJ m, spanJ o])).toArray)
  pure (Json.mkObj [("metas", Json.arr ms.toArray), ("clean", Json.bool (cleanB d)),
                    ("outer", Json.arr (vs.map (fun x => spanJ (cand x.2))).toArray), ("spans", Json.arr ((spans d).map spanJ).toArray)])

-- C16: callbacks are interpreted freely (term algebra): a callback application is marked by adding `cbMark` to the label
def cbMark : Nat := 1000000

open ShapeProto EmbedProto in
def runEmbed (j : Json) : Except String Json := do
  let d ← dOf (← getArr j "forest")
  let cbNodes ← natListOf (← j.getObjVal? "cb_nodes")
  let cbToks ← natListOf (← j.getObjVal? "cb_toks")
  let f : Nat → List Val → Val := fun n ks => if cbNodes.contains n then Val.tree (n + cbMark) ks else Val.tree n ks
  let g : Nat → Nat → Val := fun ty v => if cbToks.contains ty then Val.tok (ty + cbMark) v else Val.tok ty v
  let emb := (buildListT f g d).map (·.2)
  let aft := (buildList d).map (fun x => trV f g x.2)
  pure (Json.mkObj [("embedded", Json.arr (emb.map valJ).toArray), ("after", Json.arr (aft.map valJ).toArray)])

open TrProto in
partial def forestOf (l : List Json) : Except String Forest := do
  match l with
  | [] => pure Forest.nil
  | x :: rest =>
    let r ← forestOf rest
    match x.getObjVal? "k" with
    | .ok ks => pure (Forest.node (← getNat x "d") (← forestOf (← ks.getArr?).toList) r)
    | .error _ => pure (Forest.leaf (← getNat x "t") r)

open TrProto in
def runTransform (j : Json) : Except String Json := do
  let F ← forestOf (← getArr j "forest")
  let cbData ← natListOf (← j.getObjVal? "cb_data")
  let cbToks ← natListOf (← j.getObjVal? "cb_toks")
  let f : Nat → List Json → Json := fun d ks => Json.mkObj [(if cbData.contains d then "c" else "T", natJ d), ("a", Json.arr ks.toArray)]
  let g : Nat → Json := fun t => Json.mkObj [(if cbToks.contains t then "ct" else "t", natJ t)]
  let rec_ := tr f g F
  let stack := runStack f g (postOrder F) []
  pure (Json.mkObj [("recursive", Json.arr rec_.toArray), ("stack", Json.arr stack.reverse.toArray), ("instrs", natJ (postOrder F).length)])

open CacheProto in
def cacheEnv : Env := ⟨id, id, fun r => r.g * 1000 + r.imp, fun _ _ h => h, fun _ _ h => h⟩

open CacheProto in
def fileJ : File → Json
  | .absent => Json.str "absent"
  | .bad => Json.str "bad"
  | .good h u p => Json.mkObj [("hdr", natJ h), ("used", natJ u), ("payload", natJ p)]

open CacheProto in
def runCache (j : Json) : Except String Json := do
  let ops ← (← getArr j "ops").mapM fun o => do
    let k ← getStr o "k"
    let req : Except String Req := do pure ⟨← getNat o "g", ← getNat o "imp"⟩
    match k with
    | "open" => pure (Op.open_ (← req))
    | "crash" => pure (Op.openCrash (← req))
    | "truncate" => pure Op.truncate
    | "delete" => pure Op.delete
    | "foreign" => pure (Op.foreign (← req))
    | _ => throw "cache op"
  -- step by step, so that the file state after every operation is visible
  let mut f := File.absent
  let mut out : Array Json := #[]
  for op in ops do
    let (f', o) := step cacheEnv f op
    f := f'
    out := out.push (Json.mkObj [("file", fileJ f), ("served", match o with | some (_, p) => natJ p | none => Json.null)])
  let whole := (run cacheEnv File.absent ops).2.map (fun ro => natJ ro.2)
  pure (Json.mkObj [("steps", Json.arr out), ("served", Json.arr whole.toArray)])

open SerProto in
partial def pvOf (j : Json) : Except String PV := do
  match j with
  | Json.null => pure PV.none
  | Json.num n => pure (PV.int n.mantissa)
  | Json.str s => pure (PV.str s)
  | Json.arr a => pure (PV.list (← a.toList.mapM pvOf))
  | Json.obj _ =>
    match j.getObjVal? "fset" with
    | .ok l => pure (PV.fset (← (← l.getArr?).toList.mapM pvOf))
    | .error _ =>
      let ks ← (← getArr j "keys").mapM (·.getStr?)
      let vs ← (← getArr j "vals").mapM pvOf
      pure (PV.dict ks vs)
  | _ => throw "pv"

open SerProto in
partial def pvJ : PV → Json
  | .none => Json.null
  | .int n => Json.num (JsonNumber.fromInt n)
  | .str s => Json.str s
  | .list l => Json.arr (l.map pvJ).toArray
  | .dict ks vs => Json.mkObj [("keys", Json.arr (ks.map Json.str).toArray), ("vals", Json.arr (vs.map pvJ).toArray)]
  | .fset l => Json.mkObj [("fset", Json.arr (l.map pvJ).toArray)]

open PrioProto in
partial def aoOf (j : Json) : Except String AO := do
  match j.getObjVal? "leaf" with
  | .ok w => pure (AO.leaf (← w.getInt?))
  | .error _ =>
    match j.getObjVal? "or" with
    | .ok alts =>
      let l ← (← alts.getArr?).toList.mapM aoOf
      pure (l.foldr AO.orCons AO.orNil)
    | .error _ =>
      let w ← (← j.getObjVal? "and").getInt?
      let kids ← (← getArr j "kids").mapM aoOf
      match kids with
      | [] => pure (AO.and0 w)
      | [c] => pure (AO.and1 w c)
      | [l, r] => pure (AO.and2 w l r)
      | _ => throw "packed node with more than two children"

def optIntJ : Option Int → Json
  | none => Json.null
  | some n => Json.num (JsonNumber.fromInt n)

def handle (j : Json) : Except String Json := do
  let op ← getStr j "op"
  match op with
  | "small_factors" =>
    let n ← getNat j "n"; let mf ← getNat j "mf"
    pure (Json.arr ((Proto.smallFactors n mf).map (fun ab => pairJ ab.1 ab.2)).toArray)
  | "repeat_tree" =>
    let mn ← getNat j "mn"; let mx ← getNat j "mx"; let bt ← getNat j "break"; let ft ← getNat j "fac"
    pure (rtreeJ (Proto.genTree bt ft mn mx))
  | "lc_feed" =>
    -- {"feeds": [[token, flag], ...]}: the states of a fresh LineCounter after each feed
    let feeds ← getArr j "feeds"
    let mut lc := LCProto.LineCounter.init
    let mut out : Array Json := #[]
    for f in feeds do
      match (← f.getArr?).toList with
      | [t, b] =>
        lc := lc.feed (← t.getStr?).toList (← boolOf b)
        out := out.push (lcJ lc)
      | _ => throw "feed"
    pure (Json.arr out)
  | "lc_advance" =>
    -- {"text", "steps": [pos, ...]}: advance_to over increasing positions
    let text := (← getStr j "text").toList
    let steps ← getArr j "steps"
    let mut lc := LCProto.LineCounter.init
    let mut out : Array Json := #[]
    for p in steps do
      lc := lc.advanceTo text (← p.getNat?)
      out := out.push (lcJ lc)
    pure (Json.arr out)
  | "stamps" =>
    let text := (← getStr j "text").toList
    let spans ← (← getArr j "spans").mapM spanOf
    pure (Json.arr (spans.map (fun se => stampJ (Props.C06.stampAt text se.1 se.2 true))).toArray)
  | "dyn_stamps" =>
    let text := (← getStr j "text").toList
    let spans ← (← getArr j "spans").mapM spanOf
    pure (Json.arr (spans.map (fun se => stampJ (LCProto.dynStamp text se.1 se.2))).toArray)
  | "indenter" =>
    let toks ← (← getArr j "toks").mapM indTokOf
    pure (runIndenter toks)
  | "lex" => runLex j
  | "earley" => runEarley j
  | "lr_table" => runLrTable j
  | "shape" => runShape j
  | "positions" => runPositions j
  | "embed" => runEmbed j
  | "cache" => runCache j
  | "recons_join" =>
    let items ← (← getArr j "items").mapM (·.getStr?)
    let ids := (← getStr j "idchars").toList
    pure (Json.str (String.ofList (ReconsProto.joinItems (fun c => ids.contains c) (items.map (·.toList)))))
  | "ao" =>
    let t ← aoOf (← j.getObjVal? "forest")
    let ds := PrioProto.derivs t
    pure (Json.mkObj [("prio", optIntJ (PrioProto.prio t)), ("best", optIntJ (PrioProto.best ds)), ("nderivs", natJ ds.length),
                      ("min", optIntJ ((PrioProto.best (ds.map (fun x => -x))).map (fun x => -x)))])
  | "mangle" =>
    let pre := (← getStr j "prefix").toList
    let aliases ← (← getArr j "aliases").mapM fun a => do
      match (← a.getArr?).toList with
      | [x, y] => pure ((← x.getStr?).toList, (← y.getStr?).toList)
      | _ => throw "alias"
    let names ← (← getArr j "names").mapM (·.getStr?)
    pure (Json.arr (names.map (fun n => Json.str (String.ofList (MangleProto.mangle pre aliases n.toList)))).toArray)
  | "threads" =>
    let fixed ← boolOf (← j.getObjVal? "fixed")
    let n ← getNat j "n"
    let sched ← natListOf (← j.getObjVal? "sched")
    pure (Json.arr ((ThProto.run fixed (ThProto.initSys n) sched).map Json.bool).toArray)
  | "ser" =>
    let v ← pvOf (← j.getObjVal? "v")
    pure (Json.mkObj [("ser", pvJ (SerProto.ser v)), ("round", pvJ (SerProto.deser (SerProto.ser v)))])
  | "transform" => runTransform j
  | "scan" =>
    let n ← getNat j "n"
    let pos ← getNat j "pos"
    let sT ← (← getArr j "search").mapM spanOf
    let aT ← (← getArr j "attempt").mapM spanOf
    let sM : Std.HashMap Nat Nat := sT.foldl (fun m (a, b) => m.insert a b) {}
    let aM : Std.HashMap Nat Nat := aT.foldl (fun m (a, b) => m.insert a b) {}
    let r := ScanProto.scanRaw (fun p => sM.get? p) (fun p => aM.get? p) (n + 2) pos
    pure (Json.arr (r.map (fun (a, b) => natArr [a, b])).toArray)
  | "lr_parse" => runLrParse j
  | "lr_feed" => runLrFeed j
  | "rule_size" => runRuleSize j
  | "choose" => runChoose j
  | "prune_check" =>
    -- {"rules": [...all rules before pruning...], "keep": [bool...], "roots": [nt...]}: is the kept set closed from the roots (PruneProto.closedB)?
    let rules ← (← getArr j "rules").mapM ruleOf
    let keepL ← (← getArr j "keep").mapM boolOf
    let roots ← natListOf (← j.getObjVal? "roots")
    let kept : List EarleyProto.Rule := (rules.zip keepL).filterMap fun (r, k) => if k then some r else none
    let keep : EarleyProto.Rule → Bool := fun r => kept.contains r
    pure (Json.mkObj [("closed", Json.bool (PruneProto.closedB ⟨rules⟩ keep roots)), ("kept", natJ (PruneProto.pruned ⟨rules⟩ keep).rules.length)])
  | "forest_cert" =>
    -- {"rules", "n", "edges", "igns", "nodes": [[kind, a, b, s, e]...] (kind 0: sym a; kind 1: lr0 rule a dot b), "fams": [[[rule, left|null, right|null]...]...]
    --  right = [0, node] | [1, term, p, q]}: ForestCert.checkForest on the exported SPPF
    let rules ← (← getArr j "rules").mapM ruleOf
    let n ← getNat j "n"
    let edges ← (← getArr j "edges").mapM tripleOf
    let igns ← (← getArr j "igns").mapM spanOf
    let ruleAt (i : Nat) : EarleyProto.Rule := rules.getD i ⟨0, []⟩
    let nodes ← (← getArr j "nodes").mapM fun e => do
      match (← natListOf e) with
      | [0, a, _, s, t] => pure (⟨ForestCert.Lbl.sym a, s, t⟩ : ForestCert.FNode)
      | [1, a, b, s, t] => pure (⟨ForestCert.Lbl.lr0 (ruleAt a) b, s, t⟩ : ForestCert.FNode)
      | _ => throw "node"
    let fams ← (← getArr j "fams").mapM fun fs => do
      (← fs.getArr?).toList.mapM fun f => do
        match (← f.getArr?).toList with
        | [r, l, rt] =>
          let left : Option Nat ← match l with | Json.null => pure none | x => do pure (some (← x.getNat?))
          let right : Option ForestCert.Child ← match rt with
            | Json.null => pure none
            | x => do
              match (← natListOf x) with
              | [0, m] => pure (some (ForestCert.Child.node m))
              | [1, a, p, q] => pure (some (ForestCert.Child.tok a p q))
              | _ => throw "right child"
          pure (⟨ruleAt (← r.getNat?), left, right⟩ : ForestCert.Fam)
        | _ => throw "family"
    let G : EarleyProto.Grammar := ⟨rules⟩
    let L : EarleyProto.FLattice := ⟨n, edges, igns⟩
    let F : ForestCert.Forest := ⟨nodes, fams⟩
    let bad := (List.range fams.length).flatMap fun k => ((F.famsOf k).zipIdx.filter fun (f, _) => !ForestCert.famOk G L F (n + 1) k f).map fun (_, i) => natArr [k, i]
    pure (Json.mkObj [("ok", Json.bool (ForestCert.checkForest G L F (n + 1))), ("bad", Json.arr bad.toArray)])
  | "lr0_check" =>
    -- {"rules", "items": [[[rule, dot]...]...], "kernels": [[[rule, dot]...]...], "trans": [[p, [k, n], q]...]}: lark's LR(0) automaton against LR0.closure / gotoKernel
    let rules ← (← getArr j "rules").mapM ruleOf
    let itemsOfJ (k : String) : Except String (List (List LR0.It)) := do
      (← getArr j k).mapM fun st => do
        (← st.getArr?).toList.mapM fun e => do
          match (← e.getArr?).toList with
          | [r, d] => pure (rules.getD (← r.getNat?) ⟨0, []⟩, ← d.getNat?)
          | _ => throw "item"
    let items ← itemsOfJ "items"
    let kernels ← itemsOfJ "kernels"
    let trans ← (← getArr j "trans").mapM fun e => do
      match (← e.getArr?).toList with
      | [p, X, q] => pure ((← p.getNat?), (← symOf X), (← q.getNat?))
      | _ => throw "transition"
    let G : EarleyProto.Grammar := ⟨rules⟩
    let A : LR0.Auto := ⟨items, kernels, trans⟩
    let bad := (List.range items.length).filter fun q => !LR0.sameSet (A.itemsOf q) (LR0.closure G (A.kernelOf q))
    -- hypotheses of LR0.shift_symbol_viable (Props.C08.lalr_shifted_terminal_is_legal): a productivity certificate and the shape of the start kernel
    let prod ← match j.getObjVal? "order" with
      | .ok o => do
        let idxs ← natListOf o
        pure (Json.bool (EarleyProto.productiveB G (idxs.filterMap fun k => rules[k]?)))
      | .error _ => pure Json.null
    let startOk ← match j.getObjVal? "q0" with
      | .ok o => do
        let q0 ← o.getNat?
        let K := A.kernelOf q0
        let root := (K.head?.map (·.1.lhs)).getD 0
        -- (also: every state has a kernel item — hypothesis `hne` of LRProto.consumed_is_viable_prefix)
        pure (Json.bool (decide (q0 < items.length) && !K.isEmpty && K.all (fun x => x.2 == 0 && x.1.lhs == root && rules.contains x.1) &&
                         (List.range items.length).all (fun q => !(A.kernelOf q).isEmpty)))
      | .error _ => pure Json.null
    pure (Json.mkObj [("ok", Json.bool (LR0.checkLR0 G A)), ("states_not_closure_of_kernel", natArr bad), ("productive", prod), ("start_kernel_ok", startOk)])
  | "table_ser" =>
    -- {"table": [[state, [[name, kind, arg]...]]...], "enc": {"tokens": [...], "states": [[state, [[idx, kind, arg]...]]...]}}
    let actOf (k a : Json) : Except String TableSer.Act := do
      if (← k.getNat?) == 0 then pure (.shift (← a.getNat?)) else pure (.reduce (← a.getNat?))
    let actJ : TableSer.Act → List Json
      | .shift n => [natJ 0, natJ n] | .reduce r => [natJ 1, natJ r]
    let table : TableSer.Table ← (← getArr j "table").mapM fun st => do
      match (← st.getArr?).toList with
      | [n, row] =>
        let r ← (← row.getArr?).toList.mapM fun e => do
          match (← e.getArr?).toList with
          | [t, k, a] => pure ((← t.getStr?), (← actOf k a))
          | _ => throw "row entry"
        pure ((← n.getNat?), r)
      | _ => throw "state"
    let enc ← j.getObjVal? "enc"
    let etoks ← (← getArr enc "tokens").mapM (·.getStr?)
    let estates : TableSer.ETable ← (← getArr enc "states").mapM fun st => do
      match (← st.getArr?).toList with
      | [n, row] =>
        let r ← (← row.getArr?).toList.mapM fun e => do
          match (← e.getArr?).toList with
          | [i, k, a] => pure ((← i.getNat?), (← actOf k a))
          | _ => throw "row entry"
        pure ((← n.getNat?), r)
      | _ => throw "state"
    let s := TableSer.serialize table
    let tableJ (T : TableSer.Table) : Json := Json.arr (T.map fun (n, row) => Json.arr #[natJ n, Json.arr (row.map fun (t, a) => Json.arr (Json.str t :: actJ a).toArray).toArray]).toArray
    pure (Json.mkObj [("tokens", Json.arr (s.1.map Json.str).toArray),
      ("states", Json.arr (s.2.map fun (n, row) => Json.arr #[natJ n, Json.arr (row.map fun (i, a) => Json.arr (natJ i :: actJ a).toArray).toArray]).toArray),
      ("round", Json.bool (TableSer.deserialize s == some table)),
      ("deser_of_code", match TableSer.deserialize (etoks, estates) with | some T => tableJ T | none => Json.null)])
  | "iter_subtrees" =>
    -- {"tree": {"id", "kids"}}: the order in which Tree.iter_subtrees yields the nodes (Props.C16.iter_subtrees_children_first is about this function)
    let t ← iterTOf (← j.getObjVal? "tree")
    pure (Json.mkObj [("order", natArr ((IterProto.iterSubtrees t).map fun | .node i _ => i))])
  | "forest_visit" =>
    -- {"nodes": [id...], "kids": [[id, [child...]]...], "toks": [id...], "sv": bool, "root": id}: the event sequence of ForestVisitor.visit
    let nodes ← natListOf (← j.getObjVal? "nodes")
    let toks ← natListOf (← j.getObjVal? "toks")
    let sv ← boolOf (← j.getObjVal? "sv")
    let root ← getNat j "root"
    let kidsL ← (← getArr j "kids").mapM fun a => do
      match (← a.getArr?).toList with
      | [x, y] => pure ((← x.getNat?), (← natListOf y))
      | _ => throw "kids"
    let kM : Std.HashMap Nat (List Nat) := kidsL.foldl (fun m (a, b) => m.insert a b) {}
    let tM : Std.HashMap Nat Unit := toks.foldl (fun m a => m.insert a ()) {}
    let g : VisitProto.Graph := { nodes := nodes, kids := fun n => (kM.get? n).getD [], isTok := fun n => tM.contains n }
    let evs := VisitProto.visit g sv root
    let evJ : VisitProto.Ev → Json
      | .enter n => natArr [0, n] | .leave n => natArr [1, n] | .tok n => natArr [2, n] | .cycle n => natArr [3, n]
    pure (Json.mkObj [("events", Json.arr (evs.map evJ).toArray), ("discipline", Json.bool (VisitProto.replay [] evs == some []))])
  | _ => throw s!"unknown op {op}"

partial def loop (h : IO.FS.Stream) (out : IO.FS.Stream) : IO Unit := do
  let line ← h.getLine
  if line.isEmpty then return ()
  let r := match Json.parse line with
    | .error e => Json.mkObj [("error", Json.str s!"json: {e}")]
    | .ok j => match handle j with
      | .ok r => r
      | .error e => Json.mkObj [("error", Json.str e)]
  out.putStrLn r.compress
  loop h out

end Driver

def main : IO Unit := do
  let out ← IO.getStdout
  Driver.loop (← IO.getStdin) out
  out.flush
