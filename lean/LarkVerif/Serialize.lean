namespace SerProto

/-- the Python values `Serialize` moves around (a dict is its key list and its value list) -/
inductive PV where
  | none
  | int (n : Int)
  | str (s : String)
  | list (l : List PV)
  | dict (ks : List String) (vs : List PV)
  | fset (l : List PV)        -- a frozenset, as the list of its elements in iteration order

/-- lark/utils.py:350 `_serialize` on plain data: frozensets become lists ("TODO reversible?") -/
def ser : PV → PV
  | .none => .none
  | .int n => .int n
  | .str s => .str s
  | .list l => .list (l.map ser)
  | .dict ks vs => .dict ks (vs.map ser)
  | .fset l => .list l          -- `list(value)`: the elements (strings in lark) are not recursed into

/-- lark/utils.py:37 `_deserialize` on plain data (no `__type__`, no `@`): structure-preserving -/
def deser : PV → PV
  | .none => .none
  | .int n => .int n
  | .str s => .str s
  | .list l => .list (l.map deser)
  | .dict ks vs => .dict ks (vs.map deser)
  | .fset l => .fset l

/-- values that contain no frozenset anywhere -/
inductive NoFset : PV → Prop
  | none : NoFset .none
  | int (n) : NoFset (.int n)
  | str (s) : NoFset (.str s)
  | list (l) : (∀ x ∈ l, NoFset x) → NoFset (.list l)
  | dict (ks vs) : (∀ x ∈ vs, NoFset x) → NoFset (.dict ks vs)

theorem map_id_of_forall {α} (f : α → α) (l : List α) (h : ∀ x ∈ l, f x = x) : l.map f = l := by
  induction l with
  | nil => rfl
  | cons a l ih => simp [h a (List.mem_cons_self ..), ih (fun x hx => h x (List.mem_cons_of_mem _ hx))]

/-- the round trip is the identity away from frozensets -/
theorem roundtrip_of_noFset {v : PV} (h : NoFset v) : deser (ser v) = v := by
  induction h with
  | none => simp [ser, deser]
  | int n => simp [ser, deser]
  | str s => simp [ser, deser]
  | list l _ ih =>
    simp only [ser, deser, List.map_map]
    congr 1
    exact map_id_of_forall _ l (fun x hx => ih x hx)
  | dict ks vs _ ih =>
    simp only [ser, deser, List.map_map]
    congr 1
    exact map_id_of_forall _ vs (fun x hx => ih x hx)

/-- and it is *not* the identity on a frozenset: `Pattern.flags` comes back as a list (F3) -/
theorem roundtrip_fset (l : List PV) : deser (ser (.fset l)) = .list (l.map deser) ∧ deser (ser (.fset l)) ≠ .fset l := by
  constructor
  · simp [ser, deser]
  · simp [ser, deser]

/-- the repair: a per-class hook that re-wraps the listed field -/
def restoreFlags : PV → PV
  | .list l => .fset l
  | v => v

theorem roundtrip_flags_fixed (flags : List String) :
    restoreFlags (deser (ser (.fset (flags.map .str)))) = .fset (flags.map .str) := by
  simp only [ser, deser, restoreFlags, List.map_map]
  congr 1
  apply List.map_congr_left
  intro s _
  simp [deser]

/-- why the type matters downstream: `flags <= flags` is subset on frozensets but lexicographic on lists
    (lexer.py:384) — the concrete pair from F3: {"i"} is not a subset of {"s"}, yet ["i"] <= ["s"] -/
example : ¬ ((["i"] : List String) ⊆ ["s"]) := by simp
example : decide ((["i"] : List String) ≤ ["s"]) = true := by decide

end SerProto
