/-! # A Lark instance across calls (`lark/lexer.py BasicLexer.scanner / search_scanner / callback`, `PatternRE._width`, `TreeMatcher._parser_cache`)

Everything a call on a constructed instance may leave behind is a *lazily initialised field*: `None` until first needed, then a value computed from
the instance's immutable configuration alone.  (Which fields those are is read from the source on every run: `Extracted.stateInventory`, see
`Props.C10.instance_state_is_the_modelled_lazy_fields`.)  The model: an instance is its configuration plus one optional slot per lazy field; a call
forces the fields it needs, in some order, and computes its result from the configuration, its argument and the forced values; a call may also abort
(raise, or be an abandoned generator) after forcing only some of its fields.

Theorem `history_independent`: after *any* history of completed and aborted calls from a fresh instance, every call returns what the same call
returns on a fresh instance. -/
namespace InstProto

structure Inst (Cfg Val : Type) where
  cfg : Cfg
  slots : List (Option Val)

variable {Cfg Val Arg Out : Type}

/-- the description of an instance's class: how each lazy field is computed, which fields a call needs (in order), and the call's result -/
structure Class (Cfg Val Arg Out : Type) where
  nslots : Nat
  init : Nat → Cfg → Val                      -- field i := init i cfg
  needs : Arg → List Nat                      -- fields read by the call, in order
  result : Cfg → Arg → List Val → Out

def fresh (C : Class Cfg Val Arg Out) (cfg : Cfg) : Inst Cfg Val := ⟨cfg, List.replicate C.nslots none⟩

/-- `if self._x is None: self._x = build(); return self._x` -/
def force (C : Class Cfg Val Arg Out) (I : Inst Cfg Val) (i : Nat) : Inst Cfg Val × Val :=
  match I.slots[i]? with
  | some (some v) => (I, v)
  | _ => (⟨I.cfg, I.slots.set i (some (C.init i I.cfg))⟩, C.init i I.cfg)

def forceAll (C : Class Cfg Val Arg Out) : Inst Cfg Val → List Nat → Inst Cfg Val × List Val
  | I, [] => (I, [])
  | I, i :: is =>
    let r := force C I i
    let rs := forceAll C r.1 is
    (rs.1, r.2 :: rs.2)

inductive Op (Arg : Type) where
  | call (a : Arg)                 -- a call that returns
  | abort (a : Arg) (k : Nat)      -- a call that raises / a generator abandoned after forcing its first k fields

def step (C : Class Cfg Val Arg Out) (I : Inst Cfg Val) : Op Arg → Inst Cfg Val × Option Out
  | .call a => let r := forceAll C I (C.needs a); (r.1, some (C.result I.cfg a r.2))
  | .abort a k => ((forceAll C I ((C.needs a).take k)).1, none)

/-- every filled slot holds the value computed from the configuration -/
def Inv (C : Class Cfg Val Arg Out) (I : Inst Cfg Val) : Prop := ∀ i v, I.slots[i]? = some (some v) → v = C.init i I.cfg

theorem fresh_inv (C : Class Cfg Val Arg Out) (cfg : Cfg) : Inv C (fresh C cfg) := by
  intro i v h
  simp only [fresh, List.getElem?_replicate] at h
  split at h <;> cases h

theorem force_spec (C : Class Cfg Val Arg Out) (I : Inst Cfg Val) (i : Nat) (h : Inv C I) :
    Inv C (force C I i).1 ∧ (force C I i).1.cfg = I.cfg ∧ (force C I i).2 = C.init i I.cfg := by
  unfold force
  split
  · rename_i v hv; exact ⟨h, rfl, h i v hv⟩
  · refine ⟨?_, rfl, rfl⟩
    intro j v hj
    simp only at hj
    by_cases hij : i = j
    · subst hij
      by_cases hlt : i < I.slots.length
      · rw [List.getElem?_set_self hlt] at hj; cases hj; rfl
      · rw [List.getElem?_eq_none (by simp; omega)] at hj; cases hj
    · rw [List.getElem?_set_ne hij] at hj; exact h j v hj

theorem forceAll_spec (C : Class Cfg Val Arg Out) (is : List Nat) : ∀ (I : Inst Cfg Val), Inv C I →
    Inv C (forceAll C I is).1 ∧ (forceAll C I is).1.cfg = I.cfg ∧ (forceAll C I is).2 = is.map (fun i => C.init i I.cfg) := by
  induction is with
  | nil => intro I h; exact ⟨h, rfl, rfl⟩
  | cons i is ih =>
    intro I h
    obtain ⟨h1, h2, h3⟩ := force_spec C I i h
    obtain ⟨g1, g2, g3⟩ := ih (force C I i).1 h1
    refine ⟨g1, by simp only [forceAll]; rw [g2, h2], ?_⟩
    simp only [forceAll, List.map_cons]
    rw [g3, h3, h2]

/-- what the call returns on a fresh instance of the same configuration -/
def pureOut (C : Class Cfg Val Arg Out) (cfg : Cfg) : Op Arg → Option Out
  | .call a => some (C.result cfg a ((C.needs a).map (fun i => C.init i cfg)))
  | .abort _ _ => none

theorem step_spec (C : Class Cfg Val Arg Out) (I : Inst Cfg Val) (op : Op Arg) (h : Inv C I) :
    Inv C (step C I op).1 ∧ (step C I op).1.cfg = I.cfg ∧ (step C I op).2 = pureOut C I.cfg op := by
  cases op with
  | call a =>
    obtain ⟨h1, h2, h3⟩ := forceAll_spec C (C.needs a) I h
    exact ⟨h1, h2, by simp only [step, pureOut]; rw [h3]⟩
  | abort a k =>
    obtain ⟨h1, h2, _⟩ := forceAll_spec C ((C.needs a).take k) I h
    exact ⟨h1, h2, rfl⟩

def run (C : Class Cfg Val Arg Out) : Inst Cfg Val → List (Op Arg) → List (Option Out)
  | _, [] => []
  | I, op :: ops => let r := step C I op; r.2 :: run C r.1 ops

theorem run_spec (C : Class Cfg Val Arg Out) (ops : List (Op Arg)) : ∀ (I : Inst Cfg Val), Inv C I →
    run C I ops = ops.map (pureOut C I.cfg) := by
  induction ops with
  | nil => intro I _; rfl
  | cons op ops ih =>
    intro I h
    obtain ⟨h1, h2, h3⟩ := step_spec C I op h
    simp only [run, List.map_cons]
    rw [h3, ih _ h1, h2]

/-- **History independence.** Whatever completed, failed or abandoned calls came before, every call on the instance returns exactly what it returns on a
    fresh instance of the same configuration. -/
theorem history_independent (C : Class Cfg Val Arg Out) (cfg : Cfg) (ops : List (Op Arg)) :
    run C (fresh C cfg) ops = ops.map (pureOut C cfg) := run_spec C ops (fresh C cfg) (fresh_inv C cfg)

/-- in particular the same call twice, with anything in between, gives the same result -/
theorem same_call_same_result (C : Class Cfg Val Arg Out) (cfg : Cfg) (before between : List (Op Arg)) (a : Arg) :
    (run C (fresh C cfg) (before ++ [Op.call a] ++ between ++ [Op.call a])).getLast? =
    (run C (fresh C cfg) (before ++ [Op.call a])).getLast? := by
  rw [history_independent, history_independent]
  have h1 : (before ++ [Op.call a] ++ between ++ [Op.call a]).map (pureOut C cfg) = ((before ++ [Op.call a] ++ between).map (pureOut C cfg)) ++ [pureOut C cfg (Op.call a)] := by simp
  have h2 : (before ++ [Op.call a]).map (pureOut C cfg) = (before.map (pureOut C cfg)) ++ [pureOut C cfg (Op.call a)] := by simp
  rw [h1, h2, List.getLast?_append, List.getLast?_append]
  simp

/-- non-vacuity: a lexer-like class with a scanner slot and a search-scanner slot; `parse` needs the first, `scan` both -/
def exClass : Class Nat Nat Bool Nat :=
  { nslots := 2, init := fun i cfg => cfg + i, needs := fun a => if a then [0] else [1, 0], result := fun cfg _ vs => cfg + vs.sum }
example : run exClass (fresh exClass 5) [Op.call true, Op.abort false 1, Op.call false, Op.call true] = [some 10, none, some 16, some 10] := by decide

end InstProto
