import LarkVerif.Mangle
import LarkVerif.Prune
/-! # C17 — imports mean what textual inlining means (renaming core) -/
namespace Props.C17
open EarleyProto

/-- **An injective renaming of the nonterminals preserves the language**: `S` derives `u` in `G` iff the renamed start symbol derives `u` in the
    renamed grammar. This is what makes `module__name` mangling semantically invisible. -/
theorem renaming_preserves_language (G : Grammar) (f : Nat → Nat) (hf : ∀ a b, f a = f b → a = b) (S : Nat) (u : List Nat) :
    DerivesSeq G [Sym.nt S] u ↔ DerivesSeq (Grammar.rename f G) [Sym.nt (f S)] u := (rename_language G f hf S u).symm

/-- **`mangle` is injective** on the names that are not explicitly aliased (module prefix not starting with an underscore) … -/
theorem mangle_is_injective (pre : MangleProto.Name) (aliases : List (MangleProto.Name × MangleProto.Name)) (hpre : pre.head? ≠ some '_') (hne : pre ≠ [])
    (s t : MangleProto.Name) (hs : aliases.lookup s = none) (ht : aliases.lookup t = none)
    (h : MangleProto.mangle pre aliases s = MangleProto.mangle pre aliases t) : s = t :=
  MangleProto.mangle_injective pre aliases hpre hne s t hs ht h

/-- … keeps inlined rules inlined and visible rules visible (so shaping is unchanged) … -/
theorem mangle_preserves_inlining (pre : MangleProto.Name) (aliases : List (MangleProto.Name × MangleProto.Name)) (hpre : pre.head? ≠ some '_') (hne : pre ≠ [])
    (s : MangleProto.Name) (hs : aliases.lookup s = none) :
    ((MangleProto.mangle pre aliases s).head? = some '_') ↔ (s.head? = some '_') := MangleProto.mangle_keeps_underscore pre aliases hpre hne s hs

/-- … and sends an explicitly imported (possibly renamed) name exactly to its alias. -/
theorem imported_name_is_alias (pre : MangleProto.Name) (aliases : List (MangleProto.Name × MangleProto.Name)) (s a : MangleProto.Name)
    (h : aliases.lookup s = some a) : MangleProto.mangle pre aliases s = a := MangleProto.mangle_alias pre aliases s a h

example : MangleProto.mangle "m".toList [("x".toList, "y".toList)] "_h".toList = "_m__h".toList := by decide
example : MangleProto.mangle "m".toList [("x".toList, "y".toList)] "x".toList = "y".toList := by decide

/-- **Dropping unused definitions does not change the language.**  For any way of choosing the kept rules that is *closed* from the start symbols (every rule
    of a start symbol is kept, and every rule of a nonterminal that a kept rule mentions is kept) — which is what `_remove_unused` after an import and the
    "filter out unused rules" loop of `Grammar.compile` produce, and what `PruneProto.closedB` checks on lark's compiled rule sets on every run — each start
    symbol derives exactly the same token strings before and after. -/
theorem prune_unused_preserves_language (G : EarleyProto.Grammar) (keep : EarleyProto.Rule → Bool) (roots : List Nat) (h : PruneProto.closedB G keep roots = true)
    (A : Nat) (hA : A ∈ roots) (w : List Nat) :
    EarleyProto.DerivesSeq (PruneProto.pruned G keep) [EarleyProto.Sym.nt A] w ↔ EarleyProto.DerivesSeq G [EarleyProto.Sym.nt A] w :=
  PruneProto.prune_preserves_language G keep roots (PruneProto.closedB_sound G keep roots h) A hA w

end Props.C17
