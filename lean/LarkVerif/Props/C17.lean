import LarkVerif.Mangle
/-! # C17 — imports mean what textual inlining means (renaming core) -/
namespace Props.C17
open EarleyProto

/-- **An injective renaming of the nonterminals preserves the language**: `S` derives `u` in `G` iff the renamed start symbol derives `u` in the
    renamed grammar. This is what makes `module__name` mangling semantically invisible. -/
theorem renaming_preserves_language (G : Grammar) (f : Nat → Nat) (hf : ∀ a b, f a = f b → a = b) (S : Nat) (u : List Nat) :
    DerivesSeq G [Sym.nt S] u ↔ DerivesSeq (Grammar.rename f G) [Sym.nt (f S)] u := (rename_language G f hf S u).symm

/-- **`mangle` is injective** on the names that are not explicitly aliased (module prefix not starting with an underscore) … -/
theorem mangle_is_injective (pre : MangleProto.Name) (aliases : List (MangleProto.Name × MangleProto.Name)) (hpre : pre.head? ≠ some '_') (hne : pre ≠ [])
    (s t : MangleProto.Name) (hs : aliases.lookup s = none) (ht : aliases.lookup t = none)
    (h : MangleProto.mangle pre aliases s = MangleProto.mangle pre aliases t) : s = t :=
  MangleProto.mangle_injective pre aliases hpre hne s t hs ht h

/-- … keeps inlined rules inlined and visible rules visible (so shaping is unchanged) … -/
theorem mangle_preserves_inlining (pre : MangleProto.Name) (aliases : List (MangleProto.Name × MangleProto.Name)) (hpre : pre.head? ≠ some '_') (hne : pre ≠ [])
    (s : MangleProto.Name) (hs : aliases.lookup s = none) :
    ((MangleProto.mangle pre aliases s).head? = some '_') ↔ (s.head? = some '_') := MangleProto.mangle_keeps_underscore pre aliases hpre hne s hs

/-- … and sends an explicitly imported (possibly renamed) name exactly to its alias. -/
theorem imported_name_is_alias (pre : MangleProto.Name) (aliases : List (MangleProto.Name × MangleProto.Name)) (s a : MangleProto.Name)
    (h : aliases.lookup s = some a) : MangleProto.mangle pre aliases s = a := MangleProto.mangle_alias pre aliases s a h

example : MangleProto.mangle "m".toList [("x".toList, "y".toList)] "_h".toList = "_m__h".toList := by decide
example : MangleProto.mangle "m".toList [("x".toList, "y".toList)] "x".toList = "y".toList := by decide

end Props.C17
