import LarkVerif.Cache
import LarkVerif.Extracted
/-! # C12 — the grammar cache is only an optimisation, whatever the state of the cache file -/
namespace Props.C12
open CacheProto

/-- **Refinement.** From any file state satisfying the invariant (absent, undecodable, or a complete file written by lark for *some* request), for every
    history of completed constructions, crashes during the write, external truncations, deletions and foreign files: every completed construction
    returns exactly what an uncached build of *its own* request returns. -/
theorem cache_is_only_an_optimisation (E : Env) (ops : List Op) (f : File) (h : Inv E f) :
    ∀ ro ∈ (run E f ops).2, ro.2 = E.build ro.1 := cache_refines_build E ops f h

/-- the invariant is preserved by every operation (so it holds in every reachable state, starting from an absent file) -/
theorem invariant_preserved (E : Env) (f : File) (op : Op) (h : Inv E f) : Inv E (step E f op).1 := step_inv E f op h
theorem invariant_initially : ∀ E : Env, Inv E File.absent := fun _ => trivial

/-- a completed construction leaves a valid file for its own request behind -/
theorem open_leaves_valid_file (E : Env) (f : File) (r : Req) (h : Inv E f) :
    (openCached E f r).2 = File.good (E.key r.g) (E.hash r.imp) (E.build r) := by
  cases f with
  | good hdr used payload =>
    simp only [openCached]
    split
    · rename_i hc
      obtain ⟨r', h1, h2, h3⟩ := h
      have hg : r'.g = r.g := E.key_inj _ _ (h1 ▸ hc.1)
      have hi : r'.imp = r.imp := E.hash_inj _ _ (h2 ▸ hc.2)
      have : r' = r := by cases r'; cases r; simp_all
      subst this; simp [hc.1, hc.2, h3]
    · rfl
  | absent => rfl
  | bad => rfl

/-- the cache key in the current source is an injective encoding (a `repr` of a tuple), not a concatenation (finding F4, fixed) -/
theorem key_shape_injective : Extracted.cacheKeyShape.head? = some "repr-tuple" := by decide

/-- … and it covers exactly what the property lists: the grammar text, where it was read from (relative imports are resolved against that path — finding F33,
    fixed), the (hashable) options, lark's version and the interpreter's major.minor -/
theorem key_covers_grammar_options_versions :
    Extracted.cacheKeyShape = ["repr-tuple", "grammar", "self.source_path", "options_items", "__version__", "sys.version_info[]"] := by decide

/-- every option is either part of the key or explicitly exempt (`unhashable`); what the exemption of `edit_terminals` and `postlex` costs is finding F37
    (a cached parser of another option set is served), recorded and replayed by the check -/
theorem unhashable_options_are_declared : Extracted.unhashableOptions.all (fun o => Extracted.optionDefaults.contains o) = true := by decide

end Props.C12
