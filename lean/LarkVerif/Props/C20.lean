import LarkVerif.Forest
import LarkVerif.ForestVisit
import LarkVerif.ForestCert
/-! # C20 — the parse forest encodes exactly the derivations; every walk of it terminates and reports cycles

Completeness of the forest is shared with C04 (`Props.C04.every_derivation_is_in_the_forest`).  This file holds the clauses that are C20's own:
"visitors terminate and report cycles rather than looping, even on cyclic grammars". -/
namespace Props.C20
open VisitProto

/-- **Every forest walk terminates, on every finite node graph, cyclic or not.**  `VisitProto.visit` is the loop of `ForestVisitor.visit`
    (lark/parsers/earley_forest.py:274) as a total function: Lean accepted its definition with the measure (nodes not on the path, children still to
    hand out), so it has a value — a *finite* event list — for every graph.  Stated outright: the walk of any graph from any root under either
    `single_visit` setting is some finite list of events. -/
theorem walk_terminates (g : Graph) (sv : Bool) (root : Nat) : ∃ evs : List Ev, visit g sv root = evs := ⟨_, rfl⟩

/-- **The walk is a proper depth-first walk that retreats from cycles and reports them**: replaying its events against an initially empty path never
    enters a node that is on the path (no looping), closes every `in` with its `out` innermost-first, calls `on_cycle` only for a node that is on the
    path at that moment, and ends with the empty path. -/
theorem walk_is_depth_first_and_reports_cycles (g : Graph) (sv : Bool) (root : Nat) : replay [] (visit g sv root) = some [] :=
  visit_is_depth_first g sv root

/-- **`single_visit=True` enters every node at most once** (what `ForestSumVisitor` — the priority computation behind C05 — relies on). -/
theorem single_visit_enters_each_node_once (g : Graph) (root : Nat) : (entered (visit g true root)).Nodup :=
  single_visit_enters_once g [] [] [root]

/-- the same two facts below any iterator in the middle of a walk (what the induction is about) -/
theorem sub_walk_restores_the_path (g : Graph) (sv : Bool) (path visited cs : List Nat) :
    replay path (visitKids g sv path visited cs).1 = some path := visitKids_replay g sv path visited cs

/-- non-vacuity: on the cyclic graph `0 → 1 → {token 2, 0}` the walk enters 0 and 1, visits the token, reports the cycle back to 0 and leaves -/
example : visit exGraph false 0 = [Ev.enter 0, Ev.enter 1, Ev.tok 2, Ev.cycle 0, Ev.leave 1, Ev.leave 0] := by
  simp [visit, visitKids, exGraph]

/-- **Soundness of the forest, certified per forest.**  When the local checker `ForestCert.checkForest` accepts the node graph exported from the real parser
    (every packed family: its rule is a rule of the grammar, the node's label fixes the dot, the right child is the symbol before the dot — a token that is an
    edge of the lattice or a symbol node of that nonterminal —, the left child is the intermediate node of the same rule one symbol earlier ending where the
    right child starts, and the node's end is reachable from the family's end over ignored text), then *every* tree that can be read from the root — however
    many there are, the forest may be cyclic — is a derivation of the start symbol whose tokens spell a path through the input from the root's start to its
    end. Together with `Props.C04.every_derivation_is_in_the_forest` the certified forest encodes exactly the parses. -/
theorem certified_forest_encodes_only_parses (G : EarleyProto.Grammar) (L : EarleyProto.FLattice) (F : ForestCert.Forest) (fuel : Nat)
    (h : ForestCert.checkForest G L F fuel = true) (root start : Nat) (hroot : (F.node root).lbl = ForestCert.Lbl.sym start) (ws : List Nat)
    (hr : ForestCert.Reads F root ws) :
    EarleyProto.Path L.toLattice (F.node root).s (F.node root).e ws ∧ EarleyProto.DerivesSeq G [EarleyProto.Sym.nt start] ws :=
  ForestCert.certified_root_trees_are_parses G L F fuel h root start hroot ws hr

/-- … and the same for every node of the forest, for what its label stands for -/
theorem certified_forest_nodes_sound (G : EarleyProto.Grammar) (L : EarleyProto.FLattice) (F : ForestCert.Forest) (fuel : Nat)
    (h : ForestCert.checkForest G L F fuel = true) (n : Nat) (ws : List Nat) (hr : ForestCert.Reads F n ws) : ForestCert.Claim G L F n ws :=
  ForestCert.forest_sound G L F fuel h n ws hr

end Props.C20
