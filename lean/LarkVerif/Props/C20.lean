import LarkVerif.Forest
import LarkVerif.ForestVisit
/-! # C20 — the parse forest encodes exactly the derivations; every walk of it terminates and reports cycles

Completeness of the forest is shared with C04 (`Props.C04.every_derivation_is_in_the_forest`).  This file holds the clauses that are C20's own:
"visitors terminate and report cycles rather than looping, even on cyclic grammars". -/
namespace Props.C20
open VisitProto

/-- **Every forest walk terminates, on every finite node graph, cyclic or not.**  `VisitProto.visit` is the loop of `ForestVisitor.visit`
    (lark/parsers/earley_forest.py:274) as a total function: Lean accepted its definition with the measure (nodes not on the path, children still to
    hand out), so it has a value — a *finite* event list — for every graph.  Stated outright: the walk of any graph from any root under either
    `single_visit` setting is some finite list of events. -/
theorem walk_terminates (g : Graph) (sv : Bool) (root : Nat) : ∃ evs : List Ev, visit g sv root = evs := ⟨_, rfl⟩

/-- **The walk is a proper depth-first walk that retreats from cycles and reports them**: replaying its events against an initially empty path never
    enters a node that is on the path (no looping), closes every `in` with its `out` innermost-first, calls `on_cycle` only for a node that is on the
    path at that moment, and ends with the empty path. -/
theorem walk_is_depth_first_and_reports_cycles (g : Graph) (sv : Bool) (root : Nat) : replay [] (visit g sv root) = some [] :=
  visit_is_depth_first g sv root

/-- **`single_visit=True` enters every node at most once** (what `ForestSumVisitor` — the priority computation behind C05 — relies on). -/
theorem single_visit_enters_each_node_once (g : Graph) (root : Nat) : (entered (visit g true root)).Nodup :=
  single_visit_enters_once g [] [] [root]

/-- the same two facts below any iterator in the middle of a walk (what the induction is about) -/
theorem sub_walk_restores_the_path (g : Graph) (sv : Bool) (path visited cs : List Nat) :
    replay path (visitKids g sv path visited cs).1 = some path := visitKids_replay g sv path visited cs

/-- non-vacuity: on the cyclic graph `0 → 1 → {token 2, 0}` the walk enters 0 and 1, visits the token, reports the cycle back to 0 and leaves -/
example : visit exGraph false 0 = [Ev.enter 0, Ev.enter 1, Ev.tok 2, Ev.cycle 0, Ev.leave 1, Ev.leave 0] := by
  simp [visit, visitKids, exGraph]

end Props.C20
