import LarkVerif.Scan
/-! # C14 — scan() yields leftmost-longest non-overlapping matches -/
namespace Props.C14
open ScanProto

/-- matches come in increasing order, are non-empty and do not overlap -/
theorem ordered_disjoint (O : Oracles) (fuel pos : Nat) : Chain pos (scan O fuel pos) := scan_chain O fuel pos

/-- each match is the longest token prefix the parser completes from its start -/
theorem each_match_longest (O : Oracles) (fuel pos : Nat) (r : Nat × Nat) (h : r ∈ scan O fuel pos) : O.attempt r.1 = some r.2 :=
  scan_longest O fuel pos r h

/-- no position skipped between matches starts a snippet the parser completes (relative to the tokenisation of the text: finding F9) -/
theorem no_miss (O : Oracles) (fuel pos : Nat) (hf : O.n - pos < fuel) (x : Nat) (h1 : pos ≤ x) (h2 : x < O.n)
    (hnc : ¬ covered (scan O fuel pos) x) : O.attempt x = none := scan_no_miss O fuel pos hf x h1 h2 hnc

/-- the function the driver runs on the real lexer's/parser's tables is the verified loop -/
theorem driver_runs_verified_loop (O : Oracles) (fuel pos : Nat) : scan O fuel pos = scanRaw O.search O.attempt fuel pos :=
  scan_eq_raw O fuel pos

end Props.C14
