import LarkVerif.LRCheck
import LarkVerif.LRComplete
import LarkVerif.FirstSets
import LarkVerif.LALRTable
import LarkVerif.LRClosedCheck
import LarkVerif.LR0
/-! # C02 — LALR(1): conflicts reported, accepted language sound and (conflict-free) exact -/
namespace Props.C02
open EarleyProto LRProto

/-- **Soundness, for every input, of any table that passes the executable certificate** — in particular of lark's own table for each
    generated grammar, on which the compiled driver evaluates `checkSafe` (translation validation on top of the proof). -/
theorem accepted_is_sentence (G : Grammar) (F : FTable) (s0 eof fuel : Nat) (h : checkSafe G F s0 = true)
    (toks : List Nat) (v : Sym × List Nat) (hp : parse F.toTable eof fuel toks = Outcome.accept v) :
    DerivesSeq G [Sym.nt s0] toks :=
  checked_table_sound G F s0 eof fuel h toks v hp

/-- soundness for any table satisfying the local certificate `TableSafe` (lookahead sets play no role: any over-approximation is sound) -/
theorem driver_sound {G : Grammar} {T : Table} {s0 : Nat} (hT : TableSafe G T s0) (eof fuel : Nat)
    (toks : List Nat) (v : Sym × List Nat) (hp : parse T eof fuel toks = Outcome.accept v) : DerivesSeq G [Sym.nt s0] toks :=
  (parse_sound hT eof fuel toks v hp).2

/-- **Completeness** for any table that is closed under the LALR conditions (closure with FIRST, goto, reduce on every lookahead — i.e. a
    table without shift/reduce or priority-resolved conflicts): every sentence is accepted, for all sufficiently large fuel. -/
theorem driver_complete {G : Grammar} {T : Table} {s0 eof : Nat} {la} (hC : TableClosed G T s0 eof la)
    (toks : List Nat) (h : DerivesSeq G [Sym.nt s0] toks) :
    ∃ F0, ∀ F, F0 < F → ∃ v, parse T eof F toks = Outcome.accept v :=
  parse_complete hC toks h

/-- **Completeness, for every sentence, of any table that passes the executable completeness certificate** `checkClosed` (closure with computed
    NULLABLE/FIRST, goto, reduce-on-every-lookahead, start, accept, over an item-lookahead annotation) — evaluated by the compiled driver on lark's
    *own* table for each generated conflict-free grammar. -/
theorem certified_table_accepts_every_sentence (G : Grammar) (F : FTable) (T : FN) (A : Ann) (s0 eof : Nat)
    (h : checkClosed G F T A s0 eof = true) (toks : List Nat) (hd : DerivesSeq G [Sym.nt s0] toks) :
    ∃ F0, ∀ fuel, F0 < fuel → ∃ v, parse F.toTable eof fuel toks = Outcome.accept v :=
  checked_table_complete G F T A s0 eof h toks hd

/-- **Conflict reporting** (decision logic of `compute_lalr1_states`): construction fails exactly when some state has a lookahead with two or more
    candidate rules none of which has strictly greatest priority. -/
theorem error_iff_unresolved_conflict (rows : List LALRTable.RowIn) :
    LALRTable.build rows = none ↔
      ∃ r ∈ rows, ∃ la cands, (la, cands) ∈ r.las ∧ cands.length > 1 ∧ LALRTable.winner cands = none :=
  LALRTable.build_error_iff rows

theorem no_winner_iff (cands : List LALRTable.Cand) :
    LALRTable.winner cands = none ↔ ∀ c ∈ cands, ∃ c' ∈ cands, c'.2 ≠ c.2 ∧ c.1 ≤ c'.1 := LALRTable.winner_none_iff cands

/-- shift/reduce conflicts are resolved as shift -/
theorem shift_wins (r : LALRTable.RowIn) (la : Nat) (a : LALRTable.Act) (h : (la, a) ∈ LALRTable.reduceEntries r) :
    ¬ ∃ q, (la, q) ∈ r.shifts := LALRTable.shift_wins r la a h

/-- the priority winner does not depend on the iteration order of the rule set (hash order) -/
theorem winner_order_independent {cands : List LALRTable.Cand} (hnd : (cands.map (·.2)).Nodup) {c d : LALRTable.Cand}
    (hc : c ∈ cands ∧ ∀ c' ∈ cands, c'.2 = c.2 ∨ c'.1 < c.1) (hd : d ∈ cands ∧ ∀ c' ∈ cands, c'.2 = d.2 ∨ c'.1 < d.1) : c = d :=
  LALRTable.winner_unique hnd hc hd

/-- **States are LR(0) closures.** The executable closure (a saturation fixpoint mirroring `compute_lr0_states`' BFS over `expand_rule`) holds exactly the
    items the inductive LR(0) closure of the kernel holds — for every grammar and every kernel. -/
theorem state_is_closure_of_kernel (G : Grammar) (K : List LR0.It) (x : LR0.It) : x ∈ LR0.closure G K ↔ LR0.Closure G K x := LR0.mem_closure_iff G K x

/-- **lark's own automaton, certified per grammar.** When `LR0.checkLR0` evaluates to `true` on the item sets, kernels and transitions exported from lark's
    analyzer, every state is the LR(0) closure of its kernel, every transition leads to the state whose kernel is the source's items advanced over the
    symbol, and every symbol an item expects has a transition. -/
theorem checked_automaton_is_lr0 (G : Grammar) (A : LR0.Auto) (h : LR0.checkLR0 G A = true) :
    (∀ q, q < A.items.length → ∀ x, x ∈ A.itemsOf q ↔ LR0.Closure G (A.kernelOf q) x) ∧
    (∀ p X q, (p, X, q) ∈ A.trans → q < A.items.length ∧ ∀ x, x ∈ A.kernelOf q ↔ ∃ d, (x.1, d) ∈ A.itemsOf p ∧ x.1.rhs[d]? = some X ∧ x.2 = d + 1) ∧
    (∀ q, q < A.items.length → ∀ r d X, (r, d) ∈ A.itemsOf q → r.rhs[d]? = some X → ∃ q', (q, X, q') ∈ A.trans) := LR0.checkLR0_sound G A h

-- non-vacuity
example : LALRTable.winner [(2, 7), (1, 8)] = some (2, 7) := by decide
example : LALRTable.winner [(1, 7), (1, 8)] = none := by decide
example : LALRTable.build [⟨[(0, 1)], [(0, [(0, 3)]), (1, [(0, 3), (0, 4)])]⟩] = none := by decide

end Props.C02
