import LarkVerif.Recons
/-! # C19 — Reconstructor output re-parses to the same tree (composition + text assembly) -/
namespace Props.C19
open ReconsProto

/-- **Composition.** Sound + complete parser (C01/C02), unambiguous grammar, and a reconstructor that returns a derivation whose shape is the tree
    (what the tree matcher searches for): parsing the emitted token sequence returns exactly that tree. -/
theorem emitted_tokens_reparse_to_the_tree {Deriv Tree Text : Type} (yield : Deriv → Text) (shape : Deriv → Tree) (parse : Text → Option Deriv)
    (hsound : ∀ w d, parse w = some d → yield d = w) (hcomplete : ∀ d, ∃ d2, parse (yield d) = some d2)
    (hunamb : ∀ d1 d2, yield d1 = yield d2 → d1 = d2)
    (recons : Tree → Option Deriv) (hrec : ∀ t d, recons t = some d → shape d = t) :
    ∀ t d, recons t = some d → (parse (yield d)).map shape = some t :=
  reconstruct_reparses yield shape parse hsound hcomplete hunamb recons hrec

/-- the text-assembly loop only inserts blanks: erasing them gives back the emitted tokens in order -/
theorem assembly_only_inserts_blanks (isId : Char → Bool) (items : List (List Char)) (h : ∀ it ∈ items, ' ' ∉ it) :
    (joinItems isId items).filter (· ≠ ' ') = items.flatten := join_erase isId items h

/-- identifier characters of two consecutive tokens are never glued together -/
theorem identifiers_are_separated (isId : Char → Bool) (prev item : List Char) (rest : List (List Char)) (a b : Char)
    (ha : prev.getLast? = some a) (hb : item.head? = some b) (hida : isId a = true) (hidb : isId b = true) :
    joinFrom isId prev (item :: rest) = ' ' :: (item ++ joinFrom isId item rest) := joinFrom_separates isId prev item rest a b ha hb hida hidb

example : joinItems (fun c => c.isAlphanum) ["if".toList, "x".toList, "(".toList, "1".toList, ")".toList] = "if x(1)".toList := by decide

end Props.C19
