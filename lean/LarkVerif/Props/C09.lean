import LarkVerif.Repeat
import LarkVerif.Extracted
/-! # C09 — repetition and optional operators match exactly the stated counts

Property theorems only.  The thresholds are the values extracted from `/repo/lark/load_grammar.py` on this
run; the side condition `2 < SMALL_FACTOR_THRESHOLD` (what `small_factors` asserts) is closed by `decide`, so
an edit of the constant re-checks it.  -/
namespace Props.C09
open Proto

theorem threshold_ok : 2 < Extracted.smallFactorThreshold := by decide

/-- `small_factors(n, SMALL_FACTOR_THRESHOLD)` re-multiplies to `n`, for every `n`. -/
theorem small_factors_exact (n : Nat) :
    evalFactors (smallFactors n Extracted.smallFactorThreshold) = n :=
  smallFactors_correct _ threshold_ok n

/-- `x ~ mn..mx`, rule side, for every `0 ≤ mn ≤ mx`: the tree of helper rules `_generate_repeats` builds with the
    thresholds of the current source matches exactly `mn` to `mx` occurrences of `x`. -/
theorem repeat_counts (mn mx : Nat) (hle : mn ≤ mx) (k : Nat) :
    (genTree Extracted.repeatBreakThreshold Extracted.smallFactorThreshold mn mx).counts k ↔ mn ≤ k ∧ k ≤ mx :=
  genTree_counts _ _ threshold_ok mn mx hle k

/-- `x ~ n` -/
theorem repeat_exact (n k : Nat) :
    (genTree Extracted.repeatBreakThreshold Extracted.smallFactorThreshold n n).counts k ↔ k = n := by
  rw [repeat_counts n n (Nat.le_refl n)]; omega

theorem plus_counts (k : Nat) : PlusCount k ↔ 1 ≤ k := plusCount_iff k
theorem star_counts (k : Nat) : starCount k := (starCount_iff k).mpr trivial
theorem opt_counts (k : Nat) : optCount k ↔ k ≤ 1 := optCount_iff k

-- non-vacuity: a large bound goes through the factored branch and yields a real tree
example : genTree 50 5 3 120 ≠ .naive 3 120 := by decide
example : (genTree 50 5 57 57).counts 57 := (genTree_counts 50 5 (by decide) 57 57 (by decide) 57).mpr ⟨by decide, by decide⟩

end Props.C09
