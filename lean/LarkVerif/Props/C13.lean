import LarkVerif.Heap
import LarkVerif.LRComplete
/-! # C13 — interactive parser: forks independent, resume equals parse -/
namespace Props.C13
open HeapProto ShapeProto

/-- **Frame.** The value a parser state denotes depends only on the list objects reachable from its value stack. -/
theorem denotation_frame (h h' : Heap) (f : Nat) (v : HV) (hag : ∀ r ∈ reach h f v, h r = h' r) : den h f v = den h' f v :=
  den_frame h h' f v hag

/-- **Forks are independent.** When one fork's reduction extends a child list in place (ChildFilterLALR's left-recursion optimisation), every
    value of a fork whose reachable objects do not include that list — what a deep copy establishes — keeps its denotation. -/
theorem fork_independent (h : Heap) (r : Ref) (extra : List HV) (f : Nat) (stackB : List HV)
    (hdisj : ∀ v ∈ stackB, r ∉ reach h f v) :
    ∀ v ∈ stackB, den (appendInPlace h r extra) f v = den h f v := fork_unaffected h r extra f stackB hdisj

/-- … and the fork that reduced obtains exactly the pure result `Tree(name, old_children ++ extra)`. -/
theorem in_place_adoption_is_pure (h : Heap) (r : Ref) (extra : List HV) (f name : Nat) (olds news : List Val)
    (hold : (h r).mapM (den h f) = some olds) (hnew : extra.mapM (den h f) = some news)
    (hsep : ∀ v ∈ h r ++ extra, r ∉ reach h f v) :
    den (appendInPlace h r extra) (f+1) (HV.tree name r) = some (Val.tree name (olds ++ news)) :=
  adopt_den h r extra f name olds news hold hnew hsep

/-- **Feeding tokens one by one and then `$END` is `parse`** (pure driver: a parser state is a value, so a copy is the same state). -/
theorem feed_then_eof_eq_parse (T : LRProto.Table) (eof fuel : Nat) (toks : List Nat) :
    LRProto.parse T eof fuel toks = LRProto.parseFrom T eof fuel ⟨[T.start], []⟩ toks := rfl

/-- resuming from the state reached after a prefix continues exactly like the parse of the whole sequence -/
theorem resume_eq_parse (T : LRProto.Table) (eof fuel : Nat) (cfg cfg' : LRProto.Config) (t : Nat) (rest : List Nat)
    (h : LRProto.reduceLoop T t false fuel cfg = LRProto.Outcome.shifted cfg') :
    LRProto.parseFrom T eof fuel cfg (t :: rest) = LRProto.parseFrom T eof fuel cfg' rest := by
  simp [LRProto.parseFrom, h]

-- non-vacuity: the aliased case really differs (a fork that still reaches the mutated list sees the change)
example : den (appendInPlace (fun _ => [HV.tok 0 0]) 0 [HV.tok 1 1]) 1 (HV.tree 7 0) = some (Val.tree 7 [Val.tok 0 0, Val.tok 1 1]) := by rfl
example : den (fun _ => [HV.tok 0 0]) 1 (HV.tree 7 0) = some (Val.tree 7 [Val.tok 0 0]) := by rfl

end Props.C13
