import LarkVerif.Heap
import LarkVerif.DeepCopy
import LarkVerif.LRComplete
import LarkVerif.LRError
/-! # C13 — interactive parser: forks independent, resume equals parse -/
namespace Props.C13
open HeapProto ShapeProto

/-- **Frame.** The value a parser state denotes depends only on the list objects reachable from its value stack. -/
theorem denotation_frame (h h' : Heap) (f : Nat) (v : HV) (hag : ∀ r ∈ reach h f v, h r = h' r) : den h f v = den h' f v :=
  den_frame h h' f v hag

/-- **Forks are independent.** When one fork's reduction extends a child list in place (ChildFilterLALR's left-recursion optimisation), every
    value of a fork whose reachable objects do not include that list — what a deep copy establishes — keeps its denotation. -/
theorem fork_independent (h : Heap) (r : Ref) (extra : List HV) (f : Nat) (stackB : List HV)
    (hdisj : ∀ v ∈ stackB, r ∉ reach h f v) :
    ∀ v ∈ stackB, den (appendInPlace h r extra) f v = den h f v := fork_unaffected h r extra f stackB hdisj

/-- … and the fork that reduced obtains exactly the pure result `Tree(name, old_children ++ extra)`. -/
theorem in_place_adoption_is_pure (h : Heap) (r : Ref) (extra : List HV) (f name : Nat) (olds news : List Val)
    (hold : (h r).mapM (den h f) = some olds) (hnew : extra.mapM (den h f) = some news)
    (hsep : ∀ v ∈ h r ++ extra, r ∉ reach h f v) :
    den (appendInPlace h r extra) (f+1) (HV.tree name r) = some (Val.tree name (olds ++ news)) :=
  adopt_den h r extra f name olds news hold hnew hsep

/-- **Feeding tokens one by one and then `$END` is `parse`** (pure driver: a parser state is a value, so a copy is the same state). -/
theorem feed_then_eof_eq_parse (T : LRProto.Table) (eof fuel : Nat) (toks : List Nat) :
    LRProto.parse T eof fuel toks = LRProto.parseFrom T eof fuel ⟨[T.start], []⟩ toks := rfl

/-- resuming from the state reached after a prefix continues exactly like the parse of the whole sequence -/
theorem resume_eq_parse (T : LRProto.Table) (eof fuel : Nat) (cfg cfg' : LRProto.Config) (t : Nat) (rest : List Nat)
    (h : LRProto.reduceLoop T t false fuel cfg = LRProto.Outcome.shifted cfg') :
    LRProto.parseFrom T eof fuel cfg (t :: rest) = LRProto.parseFrom T eof fuel cfg' rest := by
  simp [LRProto.parseFrom, h]

/-- **Error states.** The stacks `feed_token` leaves behind when it raises (`reductionsOn`: the reductions made before the error was noticed stay, the
    token is not consumed) still satisfy the driver invariant for the input consumed so far … -/
theorem error_state_is_a_parser_state {G : EarleyProto.Grammar} {T : LRProto.Table} {s0 : Nat} (hT : LRProto.TableSafe G T s0) (t : Nat) (isEnd : Bool)
    (fuel : Nat) (cfg : LRProto.Config) (consumed : List Nat) (h : LRProto.Inv G T cfg consumed) :
    LRProto.Inv G T (LRProto.reductionsOn T t isEnd fuel cfg) consumed :=
  LRProto.reductionsOn_inv hT t isEnd fuel cfg consumed h

/-- … they are exactly the state the verdict was reached in (no action for the token on `error`; the shift on top of them on success) … -/
theorem error_state_has_no_action (T : LRProto.Table) (t : Nat) (isEnd : Bool) (fuel : Nat) (cfg : LRProto.Config)
    (h : LRProto.reduceLoop T t isEnd fuel cfg = LRProto.Outcome.error) :
    ∃ q ss, (LRProto.reductionsOn T t isEnd fuel cfg).states = q :: ss ∧ T.action q t = none :=
  (LRProto.reduceLoop_vs_reductionsOn T t isEnd fuel cfg).1 h

/-- … and **resuming from an error state** (`resume_parse`, `on_error`, feeding further tokens) is as sound as a parse: what it accepts is a derivation
    of the consumed input followed by the remaining tokens, the offending token excluded. -/
theorem resume_from_error_state_sound {G : EarleyProto.Grammar} {T : LRProto.Table} {s0 : Nat} (hT : LRProto.TableSafe G T s0) (eof fuel fuel' t : Nat)
    (cfg : LRProto.Config) (consumed rest : List Nat) (v : EarleyProto.Sym × List Nat) (hinv : LRProto.Inv G T cfg consumed)
    (hacc : LRProto.parseFrom T eof fuel' (LRProto.reductionsOn T t false fuel cfg) rest = LRProto.Outcome.accept v) :
    v.2 = consumed ++ rest ∧ EarleyProto.DerivesSeq G [EarleyProto.Sym.nt s0] (consumed ++ rest) :=
  LRProto.resume_from_error_sound hT eof fuel fuel' t cfg consumed rest v hinv hacc

/-- **`accepts()` is exact.** Trial feeding (on copies) of the terminals in `choices()` yields exactly the terminals whose token can be fed. -/
theorem accepts_is_exact (T : LRProto.Table) (terms : List Nat) (eof fuel : Nat) (cfg : LRProto.Config) (t : Nat) (ht : t ∈ terms) :
    t ∈ LRProto.acceptsOf T terms eof fuel cfg ↔ LRProto.feedOK T eof fuel cfg t = true :=
  LRProto.accepts_exact T terms eof fuel cfg t ht

-- non-vacuity: the aliased case really differs (a fork that still reaches the mutated list sees the change)
example : den (appendInPlace (fun _ => [HV.tok 0 0]) 0 [HV.tok 1 1]) 1 (HV.tree 7 0) = some (Val.tree 7 [Val.tok 0 0, Val.tok 1 1]) := by rfl
example : den (fun _ => [HV.tok 0 0]) 1 (HV.tree 7 0) = some (Val.tree 7 [Val.tok 0 0]) := by rfl

/-- **What `copy()` establishes** (`ParserState.copy` deep-copies the value stack): for a finite value whose list objects all lie below the allocation
    pointer `nx`, the deep copy leaves every old object untouched, consists of fresh list objects only (addresses in `[nx, nx')`), and denotes the
    same pure value — the disjointness that `fork_independent` assumes. -/
theorem deepcopy_is_fresh_and_equal (f : Nat) (h : Heap) (nx : Ref) (v : HV) (hb : Below h f nx v) (hfin : Fin h f v) :
    Spec f h nx v (deepcopy f h nx v) := deepcopy_spec f h nx v hb hfin

/-- after `copy()`, an in-place append by the **original** (the LALR tree builder extends the child list of an inlined `_rule` in place) does not change
    what the fork denotes … -/
theorem fork_survives_mutation_of_original (f : Nat) (h : Heap) (nx : Ref) (v : HV) (hb : Below h f nx v) (hfin : Fin h f v)
    (r : Ref) (hr : r < nx) (extra : List HV) :
    den (appendInPlace (deepcopy f h nx v).1 r extra) f (deepcopy f h nx v).2.2 = den h f v :=
  copy_then_mutate_original f h nx v hb hfin r hr extra

/-- … and an in-place append by the **fork** does not change what the original denotes. -/
theorem original_survives_mutation_of_fork (f : Nat) (h : Heap) (nx : Ref) (v : HV) (hb : Below h f nx v) (hfin : Fin h f v)
    (r : Ref) (hr : nx ≤ r) (extra : List HV) :
    den (appendInPlace (deepcopy f h nx v).1 r extra) f v = den h f v :=
  copy_then_mutate_copy f h nx v hb hfin r hr extra

-- non-vacuity: Tree(0, [Tree(1, [tok])]) at addresses 0 and 1, copied to 2 and 3
example : (deepcopy 3 (fun r => if r = 0 then [HV.tree 1 1] else if r = 1 then [HV.tok 7 7] else []) 2 (HV.tree 0 0)).2 = (4, HV.tree 0 2) := by decide

end Props.C13
