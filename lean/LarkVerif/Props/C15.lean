import LarkVerif.Props.C06
/-! # C15 — str, bytes and TextSlice agree (coordinate half; token/tree equality is compared three-way by the harness) -/
namespace Props.C15
open LCProto

/-- a lexer started on the window `[start, …)` of a buffer begins with the buffer's coordinates of `start` -/
theorem window_begins_with_buffer_coordinates (buf : List Char) (start : Nat) (h : start ≤ buf.length) :
    Exact buf (LineCounter.fromStart buf start) ∧ (LineCounter.fromStart buf start).charPos = start := fromStart_exact buf start h

/-- … and every token it then stamps carries the buffer's offsets, lines and columns -/
theorem window_tokens_in_buffer_coordinates (buf : List Char) (s e : Nat) (flag : Bool) (h1 : s ≤ e) (h2 : e ≤ buf.length)
    (hflag : flag = true ∨ NL ∉ (buf.drop s).take (e - s)) : Props.C06.stampAt buf s e flag = Stamp.spec buf s e :=
  Props.C06.token_stamp_exact buf s e flag h1 h2 hflag

/-- resuming from a `(line, line_start_pos)` snapshot taken by an exact counter (`_TextSlice_WithLineCount`) is exact -/
theorem snapshot_resume_exact (buf : List Char) (lc : LineCounter) (h : Exact buf lc) :
    Exact buf ⟨lc.charPos, lc.line, lc.charPos - lc.lineStartPos + 1, lc.lineStartPos⟩ := resume_exact buf lc h

/-- shifting: the coordinates of offset `a + p` in `pre ++ w` (|pre| = a) are those of `p` in `w` moved by the newlines of `pre` -/
theorem coord_shift (pre w : List Char) (p : Nat) (hp : p ≤ w.length) :
    (coord (pre ++ w) (pre.length + p)).1 = (coord w p).1 + countNL pre := by
  simp only [coord]
  have : (pre ++ w).take (pre.length + p) = pre ++ w.take p := by
    rw [List.take_append]; simp [List.take_of_length_le]
  rw [this]; simp only [countNL, List.count_append]; omega

end Props.C15
