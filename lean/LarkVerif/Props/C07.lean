import LarkVerif.LexModel
import LarkVerif.LexTiling
import LarkVerif.LexEmit
import LarkVerif.LexCtxTiling
import LarkVerif.Extracted
/-! # C07 — the lexer tiles the input by documented precedence; contextual refines basic -/
namespace Props.C07
open LexProto LexModel

/-- the sort key in the current source is the documented one (re-checked against the source text on every run) -/
theorem sort_key_is_documented :
    Extracted.lexerSortKey = [("-", "x.priority"), ("-", "x.pattern.max_width"), ("-", "len(x.pattern.value)"), ("+", "x.name")] := by decide

/-- the scan order is a permutation of the terminals sorted by: higher priority, longer maximal width, longer pattern, name -/
theorem scan_order_sorted (L : Lexer) (subset : List Nat) :
    (L.sorted subset).Pairwise (fun i j => termLe (L.info i) (L.info j) = true) ∧ (L.sorted subset).Perm subset :=
  ⟨sorted_pairwise L subset, sorted_perm L subset⟩

/-- **Tiling.** The emitted and ignored pieces are consecutive, non-empty, each the *first* terminal in scan order that matches at its
    start (with that terminal's own match length), and they cover the text up to its end or up to the reported error position,
    where no terminal matches. -/
theorem lex_tiles (m : Matcher) (ts : List Nat) (n : Nat) (hpos : ∀ t p len, m t p = some len → 0 < len ∧ p + len ≤ n)
    (fuel pos : Nat) (h1 : pos ≤ n) (h2 : n - pos ≤ fuel) :
    ∃ stop, Tiles pos (lexAll m ts n fuel pos).1 stop ∧
      (∀ pc ∈ (lexAll m ts n fuel pos).1, firstMatch m pc.2.1 ts = some (pc.1, pc.2.2)) ∧
      ((lexAll m ts n fuel pos).2 = none → stop = n) ∧
      (∀ e, (lexAll m ts n fuel pos).2 = some e → stop = e ∧ e < n ∧ firstMatch m e ts = none) :=
  lexAll_tiles m ts n hpos fuel pos h1 h2

/-- **Tiling of the executable basic-lexer model** (sort, keyword carve-out, retyping, ignore skipping): all pieces — emitted and ignored — are
    consecutive and non-empty; each is the first terminal of the scan list that matches at its start, with its own length, reported under the
    keyword-exception type; the run ends at the end of the text or at the first position where nothing in the scan list matches. -/
theorem executable_lexer_tiles (L : Lexer) (F : Facts) (subset : List Nat) (n : Nat)
    (hpos : ∀ t p len, F.mt t p = some len → 0 < len ∧ p + len ≤ n) (fuel pos : Nat) (h1 : pos ≤ n) (h2 : n - pos ≤ fuel) :
    let r := L.lexAllPieces F subset n fuel pos
    Tiles' pos r.1 r.2.1 ∧
    (∀ pc ∈ r.1, ∃ t, firstMatch F.mt pc.2.1 (L.scanList (L.sorted subset)) = some (t, pc.2.2.1) ∧
                      pc.1 = L.retype F (L.sorted subset) t pc.2.1 pc.2.2.1 ∧ pc.2.2.2 = L.ignore.contains pc.1) ∧
    (r.2.2 = false → r.2.1 = n) ∧
    (r.2.2 = true → r.2.1 < n ∧ firstMatch F.mt r.2.1 (L.scanList (L.sorted subset)) = none) :=
  lexAllPieces_tiles L F subset n hpos fuel pos h1 h2

/-- **What the basic lexer returns is that tiling with the ignored pieces dropped.**  `lexBasic` (the loop of `BasicLexer.lex` over `next_token`, which
    skips `%ignore` matches silently) returns exactly the non-ignored pieces of the run of `executable_lexer_tiles`, in order, and ends in
    `UnexpectedCharacters` exactly where that run finds nothing to match — with the non-ignored scan terminals as `allowed`. -/
theorem basic_lexer_emits_the_tiling (L : Lexer) (F : Facts) (all : List Nat) (n : Nat)
    (hpos : ∀ t p len, F.mt t p = some len → 0 < len ∧ p + len ≤ n) (f1 pos f2 : Nat) (h1 : pos ≤ n) (h2 : n - pos ≤ f1) (h3 : n - pos ≤ f2) :
    L.lexBasic F all n f1 pos =
      (emitted (L.lexAllPieces F all n f2 pos).1,
       if (L.lexAllPieces F all n f2 pos).2.2 then some (.chars (L.lexAllPieces F all n f2 pos).2.1 (L.allowed all)) else none) :=
  lexBasic_eq_emitted L F all n hpos f1 pos f2 h1 h2 h3

/-- splitting the alternation into chunks (Python's 100-group limit) never changes the token -/
theorem chunking_irrelevant (m : Matcher) (pos : Nat) (a b : List Nat) :
    firstMatch m pos (a ++ b) = (firstMatch m pos a).or (firstMatch m pos b) := firstMatch_append m pos a b

/-- **Contextual refines basic.** Restricting the scan to the terminals the parser accepts (a sub-list in the same order) keeps the basic
    lexer's choice whenever that choice is acceptable. -/
theorem contextual_refines_basic {m : Matcher} {pos : Nat} {ts ts' : List Nat} (hsub : List.Sublist ts' ts) (hnd : ts.Nodup)
    {t len : Nat} (h : firstMatch m pos ts = some (t, len)) (hmem : t ∈ ts') : firstMatch m pos ts' = some (t, len) :=
  firstMatch_sublist hsub hnd h hmem

/-- **Tiling of the contextual lexer model** (`ContextualLexer.lex`: per emitted token one `next_token` of the sub-lexer of the parser's state).
    The run consumes a prefix `used` of the state sequence, one state per emitted token; the stretch of each token — the ignored pieces its
    sub-lexer skipped and the token itself — is consecutive and non-empty, and every piece is the first terminal *of that state's scan list*
    matching at its start, with keyword retyping (`PieceOf`: the basic lexer's rule restricted to the state's terminals).  The run ends (`CtxEnd`)
    at the end of the text, or where — after that state's ignored pieces — nothing of its scan list matches: `UnexpectedToken` iff the root
    lexer finds a token there, otherwise `UnexpectedCharacters`, both with the state's non-ignored terminals as `allowed`. -/
theorem contextual_lexer_tiles (L : Lexer) (F : Facts) (all : List Nat) (n : Nat)
    (hpos : ∀ t p len, F.mt t p = some len → 0 < len ∧ p + len ≤ n) (subs : List (List Nat)) (pos : Nat) (h : pos ≤ n) :
    ∃ q used rest, subs = used ++ rest ∧ used.length = (L.lexCtx F all n subs pos).1.length ∧
      CtxTiles L F used pos (L.lexCtx F all n subs pos).1 q ∧ q ≤ n ∧ CtxEnd L F all n rest q (L.lexCtx F all n subs pos).2 :=
  lexCtx_tiles L F all n hpos subs pos h

/-- **Keyword exception**, as decision logic. -/
theorem keyword_exception (L : Lexer) (F : Facts) (sorted : List Nat) (t pos len : Nat) :
    (∃ s, (L.unlessOf sorted t).find? (fun s => F.full s pos len) = some s ∧ L.retype F sorted t pos len = s) ∨
    ((L.unlessOf sorted t).find? (fun s => F.full s pos len) = none ∧ L.retype F sorted t pos len = t) := retype_eq L F sorted t pos len

theorem keyword_candidates (L : Lexer) (sorted : List Nat) (re s : Nat) (h : s ∈ L.unlessOf sorted re) :
    (L.info re).isStr = false ∧ (L.info s).isStr = true ∧ (L.info s).prio = (L.info re).prio ∧ (re, s) ∈ L.selfMatch :=
  unlessOf_mem L sorted re s h

theorem string_terminals_keep_type (L : Lexer) (F : Facts) (sorted : List Nat) (t pos len : Nat) (h : (L.info t).isStr = true) :
    L.retype F sorted t pos len = t := retype_str L F sorted t pos len h

-- non-vacuity: identifier /[a-z]+/ (0), blank (2) on a 4-character text: pieces tile it
private def exM : Matcher := fun t p => if t = 0 ∧ p = 0 then some 2 else if t = 0 ∧ p = 3 then some 1 else if t = 2 ∧ p = 2 then some 1 else none
example : lexAll exM [0, 2] 4 4 0 = ([(0, 0, 2), (2, 2, 1), (0, 3, 1)], none) := by decide
example : firstMatch exM 2 ([0] ++ [2]) = some (2, 1) := by decide

end Props.C07
