import LarkVerif.Shape
import LarkVerif.RuleSize
import LarkVerif.Extracted
/-! # C03 — the returned tree is the documented shaping of a derivation -/
namespace Props.C03
open ShapeProto

/-- **Main theorem.** For every (annotated) derivation forest, the value the callback chain `ExpandSingleChild ∘ ChildFilter` builds bottom-up —
    with the run-length/carry implementation of `None` placement — equals the shaping the documentation prescribes: filtered terminals dropped
    unless the rule keeps all tokens, `_`-rules spliced, `?`-rules with one child (and no alias) replaced by it, aliases renaming the node, one
    `None` per `_EMPTY` marker of an unmatched `[..]`, children in grammar order. -/
theorem built_tree_is_documented_shaping (d : D) (h : d.WF) : buildList d = shapeList d :=
  buildList_eq_shapeList d h

/-- placement of `None`s: the implementation's carry across filtered symbols equals the order-based specification -/
theorem placeholders_in_grammar_order (keepAll : Bool) (ms : List Bool) (cs : List (SymInfo × Val)) (h : ms.count false = cs.length) :
    applyPlan keepAll (runs ms) cs 0 = specChildren keepAll ms cs := by
  have := applyPlan_eq_spec keepAll ms cs 0 h
  simpa using this

/-- a `?`-rule without alias and with exactly one child is that child; with an alias it is always a node -/
theorem expand1_single (name : Nat) (k : Val) : finish true none name [k] = k := rfl
theorem alias_never_inlined (e : Bool) (a name : Nat) (ks : List Val) : finish e (some a) name ks = Val.tree a ks := by
  cases e <;> cases ks with
  | nil => rfl
  | cons k ks => cases ks <;> rfl

-- non-vacuity: `start: [A] "," B` on ",b" with maybe_placeholders: children = [None, b]
example : specChildren false [true, false, false] [(⟨true, true, false⟩, Val.tok 0 0), (⟨true, false, false⟩, Val.tok 1 0)] = [Val.none, Val.tok 1 0] := by rfl
example : applyPlan false (runs [true, false, false]) [(⟨true, true, false⟩, Val.tok 0 0), (⟨true, false, false⟩, Val.tok 1 0)] 0 = [Val.none, Val.tok 1 0] := by rfl

/-- **Placeholder count.** The number of `None`s an unmatched `[..]` contributes — computed by `FindRuleSize` as sums over sequences and maxima over
    alternatives of the expanded body — is the number of symbols its longest alternative keeps (for every well-formed body; nested `[..]` count like
    their own body, `nested_placeholder`). -/
theorem placeholder_count_is_longest_alternative (e : RuleSizeProto.E) (h : RuleSizeProto.WF e) :
    RuleSizeProto.size e = RuleSizeProto.longest (RuleSizeProto.alts e) := RuleSizeProto.size_eq_longest e h

theorem nested_placeholder (x : RuleSizeProto.E) (k : Nat) :
    RuleSizeProto.size (.alt [x, .seq (List.replicate k (.sym false))]) = RuleSizeProto.size x := RuleSizeProto.nested_maybe x k

/-- the source of `FindRuleSize` is what `RuleSizeProto.size` models (re-extracted from /repo on every run): `expansion` sums, `expansions` takes the
    maximum, a non-terminal counts unless its name starts with `_`, a terminal counts under `keep_all_tokens` or when it is not filtered, `_EMPTY` never -/
theorem find_rule_size_source_is_modelled :
    Extracted.findRuleSize = [("expansion", "sum(self._args_as_int(args))"), ("expansions", "max(self._args_as_int(args))"),
      ("isinstance(sym, NonTerminal)", "not sym.name.startswith('_')"), ("isinstance(sym, Terminal)", "self.keep_all_tokens or not sym.filter_out"),
      ("sym is _EMPTY", "False"), ("yield", "a"), ("yield", "1 if self._will_not_get_removed(a) else 0")] := by decide

end Props.C03
