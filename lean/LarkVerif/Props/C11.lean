import LarkVerif.Serialize
import LarkVerif.Extracted
import LarkVerif.TableSer
/-! # C11 — saved, cached and stand-alone parsers behave like the original (serialisation core) -/
namespace Props.C11
open SerProto

/-- the field-wise serialisation round trip is the identity on every value that contains no frozenset … -/
theorem roundtrip_identity {v : PV} (h : NoFset v) : deser (ser v) = v := roundtrip_of_noFset h

/-- … and is *not* the identity on a frozenset (it comes back as a list): every frozenset-valued field needs a restoring hook -/
theorem frozenset_not_restored (l : List PV) : deser (ser (.fset l)) = .list (l.map deser) ∧ deser (ser (.fset l)) ≠ .fset l := roundtrip_fset l

/-- with the hook (`Pattern._deserialize`, the repair of finding F3) the flags come back as the same frozenset -/
theorem flags_roundtrip_with_hook (flags : List String) : restoreFlags (deser (ser (.fset (flags.map .str)))) = .fset (flags.map .str) :=
  roundtrip_flags_fixed flags

/-- the fields the lexer/parser behaviour reads are all in the serialised field lists of the current source (extracted on every run) -/
theorem behaviour_fields_serialised :
    (Extracted.serializeFields.lookup "PatternStr" = some ["value", "flags", "raw"]) ∧
    (Extracted.serializeFields.lookup "PatternRE" = some ["value", "flags", "raw", "_width"]) ∧
    (Extracted.serializeFields.lookup "TerminalDef" = some ["name", "pattern", "priority"]) ∧
    (Extracted.serializeFields.lookup "Terminal" = some ["name", "filter_out"]) ∧
    (Extracted.serializeFields.lookup "NonTerminal" = some ["name"]) ∧
    (Extracted.serializeFields.lookup "RuleOptions" = some ["keep_all_tokens", "expand1", "priority", "template_source", "empty_indices"]) ∧
    (Extracted.serializeFields.lookup "Rule" = some ["origin", "expansion", "order", "alias", "options"]) ∧
    (Extracted.serializeFields.lookup "LexerConf" = some ["terminals", "ignore", "g_regex_flags", "use_bytes", "lexer_type"]) ∧
    (Extracted.serializeFields.lookup "ParserConf" = some ["rules", "start", "parser_type"]) := by decide

/-- options that may be changed at load time are real options, and none of them is structural (they do not change how the grammar is compiled) -/
theorem load_allowed_are_options : Extracted.loadAllowedOptions.all (fun o => Extracted.optionDefaults.contains o) = true := by decide
theorem structural_options_not_load_allowed :
    (["parser", "lexer", "start", "keep_all_tokens", "maybe_placeholders", "priority", "ambiguity", "import_paths", "strict"].all
      (fun o => !Extracted.loadAllowedOptions.contains o)) = true := by decide

/-- **The parse table survives its own re-encoding, whatever the table**: `ParseTableBase.serialize` renames every row key through an `Enumerator`
    (first-seen numbering) and `deserialize` looks the numbers up again; for every table — any states, any keys in any order, any actions — the result is
    the table itself, row order and key order included.  (The real `serialize` output is compared with `TableSer.serialize` on every generated grammar.) -/
theorem parse_table_reencoding_roundtrip (T : TableSer.Table) : TableSer.deserialize (TableSer.serialize T) = some T := TableSer.roundtrip T

end Props.C11
