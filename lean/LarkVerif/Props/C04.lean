import LarkVerif.Forest
import LarkVerif.Priority
/-! # C04 / C20 — the forest contains every derivation; the derivations a forest encodes -/
namespace Props.C04
open EarleyProto

/-- **Completeness of the forest.** Every derivation tree of the input (a spanned derivation `SD` over the token lattice) has *all* its dotted
    positions among the chart facts — which is what `add_family` is driven by: every node and every packed family of every derivation is present in the SPPF. -/
theorem every_derivation_is_in_the_forest {G : Grammar} {L : Lattice} {start : Nat}
    {β : List Sym} {i j : Nat} (sd : SD G L β i j) {r : Rule} {d k : Nat} (γ : List Sym)
    (hc : Chart G L start i ⟨r, d, k⟩) (hd : r.rhs.drop d = β ++ γ) : InForest start sd r d k :=
  forest_complete sd γ hc hd

/-- in particular for a whole derivation of the start symbol from position 0 -/
theorem every_parse_is_in_the_forest {G : Grammar} {L : Lattice} {start : Nat} (r : Rule) (hr : r ∈ G.rules) (hs : r.lhs = start)
    {m : Nat} (sd : SD G L r.rhs 0 m) : InForest start sd r 0 0 := forest_complete_root r hr hs sd

/-- the multiset of total priorities of the derivations a (tree-unfolded) forest encodes is a function of the forest alone: alternatives append,
    children multiply — the enumeration the `_ambig` expansion performs -/
theorem alternatives_append (a r : PrioProto.AO) : PrioProto.derivs (.orCons a r) = PrioProto.derivs a ++ PrioProto.derivs r := rfl
theorem children_multiply (w : Int) (l r : PrioProto.AO) :
    PrioProto.derivs (.and2 w l r) = (PrioProto.derivs l).flatMap (fun x => (PrioProto.derivs r).map (fun y => w + x + y)) := rfl

end Props.C04
