import LarkVerif.EarleyExec
/-! # C01 — Earley accepts exactly the language of the grammar -/
namespace Props.C01
open EarleyProto

/-- **Main theorem.** For every grammar, every well-formed finite token lattice (terminal edges and %ignore edges between
    positions) and every start symbol, the executable recogniser accepts iff some path through the lattice — ignore edges
    allowed anywhere — spells a sentence of the grammar. -/
theorem accepts_iff_language (G : Grammar) (L : FLattice) (hL : L.WF) (start : Nat) :
    accepts G L start = true ↔ ∃ ts, Path L.toLattice 0 L.n ts ∧ DerivesSeq G [Sym.nt start] ts :=
  accepts_iff G L hL start

/-- the token chain of the basic lexer: one edge per token -/
def chain (toks : List Nat) : FLattice :=
  ⟨toks.length, (List.range toks.length).filterMap (fun i => toks[i]?.map (fun a => (a, i, i + 1))), []⟩

theorem chain_wf (toks : List Nat) : (chain toks).WF := by
  constructor
  · intro a i j h
    simp only [chain, List.mem_filterMap, List.mem_range, Option.map_eq_some_iff] at h
    obtain ⟨k, hk, b, _, heq⟩ := h
    simp only [Prod.mk.injEq] at heq
    obtain ⟨_, rfl, rfl⟩ := heq
    exact ⟨by omega, by simp [chain]; omega⟩
  · intro i j h; simp [chain] at h

/-- with the basic lexer the recogniser decides membership of *some* path of the chain; a chain has exactly one -/
theorem basic_accept_iff (G : Grammar) (toks : List Nat) (start : Nat) :
    accepts G (chain toks) start = true ↔ ∃ ts, Path (chain toks).toLattice 0 toks.length ts ∧ DerivesSeq G [Sym.nt start] ts := by
  have := accepts_iff G (chain toks) (chain_wf toks) start
  simpa [chain] using this

/-- the executable chart is exactly the Earley deduction system (what the correspondence compares column by column) -/
theorem chart_is_deduction (G : Grammar) (L : FLattice) (hL : L.WF) (start : Nat) (c : CItem) :
    c ∈ chart G L start ↔ Chart G L.toLattice start c.col c.item := mem_chart_iff G L hL start c

theorem chart_sound {G : Grammar} {L : Lattice} {start i it} (h : Chart G L start i it) :
    ∃ ts, Path L it.origin i ts ∧ DerivesSeq G (it.rule.rhs.take it.dot) ts := h.sound

/-- "never hangs": `accepts` is a total function — stated as: it always returns a Boolean -/
theorem recogniser_total (G : Grammar) (L : FLattice) (start : Nat) : accepts G L start = true ∨ accepts G L start = false := by
  cases accepts G L start <;> simp

-- non-vacuity: S → a S | ε over the two-token chain
example : (chain [0, 0]).WF := chain_wf _

end Props.C01
