import LarkVerif.EarleyExec
import LarkVerif.EarleyExpected
import LarkVerif.LR0Viable
import LarkVerif.LRViable
import LarkVerif.LRComplete
/-! # C08 — rejections happen at the first offending position -/
namespace Props.C08

/-- **Earley.** While the consumed lattice prefix `u1` can still be extended (by `u2`) to something derivable from the rest of an item,
    the chart column it ends in is not empty: the parser raises only at the first position after which no continuation exists. -/
theorem earley_viable_prefix_alive {G : EarleyProto.Grammar} {L : EarleyProto.Lattice} {start : Nat}
    {β : List EarleyProto.Sym} {u : List Nat} (h : EarleyProto.DerivesSeq G β u)
    {i j : Nat} {r : EarleyProto.Rule} {d k : Nat} (γ : List EarleyProto.Sym) (u1 u2 : List Nat)
    (hc : EarleyProto.Chart G L start i ⟨r, d, k⟩) (hd : r.rhs.drop d = β ++ γ) (hu : u = u1 ++ u2) (hs : EarleyProto.Steps L i j u1) :
    ∃ it, EarleyProto.Chart G L start j it :=
  EarleyProto.Chart.viable h γ u1 u2 hc hd hu hs

/-- every item in a column (hence every terminal reported as expected there) is backed by a real derivation of the consumed text -/
theorem earley_expected_backed {G : EarleyProto.Grammar} {L : EarleyProto.Lattice} {start i : Nat} {it : EarleyProto.Item}
    (h : EarleyProto.Chart G L start i it) :
    ∃ ts, EarleyProto.Path L it.origin i ts ∧ EarleyProto.DerivesSeq G (it.rule.rhs.take it.dot) ts := h.sound

/-- **LALR.** For any table passing the completeness certificate, a token sequence that can be extended to a sentence is consumed without
    error: `UnexpectedToken` is raised at the first token after which no sentence is possible. -/
theorem lalr_viable_prefix_shifts {G : EarleyProto.Grammar} {T : LRProto.Table} {s0 eof : Nat} {la} (hC : LRProto.TableClosed G T s0 eof la)
    (pre post : List Nat) (h : EarleyProto.DerivesSeq G [EarleyProto.Sym.nt s0] (pre ++ post)) :
    ∃ F0, ∀ F, F0 < F → ∃ cfg', LRProto.feedAll T F ⟨[T.start], []⟩ pre = LRProto.Outcome.shifted cfg' :=
  LRProto.viable_prefix_shifts hC pre post h

/-- **Continuation sets, nothing missing** (every grammar): a terminal that can legally come next at position `i` — some reading of the text
    up to `i` followed by it begins a sentence — is among the terminals after the dot of the chart items of column `i`, i.e. in the reported
    `expected`/`allowed` set. -/
theorem earley_expected_complete {G : EarleyProto.Grammar} {L : EarleyProto.Lattice} {start i a : Nat}
    (h : EarleyProto.LegalNext G L start i a) : EarleyProto.Expected G L start i a :=
  EarleyProto.legal_is_expected h

/-- **Continuation sets, exact** (dynamic Earley lexers; grammars whose rules are all productive, certified by the decidable `productiveB`):
    the executable continuation set of a column — the list the driver prints and the harness compares with lark's exception — contains a
    terminal iff it can legally come next. -/
theorem earley_expected_exact (G : EarleyProto.Grammar) (L : EarleyProto.FLattice) (hL : L.WF) (start i a : Nat) (order : List EarleyProto.Rule)
    (hP : EarleyProto.productiveB G order = true) :
    a ∈ EarleyProto.expectedAt G L start i ↔ EarleyProto.LegalNext G L.toLattice start i a :=
  EarleyProto.expectedAt_exact G L hL start i a order hP

/-- productivity cannot be dropped: `start: "b" x`, `x: "c" x` after `b` expects `c` although no sentence exists (true of lark as well) -/
theorem earley_expected_needs_productive :
    EarleyProto.Expected EarleyProto.badG EarleyProto.badL 0 1 2 ∧ ¬ EarleyProto.LegalNext EarleyProto.badG EarleyProto.badL 0 1 2 :=
  EarleyProto.unproductive_counterexample

/-- **LALR, "every terminal in accepts can legally come next".** For an LR(0) automaton passing `LR0.checkLR0` (lark's exported item sets, kernels and
    transitions, per grammar) over a productive grammar: if the state reached from the start state along the stack symbols `γ` has an item with its
    dot in front of terminal `a` — the only way a shift on `a` enters the table — then for every token string `u` that reduces to `γ` some sentence
    begins with `u ++ [a]`. -/
theorem lalr_shifted_terminal_is_legal {G : EarleyProto.Grammar} {A : LR0.Auto} {start q0 : Nat} (h : LR0.checkLR0 G A = true)
    (order : List EarleyProto.Rule) (hP : EarleyProto.productiveB G order = true) (h0 : q0 < A.items.length)
    (hstart : ∀ x ∈ A.kernelOf q0, x.2 = 0 ∧ x.1.lhs = start ∧ x.1 ∈ G.rules)
    {γ : List EarleyProto.Sym} {q : Nat} (hr : LR0.Reach A q0 γ q) {r : EarleyProto.Rule} {d a : Nat} (hin : (r, d) ∈ A.itemsOf q)
    (hs : r.rhs[d]? = some (EarleyProto.Sym.t a)) {u : List Nat} (hu : EarleyProto.DerivesSeq G γ u) :
    ∃ w, EarleyProto.DerivesSeq G [EarleyProto.Sym.nt start] (u ++ a :: w) :=
  LR0.shift_symbol_viable h (EarleyProto.productiveB_sound hP) h0 hstart hr hin hs hu

/-- **LALR driver: a token it accepts can legally come next** (what `accepts()` finds by trial feeding).  For a table passing `TableSafe` whose
    shift/goto entries are the transitions of an automaton passing `checkLR0`, over a grammar with a passing productivity certificate: if
    `feed_token` on `t` succeeds from a configuration reached by consuming `consumed`, some sentence begins with `consumed ++ [t]` — whatever the
    lookahead sets are. -/
theorem lalr_accepted_terminal_is_legal {G : EarleyProto.Grammar} {T : LRProto.Table} {A : LR0.Auto} {s0 start : Nat}
    (hT : LRProto.TableSafe G T s0) (h : LR0.checkLR0 G A = true) (order : List EarleyProto.Rule) (hP : EarleyProto.productiveB G order = true)
    (h0 : T.start < A.items.length) (hstart : ∀ x ∈ A.kernelOf T.start, x.2 = 0 ∧ x.1.lhs = start ∧ x.1 ∈ G.rules)
    (hne : ∀ q, q < A.items.length → A.kernelOf q ≠ []) (hTA : LRProto.TableOf T A)
    {cfg cfg' : LRProto.Config} {consumed : List Nat} (hinv : LRProto.Inv G T cfg consumed) {t fuel : Nat}
    (hfeed : LRProto.reduceLoop T t false fuel cfg = LRProto.Outcome.shifted cfg') :
    ∃ w, EarleyProto.DerivesSeq G [EarleyProto.Sym.nt start] (consumed ++ t :: w) :=
  LRProto.fed_token_is_legal hT h (EarleyProto.productiveB_sound hP) h0 hstart hne hTA hinv hfeed

/-- **LALR: every terminal in `accepts` can legally come next** — for the model of `InteractiveParser.accepts()` itself (trial feeding of the
    terminals in `choices()`): a terminal other than `$END` begins a continuation of the consumed input to a sentence, and `$END` is returned only
    if the consumed input is a sentence. -/
theorem lalr_accepts_are_legal {G : EarleyProto.Grammar} {T : LRProto.Table} {A : LR0.Auto} {s0 start : Nat}
    (hT : LRProto.TableSafe G T s0) (h : LR0.checkLR0 G A = true) (order : List EarleyProto.Rule) (hP : EarleyProto.productiveB G order = true)
    (h0 : T.start < A.items.length) (hstart : ∀ x ∈ A.kernelOf T.start, x.2 = 0 ∧ x.1.lhs = start ∧ x.1 ∈ G.rules)
    (hne : ∀ q, q < A.items.length → A.kernelOf q ≠ []) (hTA : LRProto.TableOf T A)
    {cfg : LRProto.Config} {consumed : List Nat} (hinv : LRProto.Inv G T cfg consumed) (terms : List Nat) (eof fuel t : Nat)
    (ht : t ∈ LRProto.acceptsOf T terms eof fuel cfg) :
    (t ≠ eof → ∃ w, EarleyProto.DerivesSeq G [EarleyProto.Sym.nt start] (consumed ++ t :: w)) ∧
    (t = eof → EarleyProto.DerivesSeq G [EarleyProto.Sym.nt s0] consumed) :=
  LRProto.accepts_are_legal hT h (EarleyProto.productiveB_sound hP) h0 hstart hne hTA hinv terms eof fuel t ht

/-- **LALR driver: correct-prefix property.** Whatever the driver has consumed without raising is a prefix of a sentence — so `UnexpectedToken`
    is raised no later than at the first token after which no sentence is possible (with `lalr_viable_prefix_shifts`: exactly there). -/
theorem lalr_consumed_is_viable_prefix {G : EarleyProto.Grammar} {T : LRProto.Table} {A : LR0.Auto} {start : Nat}
    (h : LR0.checkLR0 G A = true) (order : List EarleyProto.Rule) (hP : EarleyProto.productiveB G order = true)
    (h0 : T.start < A.items.length) (hstart : ∀ x ∈ A.kernelOf T.start, x.2 = 0 ∧ x.1.lhs = start ∧ x.1 ∈ G.rules)
    (hne : ∀ q, q < A.items.length → A.kernelOf q ≠ []) (hTA : LRProto.TableOf T A)
    {cfg : LRProto.Config} {consumed : List Nat} (hinv : LRProto.Inv G T cfg consumed) :
    ∃ w, EarleyProto.DerivesSeq G [EarleyProto.Sym.nt start] (consumed ++ w) :=
  LRProto.consumed_is_viable_prefix h (EarleyProto.productiveB_sound hP) h0 hstart hne hTA hinv

/-- **LALR: the error position is the first offending token, in both directions.** (→, `lalr_viable_prefix_shifts`: a prefix of a sentence is consumed
    without error, for a table with the completeness certificate.) (←, here:) a token prefix the driver consumes without raising begins a sentence
    of the root symbol — so it never reads past the first token after which no sentence is possible. -/
theorem lalr_consumed_prefix_begins_sentence {G : EarleyProto.Grammar} {T : LRProto.Table} {A : LR0.Auto} {s0 start : Nat}
    (hT : LRProto.TableSafe G T s0) (h : LR0.checkLR0 G A = true) (order : List EarleyProto.Rule) (hP : EarleyProto.productiveB G order = true)
    (h0 : T.start < A.items.length) (hstart : ∀ x ∈ A.kernelOf T.start, x.2 = 0 ∧ x.1.lhs = start ∧ x.1 ∈ G.rules)
    (hne : ∀ q, q < A.items.length → A.kernelOf q ≠ []) (hTA : LRProto.TableOf T A) (F : Nat) (pre : List Nat) (cfg' : LRProto.Config)
    (hfeed : LRProto.feedAll T F ⟨[T.start], []⟩ pre = LRProto.Outcome.shifted cfg') :
    ∃ w, EarleyProto.DerivesSeq G [EarleyProto.Sym.nt start] (pre ++ w) :=
  LRProto.consumed_prefix_begins_sentence hT h (EarleyProto.productiveB_sound hP) h0 hstart hne hTA F pre cfg' hfeed

end Props.C08
