import LarkVerif.Threads
import LarkVerif.Indenter
/-! # C10 — a Lark instance is a pure function of its input: reusable and thread-safe (lazy-initialisation core) -/
namespace Props.C10

/-- **Thread safety of the lazily built scanner/callback pair, publish-once ordering** (the ordering of the current source, after the repair of
    finding F13): for any number of threads and *every* schedule of their shared reads and writes, every token gets the user's callbacks. -/
theorem lazy_init_safe_under_every_schedule (n : Nat) (sched : List Nat) : ∀ b ∈ ThProto.run true (ThProto.initSys n) sched, b = true :=
  ThProto.interleaving_safe n sched

/-- the ordering that publishes the dict before merging the user callbacks is *not* safe: a concrete legal schedule of two threads -/
theorem publish_before_merge_is_unsafe : ThProto.run false (ThProto.initSys 2) [1, 0, 0, 0, 0, 1, 0] = [false] :=
  ThProto.interleaving_unsafe_original

/-- the stateful Indenter post-lexer: the outcome of a stream does not depend on what earlier streams (complete, failed, abandoned) left behind -/
theorem indenter_history_independent (old₁ old₂ : IndProto.St) (toks : List IndProto.Tok) : IndProto.process old₁ toks = IndProto.process old₂ toks := rfl

end Props.C10
