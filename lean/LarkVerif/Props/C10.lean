import LarkVerif.Threads
import LarkVerif.Indenter
import LarkVerif.Instance
import LarkVerif.Extracted
/-! # C10 — a Lark instance is a pure function of its input: reusable and thread-safe (lazy-initialisation core) -/
namespace Props.C10

/-- **Thread safety of the lazily built scanner/callback pair, publish-once ordering** (the ordering of the current source, after the repair of
    finding F13): for any number of threads and *every* schedule of their shared reads and writes, every token gets the user's callbacks. -/
theorem lazy_init_safe_under_every_schedule (n : Nat) (sched : List Nat) : ∀ b ∈ ThProto.run true (ThProto.initSys n) sched, b = true :=
  ThProto.interleaving_safe n sched

/-- the ordering that publishes the dict before merging the user callbacks is *not* safe: a concrete legal schedule of two threads -/
theorem publish_before_merge_is_unsafe : ThProto.run false (ThProto.initSys 2) [1, 0, 0, 0, 0, 1, 0] = [false] :=
  ThProto.interleaving_unsafe_original

/-- the stateful Indenter post-lexer: the outcome of a stream does not depend on what earlier streams (complete, failed, abandoned) left behind -/
theorem indenter_history_independent (old₁ old₂ : IndProto.St) (toks : List IndProto.Tok) : IndProto.process old₁ toks = IndProto.process old₂ toks := rfl

/-- **History independence of an instance whose only persistent state is lazily initialised fields**: after any history of completed, failed and
    abandoned calls, every call returns what it returns on a fresh instance of the same configuration (`InstProto`: a call forces the fields it needs and
    computes its result from configuration, argument and forced values). -/
theorem instance_history_independent {Cfg Val Arg Out : Type} (C : InstProto.Class Cfg Val Arg Out) (cfg : Cfg) (ops : List (InstProto.Op Arg)) :
    InstProto.run C (InstProto.fresh C cfg) ops = ops.map (InstProto.pureOut C cfg) := InstProto.history_independent C cfg ops

/-- **What persists on an instance is exactly the modelled state** — read from the current source on every run (`Extracted.stateInventory`: every attribute
    of `self` that a non-constructor method assigns, deletes, subscripts for writing or mutates through a container method, and every module-level name
    written from inside a function, in the files on the parse path).  Of these,
    * `BasicLexer._scanner / _search_scanner / callback`, `PatternRE._width`, `TreeMatcher._parser_cache` are the lazily initialised fields of `InstProto`
      (computed from the configuration alone; `lazy_init_safe_under_every_schedule` covers their publication order);
    * `Indenter.indent_level / paren_level` are reset at the start of every stream (`indenter_history_independent`);
    * `Lark.*` are written by `_load`/`_build_*` during construction only; `LarkOptions.options[]` by `__setattr__` during construction;
    * everything else lives on per-call objects (the line counter, forest nodes and visitors, the interactive parser's result, trees and exceptions handed
      to the caller, the two container classes).
    A new cache, memo or flag on any of these classes changes the extracted table and breaks this obligation. -/
theorem instance_state_is_the_modelled_state : Extracted.stateInventory =
    [("earley_forest.py:ForestToParseTree", ["_cache", "_cache[]", "_cycle_node", "_on_cycle_retreat", "_successful_visits.add", "_successful_visits.remove"]),
     ("earley_forest.py:ForestTransformer", ["data[]", "node_stack.append", "node_stack.pop"]),
     ("earley_forest.py:SymbolNode", ["_children.add", "paths.add", "paths_loaded"]),
     ("exceptions.py:UnexpectedToken", ["_accepts"]),
     ("indenter.py:Indenter", ["indent_level", "indent_level.append", "indent_level.pop", "paren_level"]),
     ("lalr_interactive_parser.py:InteractiveParser", ["result"]),
     ("lark.py:Lark", ["_callbacks", "_callbacks.update", "_parse_tree_builder", "_terminals_dict", "grammar", "lexer_conf", "options", "parser", "rules", "source_path", "terminals"]),
     ("lark.py:LarkOptions", ["options[]"]),
     ("lexer.py:BasicLexer", ["_scanner", "_search_scanner", "callback"]),
     ("lexer.py:LineCounter", ["char_pos", "column", "line", "line_start_pos"]),
     ("lexer.py:PatternRE", ["_width"]),
     ("tree.py:Tree", ["_meta", "children", "children[]", "data"]),
     ("tree_matcher.py:TreeMatcher", ["_parser_cache[]"]),
     ("utils.py:Enumerator", ["enums[]"]),
     ("utils.py:OrderedSet", ["d[]"])] := by decide

end Props.C10
