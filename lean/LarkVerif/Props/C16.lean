import LarkVerif.Transform
import LarkVerif.TransformEmbed
import LarkVerif.TransformInPlace
import LarkVerif.IterSubtrees
/-! # C16 — embedded transformer equals transforming afterwards; variants agree -/
namespace Props.C16
open ShapeProto EmbedProto

/-- **Embedded = after.** For every derivation whose inlined rules are plain (no `?`), arbitrary rule callbacks `f` and token callbacks `g`
    (none attached to an inlined rule — what finding F8 violates): the value the parser builds with the callbacks spliced into its chain equals
    `Transformer.transform` of the tree it builds without them. -/
theorem embedded_eq_transform_after (f : Nat → List Val → Val) (g : Nat → Nat → Val) (s : SymInfo) (r : RuleInfo) (kids : D)
    (hs : toExpand s = false) (h : D.Plain (.node s r kids .nil)) :
    (buildListT f g (.node s r kids .nil)).map (·.2) = (buildList (.node s r kids .nil)).map (fun x => trV f g x.2) :=
  embedded_eq_after f g s r kids hs h

/-- **Variants agree.** `Transformer_NonRecursive` (post-order stack machine) returns what the recursive `Transformer` returns, on every tree,
    for arbitrary callbacks into any type. -/
theorem nonrecursive_eq_recursive {V : Type} (f : Nat → List V → V) (g : Nat → V) (d : Nat) (kids : TrProto.Forest) :
    TrProto.runStack f g (TrProto.postOrder (.node d kids .nil)) [] = TrProto.tr f g (.node d kids .nil) :=
  TrProto.nonrecursive_eq_recursive f g d kids

/-- the stack machine visits children before parents and each node exactly once: its instruction list is the post-order of the tree -/
theorem stack_machine_postorder {V : Type} (f : Nat → List V → V) (g : Nat → V) (F : TrProto.Forest) (st : List V) :
    TrProto.runStack f g (TrProto.postOrder F) st = (TrProto.tr f g F).reverse ++ st := TrProto.runStack_postfix f g F st

/-- **`Transformer_InPlace` = `Transformer`**: whatever order the in-place walk processes the subtrees in — as long as a node comes after its child
    subtrees, which `iter_subtrees` guarantees and the correspondence observes on every call log — the value returned for the root is the recursive
    transformer's. -/
theorem inplace_eq_recursive {V : Type} (f : Nat → List V → V) (g : Nat → V) (d : Nat) (kids : TrProto.Forest) (kids' : TrProto.MF V) (vs : List V)
    (hrun : TrProto.Steps f g (TrProto.MF.ofForest (.node d kids .nil)) (.node d (some vs) kids' .nil)) :
    [f d vs] = TrProto.tr f g (.node d kids .nil) :=
  TrProto.inplace_eq_recursive f g d kids kids' vs hrun

/-- **`iter_subtrees` yields children before parents, and every subtree** (the order `Transformer_InPlace.transform` and the visitors walk in; the
    hypothesis of `inplace_eq_recursive`): the queue loop of `Tree.iter_subtrees` on a proper tree, reversed. -/
theorem iter_subtrees_children_first (t : IterProto.T) (l1 : List IterProto.T) (x : IterProto.T) (l2 : List IterProto.T)
    (h : IterProto.iterSubtrees t = l1 ++ x :: l2) : ∀ c ∈ x.kids, c ∈ l1 :=
  IterProto.iter_subtrees_children_first t l1 x l2 h

theorem iter_subtrees_complete (t x : IterProto.T) (h : IterProto.Sub t x) : x ∈ IterProto.iterSubtrees t :=
  IterProto.iter_subtrees_complete t x h

end Props.C16
