import LarkVerif.Priority
import LarkVerif.Choice
import LarkVerif.Extracted
/-! # C05 — default ambiguity resolution is priority-optimal -/
namespace Props.C05
open PrioProto

/-- **Main theorem.** The value the bottom-up forest walk (`ForestSumVisitor`: packed node = rule priority + children, symbol node = max over its
    packed alternatives) assigns to a node is the maximum total priority over *all* derivations the forest encodes below it (`none` iff there are none). -/
theorem forest_walk_is_max_over_derivations (t : AO) : prio t = best (derivs t) := prio_eq_best t

/-- optimality in the usual form: no derivation has a larger total priority than the value of the root -/
theorem no_derivation_beats_the_root (t : AO) (x : Int) (hx : x ∈ derivs t) : ∃ m, prio t = some m ∧ x ≤ m := resolve_optimal t x hx

/-- `priority='invert'` negates every weight at load time: the same walk then yields the minimum -/
def negate : AO → AO
  | .leaf w => .leaf (-w)
  | .orNil => .orNil
  | .orCons a r => .orCons (negate a) (negate r)
  | .and0 w => .and0 (-w)
  | .and1 w c => .and1 (-w) (negate c)
  | .and2 w l r => .and2 (-w) (negate l) (negate r)

theorem derivs_negate (t : AO) : derivs (negate t) = (derivs t).map (fun x => -x) := by
  induction t with
  | leaf w => simp [negate, derivs]
  | orNil => simp [negate, derivs]
  | orCons a r iha ihr => simp [negate, derivs, iha, ihr]
  | and0 w => simp [negate, derivs]
  | and1 w c ih =>
    simp only [negate, derivs, ih, List.map_map]
    apply List.map_congr_left; intro x _; simp; omega
  | and2 w l r ihl ihr =>
    simp only [negate, derivs, ihl, ihr]
    generalize derivs l = dl
    generalize derivs r = dr
    induction dl with
    | nil => simp
    | cons x dl ih =>
      simp only [List.map_cons, List.flatMap_cons, List.map_append]
      rw [ih]
      congr 1
      simp only [List.map_map]
      apply List.map_congr_left; intro y _; simp; omega

/-- under `invert` no derivation has a *smaller* total (original) priority than minus the root value -/
theorem invert_is_min (t : AO) (x : Int) (hx : x ∈ derivs t) : ∃ m, prio (negate t) = some m ∧ -m ≤ x := by
  have hx' : -x ∈ derivs (negate t) := by rw [derivs_negate]; exact List.mem_map.mpr ⟨x, hx, rfl⟩
  obtain ⟨m, hm, hle⟩ := resolve_optimal (negate t) (-x) hx'
  exact ⟨m, hm, by omega⟩

/-- the tie-break order among equally good alternatives, as it is in the current source: non-empty first, priority, rule order -/
theorem packed_sort_key_is_documented : Extracted.packedSortKey = [("+", "self.is_empty"), ("-", "self.priority"), ("+", "self.rule.order")] := by decide

/-- **The choice function** (`sorted(children, key=sort_key)[0]` with the key above).  Built-in precedence: a directly empty alternative is chosen only
    where every alternative of the node is empty … -/
theorem empty_alternative_only_if_nothing_else (l : List ChoiceProto.Fam) (c : ChoiceProto.Fam) (h : ChoiceProto.choose l = some c)
    (hc : c.isEmpty = true) : ∀ f ∈ l, f.isEmpty = true := ChoiceProto.empty_chosen_only_if_all_empty l c h hc

/-- … otherwise the chosen alternative has the highest priority among the non-empty ones … -/
theorem chosen_alternative_has_max_priority (l : List ChoiceProto.Fam) (c : ChoiceProto.Fam) (h : ChoiceProto.choose l = some c) :
    ∀ f ∈ l, f.isEmpty = false → f.prio ≤ c.prio := ChoiceProto.chosen_has_max_priority l c h

/-- … and among equally good ones it is the alternative written first: the choice is a function of grammar and input, not of hash order
    (families of the *same* rule with different split points share a key: there the order is the forest's iteration order, compared per hash seed). -/
theorem ties_go_to_the_first_alternative (l : List ChoiceProto.Fam) (c : ChoiceProto.Fam) (h : ChoiceProto.choose l = some c) :
    ∀ f ∈ l, f.isEmpty = c.isEmpty → f.prio = c.prio → c.order ≤ f.order := ChoiceProto.chosen_is_first_written l c h

example : prio (.orCons (.and1 2 (.leaf 0)) (.orCons (.and2 0 (.leaf 1) (.leaf 3)) .orNil)) = some 4 := by decide

end Props.C05
