import LarkVerif.Indenter
import LarkVerif.IndenterRef
/-! # C18 — Indenter emits a balanced INDENT/DEDENT structure, independent of history -/
namespace Props.C18
open IndProto

/-- INDENT and DEDENT are balanced at the end of every stream that does not raise, whatever state earlier
    streams (complete, failed or abandoned) left in the Indenter object. -/
theorem balanced (old : St) (toks : List Tok) (out : List Ev) (h : process old toks = .ok out) :
    nInd out = nDed out := process_balanced old toks out h

/-- `process` is a function of the stream alone (the object's previous state is irrelevant). -/
theorem process_resets (old₁ old₂ : St) (toks : List Tok) : process old₁ toks = process old₂ toks := rfl

/-- newline tokens inside brackets emit nothing and change nothing -/
theorem nl_in_brackets (st : St) (indent : Nat) (h : st.paren > 0) : handleNL st indent = .ok ([], st) := by
  simp [handleNL, h]

/-- a deeper line emits exactly the newline and one INDENT, and opens that level -/
theorem indent_iff (st : St) (indent top : Nat) (rest : List Nat) (hp : st.paren = 0) (hl : st.levels = top :: rest)
    (h : indent > top) :
    handleNL st indent = .ok ([Ev.tok (.nl indent), Ev.indent], { st with levels := indent :: st.levels }) := by
  simp [handleNL, hp, hl, h]

/-- **`handle_NL` is the reference algorithm of the Python language reference** (outside brackets): for every strictly decreasing stack containing 0
    it raises exactly when the reference does, and otherwise emits the newline token, the prescribed number of INDENT / DEDENT tokens, and leaves
    the prescribed stack (all larger levels popped, stated with filters and membership instead of a loop). -/
theorem handle_nl_is_reference (st : St) (indent : Nat) (hp : st.paren = 0) (hd : Decr st.levels) (h0 : 0 ∈ st.levels) :
    handleNL st indent =
      match refLine st.levels indent with
      | .error e => .error e
      | .ok (i, d, lv) => .ok (Ev.tok (.nl indent) :: (List.replicate i Ev.indent ++ List.replicate d Ev.dedent), { st with levels := lv }) :=
  handleNL_eq_ref st indent hp hd h0

/-- the hypotheses hold in every reachable state: they hold initially and every token preserves them -/
theorem stack_invariant_initially : Decr St.init.levels ∧ 0 ∈ St.init.levels := ⟨init_decr, by simp [St.init]⟩
theorem stack_invariant_preserved (st st' : St) (t : Tok) (out : List Ev) (h : stepTok st t = .ok (out, st')) (hd : Decr st.levels) (h0 : 0 ∈ st.levels) :
    Decr st'.levels ∧ 0 ∈ st'.levels := ⟨stepTok_decr st st' t out h hd, stepTok_zero st st' t out h hd h0⟩

/-- **DedentError iff** the new indentation is not deeper than the current level and is not an open level -/
theorem dedent_error_iff (levels : List Nat) (top : Nat) (rest : List Nat) (indent : Nat) (hl : levels = top :: rest) :
    refLine levels indent = .error .dedentError ↔ (¬ indent > top ∧ indent ∉ levels) := by
  subst hl
  simp only [refLine]
  by_cases h1 : indent > top
  · simp [h1]
  · by_cases h2 : indent ∈ top :: rest
    · simp [h1, h2]
    · simp [h1, h2]

example : process St.init [.other 0, .nl 2, .other 0, .nl 4, .other 0, .nl 0, .other 1] =
    .ok [.tok (.other 0), .tok (.nl 2), .indent, .tok (.other 0), .tok (.nl 4), .indent, .tok (.other 0), .tok (.nl 0), .dedent, .dedent, .tok (.other 1)] := by rfl
example : process St.init [.other 0, .nl 4, .other 0, .nl 2] = .error .dedentError := by rfl

end Props.C18
