import LarkVerif.Indenter
/-! # C18 — Indenter emits a balanced INDENT/DEDENT structure, independent of history -/
namespace Props.C18
open IndProto

/-- INDENT and DEDENT are balanced at the end of every stream that does not raise, whatever state earlier
    streams (complete, failed or abandoned) left in the Indenter object. -/
theorem balanced (old : St) (toks : List Tok) (out : List Ev) (h : process old toks = .ok out) :
    nInd out = nDed out := process_balanced old toks out h

/-- `process` is a function of the stream alone (the object's previous state is irrelevant). -/
theorem process_resets (old₁ old₂ : St) (toks : List Tok) : process old₁ toks = process old₂ toks := rfl

/-- newline tokens inside brackets emit nothing and change nothing -/
theorem nl_in_brackets (st : St) (indent : Nat) (h : st.paren > 0) : handleNL st indent = .ok ([], st) := by
  simp [handleNL, h]

/-- a deeper line emits exactly the newline and one INDENT, and opens that level -/
theorem indent_iff (st : St) (indent top : Nat) (rest : List Nat) (hp : st.paren = 0) (hl : st.levels = top :: rest)
    (h : indent > top) :
    handleNL st indent = .ok ([Ev.tok (.nl indent), Ev.indent], { st with levels := indent :: st.levels }) := by
  simp [handleNL, hp, hl, h]

example : process St.init [.other 0, .nl 2, .other 0, .nl 4, .other 0, .nl 0, .other 1] =
    .ok [.tok (.other 0), .tok (.nl 2), .indent, .tok (.other 0), .tok (.nl 4), .indent, .tok (.other 0), .tok (.nl 0), .dedent, .dedent, .tok (.other 1)] := by rfl
example : process St.init [.other 0, .nl 4, .other 0, .nl 2] = .error .dedentError := by rfl

end Props.C18
