import LarkVerif.LineCounter
import LarkVerif.Positions
/-! # C06 — token and tree positions are exact source coordinates -/
namespace Props.C06
open LCProto

/-- the stamp the basic/contextual lexer gives the token `text[s:e]` when its counter was positioned by
    `from_text_slice`/`advance_to` (model: `fromStart`) — what the driver evaluates for every real token -/
def stampAt (text : List Char) (s e : Nat) (flag : Bool) : Stamp :=
  (stampFeed (LineCounter.fromStart text s) ((text.drop s).take (e - s)) flag).1

theorem split3 (text : List Char) (s e : Nat) (h1 : s ≤ e) (h2 : e ≤ text.length) :
    text = text.take s ++ (text.drop s).take (e - s) ++ text.drop e := by
  have e1 : (text.drop s).take (e - s) ++ text.drop e = text.drop s := by
    have : text.drop e = (text.drop s).drop (e - s) := by
      rw [List.drop_drop]; congr 1; omega
    rw [this, List.take_append_drop]
  rw [List.append_assoc, e1, List.take_append_drop]

/-- **Token positions, basic/contextual lexers.** For every text and every token span `[s, e)` inside it, if the token's
    type is newline-counted or the token holds no newline, the stamp is exactly
    `(s, line s, column s, e, line e, column e)`. -/
theorem token_stamp_exact (text : List Char) (s e : Nat) (flag : Bool) (h1 : s ≤ e) (h2 : e ≤ text.length)
    (hflag : flag = true ∨ NL ∉ (text.drop s).take (e - s)) :
    stampAt text s e flag = Stamp.spec text s e := by
  obtain ⟨hE, hcp⟩ := fromStart_exact text s (by omega)
  have hs := split3 text s e h1 h2
  have hlen : (text.take s).length = s := by simp; omega
  have hlen2 : ((text.drop s).take (e - s)).length = e - s := by simp; omega
  have := stampFeed_exact (text.take s) ((text.drop s).take (e - s)) (text.drop e) (LineCounter.fromStart text s) flag
    (by rw [hcp, hlen]) (by rw [← hs]; exact hE) hflag
  rw [← hs, hlen, hlen2] at this
  unfold stampAt
  rw [this.1]
  congr 1 <;> omega

/-- the whole lexer loop over a tiling keeps exact coordinates (`stampAll_exact`, restated) -/
theorem lexer_loop_exact (toks : List (List Char × Bool)) (pre post : List Char) (lc : LineCounter)
    (hp : lc.charPos = pre.length) (hE : Exact (pre ++ flatToks toks ++ post) lc)
    (hfl : ∀ tf ∈ toks, tf.2 = true ∨ NL ∉ tf.1) :
    stampAll lc toks = specAll (pre ++ flatToks toks ++ post) pre.length toks :=
  stampAll_exact toks pre post lc hp hE hfl

/-- **Dynamic Earley lexers.** start = coordinates of `s`; end = one column past the last character on its line. -/
theorem dynamic_stamp_exact (text : List Char) (s e : Nat) (h1 : s < e) (h2 : e ≤ text.length) :
    dynStamp text s e = ⟨s, (coord text s).1, (coord text s).2, e, (coord text (e - 1)).1, (coord text (e - 1)).2 + 1⟩ :=
  dynStamp_exact text s e h1 h2

/-- windows and snapshots start from the coordinates of the full text -/
theorem window_start_exact (text : List Char) (start : Nat) (h : start ≤ text.length) :
    Exact text (LineCounter.fromStart text start) ∧ (LineCounter.fromStart text start).charPos = start :=
  fromStart_exact text start h

-- non-vacuity and the flag's necessity (the mechanism behind finding F1)
example : stampAt ['b', '\n', 'b'] 2 3 true = ⟨2, 2, 1, 3, 2, 2⟩ := by decide
example : (stampAll LineCounter.init [(['b'], false), (['\n'], false), (['b'], false)]).getLast? = some ⟨2, 1, 3, 3, 1, 4⟩ := by decide

/-- **Tree meta, `propagate_positions`.**  For every derivation (any grammar, any engine: they all run the same callback chain), outside the region
    of finding F19 (`cleanB`, evaluated by the driver on every real derivation): in the value every tree of the forest is shaped into, each tree
    whose rule matched at least one token carries exactly the span from the start of the first to the end of the last token that rule matched —
    filtered tokens included — and the span its parent sees for it is the span of the derivation that returned it (hence ordered, disjoint, nested). -/
theorem tree_meta_exact (d : ShapeProto.D) (h : PosProto.cleanB d = true) :
    (∀ x ∈ PosProto.evalP d, ∀ p ∈ PosProto.metas x.2, p.2 ≠ none → p.1 = p.2) ∧
    (PosProto.evalP d).map (fun x => PosProto.cand x.2) = PosProto.spans d :=
  ⟨fun x hx => PosProto.metas_exact x.2 ((PosProto.evalP_inv d h).2 x hx), (PosProto.evalP_inv d h).1⟩

section
open ShapeProto PosProto
private def sT : SymInfo := ⟨true, false, false⟩    -- a kept terminal
private def sF : SymInfo := ⟨true, true, false⟩     -- a filtered terminal
private def sR : SymInfo := ⟨false, false, false⟩   -- a rule
private def rr (e1 : Bool) : RuleInfo := ⟨0, Option.none, e1, false, [false, false]⟩
/-- non-vacuity: `start: r A`, `r: _U B` on "u b a" — `r` spans the filtered `u` too -/
example : cleanB (D.node sR (rr false) (D.node sR (rr false) (D.leaf sF 0 1 (D.leaf sT 2 3 D.nil)) (D.leaf sT 4 5 D.nil)) D.nil) = true := by decide
example : (evalP (D.node sR (rr false) (D.node sR (rr false) (D.leaf sF 0 1 (D.leaf sT 2 3 D.nil)) (D.leaf sT 4 5 D.nil)) D.nil)).map (fun x => metas x.2)
    = [[(some (0, 5), some (0, 5)), (some (0, 3), some (0, 3))]] := by decide
/-- and the hypothesis is needed — finding F19's witness: with `?r` the model (like lark) gives `start` the span 2..5 instead of 0..5 -/
example : cleanB (D.node sR (rr false) (D.node sR (rr true) (D.leaf sF 0 1 (D.leaf sT 2 3 D.nil)) (D.leaf sT 4 5 D.nil)) D.nil) = false := by decide
example : (evalP (D.node sR (rr false) (D.node sR (rr true) (D.leaf sF 0 1 (D.leaf sT 2 3 D.nil)) (D.leaf sT 4 5 D.nil)) D.nil)).map (fun x => metas x.2)
    = [[(some (2, 5), some (0, 5))]] := by decide
end

end Props.C06
