import LarkVerif.Shape
/-! C06, second half: `PropagatePositions` (parse_tree_builder.py:28) on top of the tree-shaping chain of `Shape.lean`.
    It is the outermost wrapper of every rule callback, so it sees the *unfiltered* children; the inner chain (`ChildFilter`, `ExpandSingleChild`)
    returns either a new tree or — for a collapsing `?rule` — one of the (possibly spliced) children.
    `evalP` is the executable model (the driver's `positions` op runs it against real `Tree.meta` on every case);
    `evalP_inv` proves that, outside the decidable region of finding F19 (`cleanB`), every non-empty tree's own meta is exactly the span of what the rule
    that built it matched (filtered tokens included), and its container span is the span of the derivation that returned it. -/
namespace PosProto
open ShapeProto (SymInfo RuleInfo D included toExpand runs)

abbrev Span := Option (Nat × Nat)

/-- what a rule callback returns, as far as positions are concerned.  `own` is a ghost field: the span of what the rule that *built* the tree
    matched (lark does not store it; the theorem is `mt = own`). -/
inductive PV where
  | tok (s e : Nat)
  | tree (own mt cont : Span) (kids : List PV)
  | none

def kidsOf : PV → List PV
  | .tree _ _ _ ks => ks
  | _ => []

/-- `ChildFilter.__call__` with the `None` plan, as in `ShapeProto.applyPlan` -/
def applyPlanP (keepAll : Bool) : List Nat → List (SymInfo × PV) → Nat → List PV
  | r :: rs, (s, c) :: cs, acc =>
      if included keepAll s then
        List.replicate (acc + r) PV.none ++ (if toExpand s then kidsOf c else [c]) ++ applyPlanP keepAll rs cs 0
      else applyPlanP keepAll rs cs (acc + r)
  | r :: _, [], acc => List.replicate (acc + r) PV.none
  | [], _, acc => List.replicate acc PV.none

/-- `ExpandSingleChild` / tree construction, as in `ShapeProto.finish`; a new tree starts with an empty meta -/
def finishP (expand1 : Bool) (alias : Option Nat) (own : Span) (kids : List PV) : PV :=
  match expand1, alias, kids with
  | true, Option.none, [k] => k
  | _, _, _ => PV.tree own Option.none Option.none kids

/-- combine the spans of consecutive pieces -/
def join : Span → Span → Span
  | Option.none, b => b
  | a, Option.none => a
  | some (s, _), some (_, e) => some (s, e)

/-- SPEC: the span of everything a forest matched; a leaf `D.leaf s start end rest` is a token occupying `[start, end)` -/
def span : D → Span
  | .nil => Option.none
  | .leaf _ s e rest => join (some (s, e)) (span rest)
  | .node _ _ kids rest => join (span kids) (span rest)

def spans : D → List Span
  | .nil => []
  | .leaf _ s e rest => some (s, e) :: spans rest
  | .node _ _ kids rest => span kids :: spans rest

/-- `_pp_get_meta` on one child: a token counts with its own span, a tree only if its meta is not `empty`, and then with its container span
    (`getattr(meta, 'container_…', meta.…)`) -/
def cand : PV → Span
  | .tok s e => some (s, e)
  | .tree _ mt cont _ => match mt with
    | Option.none => Option.none
    | some m => some (cont.getD m)
  | .none => Option.none

def firstStart : List PV → Option Nat
  | [] => Option.none
  | v :: vs => match cand v with
    | some (s, _) => some s
    | Option.none => firstStart vs

def lastEnd : List PV → Option Nat
  | [] => Option.none
  | v :: vs => match lastEnd vs with
    | some e => some e
    | Option.none => (cand v).map (·.2)

/-- `PropagatePositions.__call__` on the result `res` of the inner chain, given the unfiltered children values.
    (Start and end fields are written separately in the code; `first_meta` and `last_meta` range over the same candidates, so either both exist or neither.) -/
def propagate (res : PV) (vs : List PV) : PV :=
  match res with
  | .tree own mt _ ks =>
    match firstStart vs, lastEnd vs with
    | some s, some e => .tree own (match mt with | some m => some m | Option.none => some (s, e)) (some (s, e)) ks
    | _, _ => res
  | v => v

/-- the values of the trees of a forest, in order: what the parser's value stack holds -/
def evalP : D → List (SymInfo × PV)
  | .nil => []
  | .leaf s a b rest => (s, PV.tok a b) :: evalP rest
  | .node s r kids rest =>
      (s, propagate (finishP r.expand1 r.alias (span kids) (applyPlanP r.keepAll (runs r.markers) (evalP kids) 0)) ((evalP kids).map (·.2)))
        :: evalP rest

/-- the region of known finding F19, per node, on the result of the inner chain: a `?rule` collapses to a token (or to a `None` placeholder)
    narrower than what it matched.  (A returned *tree* needs no condition: its container span is overwritten with the node's span.) -/
def nodeOK (res : PV) (sp : Span) : Bool :=
  match res with
  | .tok s e => sp == some (s, e)
  | .none => sp == Option.none
  | .tree _ _ _ _ => true

def cleanB : D → Bool
  | .nil => true
  | .leaf _ _ _ rest => cleanB rest
  | .node _ r kids rest =>
      cleanB kids && cleanB rest &&
      nodeOK (finishP r.expand1 r.alias (span kids) (applyPlanP r.keepAll (runs r.markers) (evalP kids) 0)) (span kids)

/-- exactness, deep: the meta of a tree whose rule matched at least one token is the span of what that rule matched (`own`); positions are set
    together; a tree that matched nothing holds nothing with a position; and the same for every child.
    (A tree that matched nothing may be handed its inlining `?rule`'s span — the property speaks of non-empty nodes.) -/
inductive Exact : PV → Prop
  | tok (s e) : Exact (.tok s e)
  | none : Exact .none
  | tree (own mt cont ks) : (own ≠ Option.none → mt = own) → (mt = Option.none → cont = Option.none) → (own = Option.none → ∀ k ∈ ks, cand k = Option.none) →
      (∀ k ∈ ks, Exact k) → Exact (.tree own mt cont ks)

theorem join_none_right (a : Span) : join a Option.none = a := by cases a <;> rfl

theorem span_eq_fold : ∀ d : D, span d = (spans d).foldr join Option.none := by
  intro d
  induction d with
  | nil => rfl
  | leaf _ s e rest ih => simp [span, spans, ih]
  | node _ _ kids rest _ ih => simp [span, spans, ih]

/-- a joined span is empty only if every piece is -/
theorem all_none_of_fold : ∀ l : List Span, l.foldr join Option.none = Option.none → ∀ sp ∈ l, sp = Option.none := by
  intro l
  induction l with
  | nil => intro _ sp h; cases h
  | cons a l ih =>
    intro h sp hsp
    simp only [List.foldr_cons] at h
    cases a with
    | none =>
      rcases List.mem_cons.mp hsp with rfl | hm
      · rfl
      · exact ih (by simpa [join] using h) sp hm
    | some p => cases hfo : l.foldr join Option.none <;> simp [join, hfo] at h

/-- start of the first and end of the last positioned child are the ends of the joined span -/
theorem firstStart_lastEnd_of_cand : ∀ (vs : List PV) (sps : List Span), vs.map cand = sps →
    (firstStart vs = (sps.foldr join Option.none).map (·.1)) ∧ (lastEnd vs = (sps.foldr join Option.none).map (·.2)) := by
  intro vs
  induction vs with
  | nil => intro sps h; subst h; exact ⟨rfl, rfl⟩
  | cons v vs ih =>
    intro sps h
    cases sps with
    | nil => simp at h
    | cons sp sps' =>
      simp only [List.map_cons, List.cons.injEq] at h
      obtain ⟨h1, h2⟩ := h
      obtain ⟨ihf, ihl⟩ := ih sps' h2
      simp only [firstStart, lastEnd, List.foldr_cons, h1, ihf, ihl]
      cases sp with
      | none =>
        cases hj : sps'.foldr join Option.none <;> simp [join]
      | some p =>
        obtain ⟨s, e⟩ := p
        cases hj : sps'.foldr join Option.none with
        | none => simp [join]
        | some q => obtain ⟨s', e'⟩ := q; simp [join]

/-- what `ChildFilter` hands on is made of `None`s, children, and children of (inlined) children -/
theorem mem_applyPlanP (keepAll : Bool) : ∀ (rs : List Nat) (cs : List (SymInfo × PV)) (acc : Nat) (x : PV),
    x ∈ applyPlanP keepAll rs cs acc → x = PV.none ∨ ∃ sc ∈ cs, x = sc.2 ∨ x ∈ kidsOf sc.2 := by
  intro rs
  induction rs with
  | nil =>
    intro cs acc x h
    simp only [applyPlanP] at h
    exact Or.inl (List.eq_of_mem_replicate h)
  | cons r rs ih =>
    intro cs acc x h
    cases cs with
    | nil =>
      simp only [applyPlanP] at h
      exact Or.inl (List.eq_of_mem_replicate h)
    | cons sc cs' =>
      obtain ⟨s, c⟩ := sc
      simp only [applyPlanP] at h
      split at h
      · simp only [List.mem_append] at h
        rcases h with (h | h) | h
        · exact Or.inl (List.eq_of_mem_replicate h)
        · refine Or.inr ⟨(s, c), List.mem_cons_self .., ?_⟩
          split at h
          · exact Or.inr h
          · exact Or.inl (by simpa using h)
        · rcases ih cs' 0 x h with h' | ⟨sc, hm, h'⟩
          · exact Or.inl h'
          · exact Or.inr ⟨sc, List.mem_cons_of_mem _ hm, h'⟩
      · rcases ih cs' _ x h with h' | ⟨sc, hm, h'⟩
        · exact Or.inl h'
        · exact Or.inr ⟨sc, List.mem_cons_of_mem _ hm, h'⟩

theorem Exact.kids {own mt cont ks} (h : Exact (.tree own mt cont ks)) : ∀ k ∈ ks, Exact k := by
  cases h with | tree _ _ _ _ _ _ _ hk => exact hk

theorem exact_kidsOf {v : PV} (h : Exact v) : ∀ k ∈ kidsOf v, Exact k := by
  cases v with
  | tok s e => intro k hk; cases hk
  | none => intro k hk; cases hk
  | tree own mt cont ks => exact h.kids

/-- a value without a position that is `Exact` holds nothing with a position one level down -/
theorem cand_kidsOf_none {v : PV} (h : Exact v) (hc : cand v = Option.none) : ∀ k ∈ kidsOf v, cand k = Option.none := by
  cases h with
  | tok s e => simp [cand] at hc
  | none => intro k hk; cases hk
  | tree own mt cont ks hmo _ hblank _ =>
    have : mt = Option.none := by
      cases mt with
      | none => rfl
      | some m => simp [cand] at hc
    apply hblank
    cases hown : own with
    | none => rfl
    | some o =>
      have h1 := hmo (by rw [hown]; simp)
      rw [this, hown] at h1
      cases h1

/-- **Main invariant.** Outside the region of F19, for every value on the stack: the span it occupies as seen by its parent (token span /
    tree container) is the span of the derivation that returned it, and every tree in it (deep) has `meta = ` the span of what its rule matched. -/
theorem evalP_inv : ∀ d : D, cleanB d = true →
    ((evalP d).map (fun x => cand x.2) = spans d) ∧ (∀ x ∈ evalP d, Exact x.2) := by
  intro d
  induction d with
  | nil => intro _; exact ⟨by simp [evalP, spans], by intro x hx; cases hx⟩
  | leaf s a b rest ih =>
    intro h
    obtain ⟨h1, h2⟩ := ih (by simpa [cleanB] using h)
    refine ⟨by simp only [evalP, spans, List.map_cons, h1]; rfl, ?_⟩
    intro x hx
    simp only [evalP, List.mem_cons] at hx
    rcases hx with rfl | hx
    · exact Exact.tok a b
    · exact h2 x hx
  | node s r kids rest ihk ihr =>
    intro h
    simp only [cleanB, Bool.and_eq_true] at h
    obtain ⟨⟨hk, hr⟩, hok⟩ := h
    obtain ⟨hr1, hr2⟩ := ihr hr
    obtain ⟨hk1, hk2⟩ := ihk hk
    have hvs : ((evalP kids).map (·.2)).map cand = spans kids := by rw [List.map_map]; exact hk1
    obtain ⟨hf, hl⟩ := firstStart_lastEnd_of_cand _ _ hvs
    rw [← span_eq_fold] at hf hl
    -- everything the inner chain can hand on is exact, and positionless if the node matched nothing
    have hmem : ∀ x ∈ applyPlanP r.keepAll (runs r.markers) (evalP kids) 0, Exact x ∧ (span kids = Option.none → cand x = Option.none) := by
      intro x hx
      rcases mem_applyPlanP _ _ _ _ x hx with rfl | ⟨sc, hsc, hx'⟩
      · exact ⟨Exact.none, fun _ => rfl⟩
      · have hcn : span kids = Option.none → cand sc.2 = Option.none := by
          intro hsp
          have hall := all_none_of_fold (spans kids) (by rw [← span_eq_fold]; exact hsp)
          apply hall
          rw [← hk1]
          exact List.mem_map.mpr ⟨sc, hsc, rfl⟩
        rcases hx' with rfl | hx'
        · exact ⟨hk2 sc hsc, hcn⟩
        · exact ⟨exact_kidsOf (hk2 sc hsc) x hx', fun hsp => cand_kidsOf_none (hk2 sc hsc) (hcn hsp) x hx'⟩
    -- the value this node returns
    have key : cand (propagate (finishP r.expand1 r.alias (span kids) (applyPlanP r.keepAll (runs r.markers) (evalP kids) 0)) ((evalP kids).map (·.2))) = span kids
        ∧ Exact (propagate (finishP r.expand1 r.alias (span kids) (applyPlanP r.keepAll (runs r.markers) (evalP kids) 0)) ((evalP kids).map (·.2))) := by
      generalize hks : applyPlanP r.keepAll (runs r.markers) (evalP kids) 0 = ks at hmem hok
      -- the result is a fresh tree over `ks`, or the single member of `ks`
      have hres : finishP r.expand1 r.alias (span kids) ks = PV.tree (span kids) Option.none Option.none ks ∨
          ∃ k, ks = [k] ∧ finishP r.expand1 r.alias (span kids) ks = k := by
        unfold finishP
        split
        · exact Or.inr ⟨_, rfl, rfl⟩
        · exact Or.inl rfl
      rcases hres with hres | ⟨k, hk', hres⟩
      · -- a new tree
        rw [hres]
        cases hsp : span kids with
        | none =>
          rw [hsp] at hf hl
          simp only [Option.map_none] at hf hl
          simp only [propagate, hf, cand, true_and]
          exact Exact.tree _ _ _ _ (fun h => absurd rfl h) (fun _ => rfl) (fun _ k hk => (hmem k hk).2 hsp) (fun k hk => (hmem k hk).1)
        | some p =>
          obtain ⟨s', e'⟩ := p
          rw [hsp] at hf hl
          simp only [Option.map_some] at hf hl
          simp only [propagate, hf, hl, cand, Option.getD_some, true_and]
          exact Exact.tree _ _ _ _ (fun _ => rfl) (by intro h; cases h) (by intro h; cases h) (fun k hk => (hmem k hk).1)
      · -- a collapsing `?rule`: the single child is returned
        rw [hres] at hok ⊢
        obtain ⟨hex, hcn⟩ := hmem k (by rw [hk']; exact List.mem_cons_self ..)
        cases k with
        | tok s' e' =>
          simp only [nodeOK, beq_iff_eq] at hok
          simp [propagate, cand, hok, Exact.tok]
        | none =>
          simp only [nodeOK, beq_iff_eq] at hok
          simp [propagate, cand, hok, Exact.none]
        | tree own mt cont ks' =>
          cases hex with
          | tree _ _ _ _ hmo hmc hblank hkids =>
          cases hsp : span kids with
          | none =>
            rw [hsp] at hf hl
            simp only [Option.map_none] at hf hl
            simp only [propagate, hf]
            exact ⟨hcn hsp, Exact.tree _ _ _ _ hmo hmc hblank hkids⟩
          | some p =>
            obtain ⟨s', e'⟩ := p
            rw [hsp] at hf hl hok
            simp only [Option.map_some] at hf hl
            simp only [propagate, hf, hl]
            cases mt with
            | some m =>
              refine ⟨by simp [cand], Exact.tree _ _ _ _ hmo (by intro h; cases h) hblank hkids⟩
            | none =>
              refine ⟨by simp [cand], Exact.tree _ _ _ _ (fun h => absurd (hmo h).symm h) (by intro h; cases h) hblank hkids⟩
    refine ⟨?_, ?_⟩
    · simp only [evalP, spans, List.map_cons, hr1, key.1]
    · intro x hx
      simp only [evalP, List.mem_cons] at hx
      rcases hx with rfl | hx
      · exact key.2
      · exact hr2 x hx

/-- the preorder list of (own meta, span of what the building rule matched) over all trees of a value — what the driver prints -/
def metas : PV → List (Span × Span)
  | .tok _ _ => []
  | .none => []
  | .tree own mt _ ks => (mt, own) :: metasL ks
where metasL : List PV → List (Span × Span)
  | [] => []
  | k :: ks => metas k ++ metasL ks

theorem metasL_exact : ∀ l : List PV, (∀ k ∈ l, ∀ p ∈ metas k, p.2 ≠ Option.none → p.1 = p.2) → ∀ p ∈ metas.metasL l, p.2 ≠ Option.none → p.1 = p.2 := by
  intro l
  induction l with
  | nil => intro _ p hp; cases hp
  | cons k ks ih =>
    intro h p hp
    simp only [metas.metasL, List.mem_append] at hp
    rcases hp with hp | hp
    · exact h k (List.mem_cons_self ..) p hp
    · exact ih (fun k' hk' => h k' (List.mem_cons_of_mem _ hk')) p hp

/-- **Tree meta is exact**: in an `Exact` value the meta of every tree whose rule matched something is the span of what that rule matched -/
theorem metas_exact : ∀ v : PV, Exact v → ∀ p ∈ metas v, p.2 ≠ Option.none → p.1 = p.2 := by
  intro v h
  induction h with
  | tok s e => intro p hp; cases hp
  | none => intro p hp; cases hp
  | tree own mt cont ks hmo _ _ _ ih =>
    intro p hp
    simp only [metas, List.mem_cons] at hp
    rcases hp with rfl | hp
    · exact hmo
    · exact metasL_exact ks ih p hp

end PosProto
