import LarkVerif.Transform
/-! C16: `Transformer_InPlace` (lark/visitors.py:274).  It walks `tree.iter_subtrees()` and replaces, for each subtree, the children list by the
    transformed children, calling the callback of a child subtree on that child's *current* (already replaced) children; finally it calls the root's
    callback.  The model abstracts the walk as any sequence of such steps in which a node is processed only after its child subtrees (what
    `iter_subtrees` guarantees and the correspondence observes); the theorem: whatever the order, the result is the recursive transformer's. -/
namespace TrProto

variable {V : Type}

/-- a forest in the middle of an in-place run: `done = some vs` when the node's children list has been replaced by the values `vs` -/
inductive MF (V : Type) where
  | nil
  | leaf (tok : Nat) (rest : MF V)
  | node (data : Nat) (done : Option (List V)) (kids : MF V) (rest : MF V)

/-- the original tree -/
def MF.erase : MF V → Forest
  | .nil => .nil
  | .leaf t rest => .leaf t rest.erase
  | .node d _ kids rest => .node d kids.erase rest.erase

/-- the tree before the run -/
def MF.ofForest : Forest → MF V
  | .nil => .nil
  | .leaf t rest => .leaf t (MF.ofForest rest)
  | .node d kids rest => .node d none (MF.ofForest kids) (MF.ofForest rest)

/-- `_transform_children` on a children list whose subtrees have all been processed: callbacks on the replaced children lists; `none` if one has not -/
def MF.vals (f : Nat → List V → V) (g : Nat → V) : MF V → Option (List V)
  | .nil => some []
  | .leaf t rest => (MF.vals f g rest).map (g t :: ·)
  | .node d (some vs) _ rest => (MF.vals f g rest).map (f d vs :: ·)
  | .node _ none _ _ => none

/-- one step of the walk: some not yet processed node all of whose child subtrees are processed gets its children list replaced -/
inductive Step (f : Nat → List V → V) (g : Nat → V) : MF V → MF V → Prop
  | here (d kids rest vs) : MF.vals f g kids = some vs → Step f g (.node d none kids rest) (.node d (some vs) kids rest)
  | inKids (d o kids kids' rest) : Step f g kids kids' → Step f g (.node d o kids rest) (.node d o kids' rest)
  | inRestN (d o kids rest rest') : Step f g rest rest' → Step f g (.node d o kids rest) (.node d o kids rest')
  | inRestL (t rest rest') : Step f g rest rest' → Step f g (.leaf t rest) (.leaf t rest')

inductive Steps (f : Nat → List V → V) (g : Nat → V) : MF V → MF V → Prop
  | refl (m) : Steps f g m m
  | step (a b c) : Step f g a b → Steps f g b c → Steps f g a c

/-- every replaced children list holds the recursive transformer's values of the original children -/
def Good (f : Nat → List V → V) (g : Nat → V) : MF V → Prop
  | .nil => True
  | .leaf _ rest => Good f g rest
  | .node _ o kids rest => (∀ vs, o = some vs → vs = tr f g kids.erase) ∧ Good f g kids ∧ Good f g rest

theorem vals_eq_tr (f : Nat → List V → V) (g : Nat → V) : ∀ (m : MF V) (vs : List V), Good f g m → MF.vals f g m = some vs → vs = tr f g m.erase := by
  intro m
  induction m with
  | nil => intro vs _ h; simp [MF.vals] at h; subst h; rfl
  | leaf t rest ih =>
    intro vs hg h
    simp only [MF.vals, Option.map_eq_some_iff] at h
    obtain ⟨vr, hr, rfl⟩ := h
    simp [MF.erase, tr, ih vr hg hr]
  | node d o kids rest _ ihr =>
    intro vs hg h
    obtain ⟨ho, _, hgr⟩ := hg
    cases o with
    | none => simp [MF.vals] at h
    | some vk =>
      simp only [MF.vals, Option.map_eq_some_iff] at h
      obtain ⟨vr, hr, rfl⟩ := h
      simp [MF.erase, tr, ihr vr hgr hr, ho vk rfl]

theorem step_erase {f : Nat → List V → V} {g : Nat → V} {a b : MF V} (h : Step f g a b) : b.erase = a.erase := by
  induction h with
  | here => rfl
  | inKids _ _ _ _ _ _ ih => simp [MF.erase, ih]
  | inRestN _ _ _ _ _ _ ih => simp [MF.erase, ih]
  | inRestL _ _ _ _ ih => simp [MF.erase, ih]

theorem step_good {f : Nat → List V → V} {g : Nat → V} {a b : MF V} (h : Step f g a b) : Good f g a → Good f g b := by
  induction h with
  | here d kids rest vs hv =>
    intro hg
    obtain ⟨_, hk, hr⟩ := hg
    refine ⟨?_, hk, hr⟩
    intro vs' h'
    cases h'
    exact vals_eq_tr f g kids vs hk hv
  | inKids d o kids kids' rest hs ih =>
    intro hg
    obtain ⟨ho, hk, hr⟩ := hg
    exact ⟨by rw [step_erase hs]; exact ho, ih hk, hr⟩
  | inRestN d o kids rest rest' _ ih =>
    intro hg
    exact ⟨hg.1, hg.2.1, ih hg.2.2⟩
  | inRestL t rest rest' _ ih => intro hg; exact ih hg

theorem steps_good {f : Nat → List V → V} {g : Nat → V} {a b : MF V} (h : Steps f g a b) : Good f g a → Good f g b ∧ b.erase = a.erase := by
  induction h with
  | refl m => intro hg; exact ⟨hg, rfl⟩
  | step a b c hs _ ih =>
    intro hg
    obtain ⟨h1, h2⟩ := ih (step_good hs hg)
    exact ⟨h1, by rw [h2, step_erase hs]⟩

theorem good_ofForest (f : Nat → List V → V) (g : Nat → V) : ∀ F : Forest, Good f g (MF.ofForest F : MF V) := by
  intro F
  induction F with
  | nil => trivial
  | leaf t rest ih => exact ih
  | node d kids rest ihk ihr => exact ⟨(by intro vs h; cases h), ihk, ihr⟩

theorem erase_ofForest : ∀ F : Forest, (MF.ofForest F : MF V).erase = F := by
  intro F
  induction F with
  | nil => rfl
  | leaf t rest ih => simp [MF.ofForest, MF.erase, ih]
  | node d kids rest ihk ihr => simp [MF.ofForest, MF.erase, ihk, ihr]

/-- **`Transformer_InPlace` = `Transformer`.** Start from the tree `node d kids`; let the walk replace children lists in any order that processes a
    node after its child subtrees; when the root's list has been replaced by `vs`, the final `_transform_tree(root)` = `f d vs` is the recursive
    transformer's result. -/
theorem inplace_eq_recursive (f : Nat → List V → V) (g : Nat → V) (d : Nat) (kids : Forest) (kids' : MF V) (vs : List V)
    (hrun : Steps f g (MF.ofForest (.node d kids .nil)) (.node d (some vs) kids' .nil)) :
    [f d vs] = tr f g (.node d kids .nil) := by
  obtain ⟨hg, he⟩ := steps_good hrun (good_ofForest f g _)
  have h1 := hg.1 vs rfl
  rw [erase_ofForest] at he
  simp only [MF.erase, Forest.node.injEq, true_and, and_true] at he
  simp [tr, h1, he]

-- (`Transformer_InPlaceRecursive._transform_tree` assigns `tree.children` and returns `f d (transformed children)`: as a function of a proper tree it is `tr`
-- itself, so there is nothing to state beyond the definition; its agreement with the other variants is observed by the correspondence.)


-- non-vacuity: `0(tok 1, 2(tok 3))` — the inner node is processed first, then the root; callbacks are free constructors
example : Steps (V := List Nat) (fun d vs => d :: vs.flatten) (fun t => [t])
    (MF.ofForest (.node 0 (.leaf 1 (.node 2 (.leaf 3 .nil) .nil)) .nil))
    (.node 0 (some [[1], [2, 3]]) (.leaf 1 (.node 2 (some [[3]]) (.leaf 3 .nil) .nil)) .nil) :=
  Steps.step _ _ _ (Step.inKids _ _ _ _ _ (Step.inRestL _ _ _ (Step.here _ _ _ _ rfl)))
    (Steps.step _ _ _ (Step.here _ _ _ _ rfl) (Steps.refl _))

end TrProto
