import LarkVerif.LR
namespace LRProto
open EarleyProto

abbrev Cfg := List Nat × List (Sym × List Nat) × List Nat     -- states (top first), values, remaining input (eof last)

/-- one driver action (lark/parsers/lalr_parser_state.py:74-109, one loop iteration) -/
inductive Step (T : Table) : Cfg → Cfg → Prop
  | shift (q ss vals t rest q') : T.action q t = some (Action.shift q') →
      Step T (q :: ss, vals, t :: rest) (q' :: q :: ss, (Sym.t t, [t]) :: vals, rest)
  | reduce (q ss vals t rest r p ss' p') : T.action q t = some (Action.reduce r) →
      (q :: ss).drop r.rhs.length = p :: ss' → T.goto p r.lhs = some p' →
      Step T (q :: ss, vals, t :: rest)
             (p' :: p :: ss', (Sym.nt r.lhs, yieldOf (vals.take r.rhs.length)) :: vals.drop r.rhs.length, t :: rest)

inductive Steps (T : Table) : Cfg → Cfg → Prop
  | refl (a) : Steps T a a
  | head (a b c) : Step T a b → Steps T b c → Steps T a c

theorem Steps.trans {T : Table} {a b c} (h1 : Steps T a b) (h2 : Steps T b c) : Steps T a c := by
  induction h1 with
  | refl => exact h2
  | head a b _ hs _ ih => exact Steps.head a b c hs (ih h2)

theorem Steps.single {T : Table} {a b} (h : Step T a b) : Steps T a b := Steps.head a b b h (Steps.refl b)

/-- `c` can be the first token of (a string derived from `γ`) followed by a lookahead in `L` -/
def FirstOf (G : Grammar) (γ : List Sym) (L : Nat → Prop) (c : Nat) : Prop :=
  ∃ u, DerivesSeq G γ u ∧ (u.head? = some c ∨ (u = [] ∧ L c))

theorem FirstOf.mono {G γ} {L L' : Nat → Prop} {c} (h : FirstOf G γ L c) (hL : ∀ x, L x → L' x) : FirstOf G γ L' c := by
  obtain ⟨u, hd, h⟩ := h
  exact ⟨u, hd, h.imp id (fun ⟨h1, h2⟩ => ⟨h1, hL c h2⟩)⟩

/-- the completeness certificate over an item-lookahead annotation `la` -/
structure TableClosed (G : Grammar) (T : Table) (s0 eof : Nat) (la : Nat → Rule × Nat → Nat → Prop) : Prop where
  closure : ∀ q r d B, (r, d) ∈ T.items q → r.rhs[d]? = some (Sym.nt B) → ∀ r' ∈ G.rules, r'.lhs = B →
      (r', 0) ∈ T.items q ∧ ∀ c, FirstOf G (r.rhs.drop (d+1)) (la q (r, d)) c → la q (r', 0) c
  goto : ∀ q r d X, (r, d) ∈ T.items q → r.rhs[d]? = some X →
      ∃ q', T.trans q X q' ∧ (r, d+1) ∈ T.items q' ∧ ∀ c, la q (r, d) c → la q' (r, d+1) c
  reduce : ∀ q r c, (r, r.rhs.length) ∈ T.items q → la q (r, r.rhs.length) c → T.action q c = some (Action.reduce r)
  start : ∀ r ∈ G.rules, r.lhs = s0 → (r, 0) ∈ T.items T.start ∧ la T.start (r, 0) eof
  accept : T.goto T.start s0 = some T.final

/-- the item `(r, d)` sits in the top state with at least the lookaheads `L` -/
def ItemAt (T : Table) (la : Nat → Rule × Nat → Nat → Prop) (states : List Nat) (r : Rule) (d : Nat) (L : Nat → Prop) : Prop :=
  ∃ q tl, states = q :: tl ∧ (r, d) ∈ T.items q ∧ ∀ x, L x → la q (r, d) x

theorem drop_head?_of_append {β γ : List Sym} {l : List Sym} {d : Nat} (h : l.drop d = β ++ γ) :
    ∀ X β', β = X :: β' → l[d]? = some X ∧ l.drop (d+1) = β' ++ γ := by
  intro X β' hβ
  subst hβ
  constructor
  · have := congrArg List.head? h
    simpa [List.head?_drop] using this
  · have h2 : l.drop (d+1) = (l.drop d).tail := by simp [List.tail_drop]
    rw [h2, h]; rfl

/-- The engine of completeness: the driver consumes the yield of `β`. -/
theorem consume {G : Grammar} {T : Table} {s0 eof : Nat} {la} (hC : TableClosed G T s0 eof la) :
    ∀ {β : List Sym} {u : List Nat}, DerivesSeq G β u →
    ∀ (q : Nat) (ss : List Nat) (vals : List (Sym × List Nat)) (r : Rule) (d : Nat) (γ : List Sym) (c : Nat) (rest : List Nat),
      (r, d) ∈ T.items q → r.rhs.drop d = β ++ γ → FirstOf G γ (la q (r, d)) c →
      ∃ ns nv, ns.length = β.length ∧ nv.length = β.length ∧
        Steps T (q :: ss, vals, u ++ c :: rest) (ns ++ q :: ss, nv ++ vals, c :: rest) ∧
        ItemAt T la (ns ++ q :: ss) r (d + β.length) (la q (r, d)) := by
  intro β u h
  induction h with
  | nil =>
    intro q ss vals r d γ c rest hi _ _
    exact ⟨[], [], rfl, rfl, Steps.refl _, q, ss, rfl, by simpa using hi, fun x hx => by simpa using hx⟩
  | term a β' ts _ ih =>
    intro q ss vals r d γ c rest hi hdrop hF
    obtain ⟨hd, hdrop'⟩ := drop_head?_of_append hdrop (Sym.t a) β' rfl
    obtain ⟨q1, htr, hi1, hla1⟩ := hC.goto q r d (Sym.t a) hi hd
    obtain ⟨ns, nv, hns, hnv, hsteps, q', tl, hq', hi', hla'⟩ :=
      ih q1 (q :: ss) ((Sym.t a, [a]) :: vals) r (d+1) γ c rest hi1 hdrop' (hF.mono hla1)
    refine ⟨ns ++ [q1], nv ++ [(Sym.t a, [a])], by simp [hns], by simp [hnv], ?_, q', tl, by simpa using hq', ?_, ?_⟩
    · have hs : Step T (q :: ss, vals, (a :: ts) ++ c :: rest) (q1 :: q :: ss, (Sym.t a, [a]) :: vals, ts ++ c :: rest) :=
        Step.shift q ss vals a (ts ++ c :: rest) q1 htr
      have := Steps.head _ _ _ hs hsteps
      simpa [List.append_assoc] using this
    · have : d + 1 + β'.length = d + (β'.length + 1) := by omega
      simpa [this] using hi'
    · intro x hx
      have : d + 1 + β'.length = d + (β'.length + 1) := by omega
      simpa [this] using hla' x (hla1 x hx)
  | nonterm r' β' ts1 ts2 hr' hd1 hd2 ih1 ih2 =>
    intro q ss vals r d γ c rest hi hdrop hF
    obtain ⟨hd, hdrop'⟩ := drop_head?_of_append hdrop (Sym.nt r'.lhs) β' rfl
    obtain ⟨hi0, hcl⟩ := hC.closure q r d r'.lhs hi hd r' hr' rfl
    obtain ⟨q1, htr, hi1, hla1⟩ := hC.goto q r d (Sym.nt r'.lhs) hi hd
    -- the token that follows `ts1`
    obtain ⟨c1, rest1, hc1⟩ : ∃ c1 rest1, ts2 ++ c :: rest = c1 :: rest1 := by
      cases ts2 with
      | nil => exact ⟨c, rest, rfl⟩
      | cons x xs => exact ⟨x, xs ++ c :: rest, rfl⟩
    have hla_c1 : la q (r', 0) c1 := by
      apply hcl
      rw [hdrop']
      obtain ⟨w, hw, hwc⟩ := hF
      refine ⟨ts2 ++ w, DerivesSeq.append hd2 hw, ?_⟩
      cases ts2 with
      | nil =>
        simp only [List.nil_append, List.cons.injEq] at hc1 ⊢
        obtain ⟨rfl, _⟩ := hc1
        exact hwc
      | cons x xs =>
        simp only [List.cons_append, List.cons.injEq] at hc1
        obtain ⟨rfl, _⟩ := hc1
        exact Or.inl rfl
    -- consume the body of r'
    obtain ⟨ns1, nv1, hns1, hnv1, hsteps1, qn, tln, hqn, hin, hlan⟩ :=
      ih1 q ss vals r' 0 [] c1 rest1 hi0 (by simp) ⟨[], DerivesSeq.nil, Or.inr ⟨rfl, hla_c1⟩⟩
    simp only [Nat.zero_add] at hin hlan
    have hact := hC.reduce qn r' c1 hin (hlan c1 hla_c1)
    have hgoto : T.goto q r'.lhs = some q1 := by simpa [Table.trans] using htr
    have hred : Step T (ns1 ++ q :: ss, nv1 ++ vals, c1 :: rest1)
        (q1 :: q :: ss, (Sym.nt r'.lhs, yieldOf ((nv1 ++ vals).take r'.rhs.length)) :: (nv1 ++ vals).drop r'.rhs.length, c1 :: rest1) := by
      rw [hqn]
      refine Step.reduce qn tln (nv1 ++ vals) c1 rest1 r' q ss q1 hact ?_ hgoto
      rw [← hqn, List.drop_left' hns1]
    have hvals : (nv1 ++ vals).drop r'.rhs.length = vals := List.drop_left' hnv1
    rw [hvals] at hred
    -- continue with β' from q1
    obtain ⟨ns2, nv2, hns2, hnv2, hsteps2, q', tl, hq', hi', hla'⟩ :=
      ih2 q1 (q :: ss) ((Sym.nt r'.lhs, yieldOf ((nv1 ++ vals).take r'.rhs.length)) :: vals) r (d+1) γ c rest hi1 hdrop' (hF.mono hla1)
    refine ⟨ns2 ++ [q1], nv2 ++ [(Sym.nt r'.lhs, yieldOf ((nv1 ++ vals).take r'.rhs.length))], by simp [hns2], by simp [hnv2], ?_, q', tl, by simpa using hq', ?_, ?_⟩
    · have e2 : ts2 ++ c :: rest = c1 :: rest1 := hc1
      rw [← e2] at hred
      rw [← e2] at hsteps1
      have := (hsteps1.trans (Steps.single hred)).trans hsteps2
      simpa [List.append_assoc] using this
    · have : d + 1 + β'.length = d + (β'.length + 1) := by omega
      simpa [this] using hi'
    · intro x hx
      have : d + 1 + β'.length = d + (β'.length + 1) := by omega
      simpa [this] using hla' x (hla1 x hx)


/-- "the driver started here accepts within `n` actions" -/
inductive Run (T : Table) (eof : Nat) : Nat → Cfg → Prop
  | acc (q ss vals r p ss') : T.action q eof = some (Action.reduce r) →
      (q :: ss).drop r.rhs.length = p :: ss' → T.goto p r.lhs = some T.final →
      Run T eof 0 (q :: ss, vals, [eof])
  | shift (n q ss vals t t' rest q') : T.action q t = some (Action.shift q') →
      Run T eof n (q' :: q :: ss, (Sym.t t, [t]) :: vals, t' :: rest) →
      Run T eof (n+1) (q :: ss, vals, t :: t' :: rest)
  | reduce (n q ss vals t rest r p ss' p') : T.action q t = some (Action.reduce r) →
      (q :: ss).drop r.rhs.length = p :: ss' → T.goto p r.lhs = some p' →
      Run T eof n (p' :: p :: ss', (Sym.nt r.lhs, yieldOf (vals.take r.rhs.length)) :: vals.drop r.rhs.length, t :: rest) →
      Run T eof (n+1) (q :: ss, vals, t :: rest)

/-- a sequence of driver actions that does not shift the last token, followed by a run, is a run -/
theorem Run.of_steps {T : Table} {eof : Nat} {a b : Cfg} (h : Steps T a b) :
    ∀ n, Run T eof n b → ∃ m, Run T eof m a := by
  intro n hr
  induction h generalizing n with
  | refl => exact ⟨n, hr⟩
  | head a b c hs _ ih =>
    obtain ⟨m, hm⟩ := ih n hr
    cases hs with
    | shift q ss vals t rest q' hact =>
      -- the run from `b` has non-empty input, so `rest` is non-empty
      cases rest with
      | nil => cases hm
      | cons t' rest' => exact ⟨m+1, Run.shift m q ss vals t t' rest' q' hact hm⟩
    | reduce q ss vals t rest r p ss' p' hact hdrop hgoto =>
      exact ⟨m+1, Run.reduce m q ss vals t rest r p ss' p' hact hdrop hgoto hm⟩

/-- every sentence has an accepting run (small-step completeness) -/
theorem complete_run {G : Grammar} {T : Table} {s0 eof : Nat} {la} (hC : TableClosed G T s0 eof la)
    (toks : List Nat) (h : DerivesSeq G [Sym.nt s0] toks) :
    ∃ n, Run T eof n ([T.start], [], toks ++ [eof]) := by
  have hinv : ∃ r ∈ G.rules, r.lhs = s0 ∧ DerivesSeq G r.rhs toks := by
    generalize hα : [Sym.nt s0] = α at h
    cases h with
    | nil => cases hα
    | term => cases hα
    | nonterm r rest ts1 ts2 hr h1 h2 =>
      simp only [List.cons.injEq, Sym.nt.injEq] at hα
      obtain ⟨h, hrest⟩ := hα
      subst hrest
      cases h2
      exact ⟨r, hr, h.symm, by simpa using h1⟩
  obtain ⟨r, hr, hs, hder⟩ := hinv
  obtain ⟨hi0, hla0⟩ := hC.start r hr hs
  obtain ⟨ns, nv, hns, hnv, hsteps, qn, tln, hqn, hin, hlan⟩ :=
    consume hC hder T.start [] [] r 0 [] eof [] hi0 (by simp) ⟨[], DerivesSeq.nil, Or.inr ⟨rfl, hla0⟩⟩
  simp only [Nat.zero_add] at hin hlan
  have hact := hC.reduce qn r eof hin (hlan eof hla0)
  have hgoto : T.goto T.start r.lhs = some T.final := by rw [hs]; exact hC.accept
  have hacc : Run T eof 0 (ns ++ [T.start], nv ++ [], [eof]) := by
    rw [hqn]
    refine Run.acc qn tln (nv ++ []) r T.start [] hact ?_ hgoto
    rw [← hqn, List.drop_left' hns]
  exact Run.of_steps hsteps 0 hacc

/-- `parseFrom` with separate fuel for the token being processed -/
def parseFromAux (T : Table) (eof F : Nat) : Nat → Config → List Nat → Outcome
  | f, cfg, [] => reduceLoop T eof true f cfg
  | f, cfg, t :: ts =>
    match reduceLoop T t false f cfg with
    | Outcome.shifted cfg' => parseFrom T eof F cfg' ts
    | o => o

theorem parseFrom_eq_aux (T : Table) (eof F : Nat) (cfg : Config) (toks : List Nat) :
    parseFrom T eof F cfg toks = parseFromAux T eof F F cfg toks := by
  cases toks <;> rfl

/-- the executable driver follows an accepting run, given enough fuel -/
theorem run_accepts {T : Table} {eof : Nat} : ∀ n st vals toks, Run T eof n (st, vals, toks ++ [eof]) →
    ∀ F f, n < F → n < f → ∃ v, parseFromAux T eof F f ⟨st, vals⟩ toks = Outcome.accept v := by
  intro n
  induction n with
  | zero =>
    intro st vals toks hr F f _ hf
    generalize hin : toks ++ [eof] = input at hr
    cases hr with
    | acc q ss vals' r p ss' hact hdrop hgoto =>
      have : toks = [] := by
        cases toks with
        | nil => rfl
        | cons x xs => cases xs <;> simp at hin
      subst this
      obtain ⟨f', rfl⟩ : ∃ f', f = f' + 1 := ⟨f - 1, by omega⟩
      simp [parseFromAux, reduceLoop, hact, hdrop, hgoto]
  | succ n ih =>
    intro st vals toks hr F f hF hf
    obtain ⟨f', rfl⟩ : ∃ f', f = f' + 1 := ⟨f - 1, by omega⟩
    generalize hin : toks ++ [eof] = input at hr
    cases hr with
    | shift _ q ss vals' t t' rest q' hact hrun =>
      cases toks with
      | nil => simp at hin
      | cons x xs =>
        simp only [List.cons_append, List.cons.injEq] at hin
        obtain ⟨rfl, hxs⟩ := hin
        rw [← hxs] at hrun
        obtain ⟨v, hv⟩ := ih _ _ xs hrun F F (by omega) (by omega)
        refine ⟨v, ?_⟩
        simp only [parseFromAux, reduceLoop, hact, Bool.false_eq_true, if_false]
        rw [parseFrom_eq_aux]; exact hv
    | reduce _ q ss vals' t rest r p ss' p' hact hdrop hgoto hrun =>
      cases toks with
      | nil =>
        simp only [List.nil_append, List.cons.injEq] at hin
        obtain ⟨rfl, rfl⟩ := hin
        by_cases hfin : p' = T.final
        · exact ⟨(Sym.nt r.lhs, yieldOf (vals.take r.rhs.length)), by
            simp [parseFromAux, reduceLoop, hact, hdrop, hgoto, hfin]⟩
        · obtain ⟨v, hv⟩ := ih _ _ [] hrun F f' (by omega) (by omega)
          refine ⟨v, ?_⟩
          simp only [parseFromAux] at hv ⊢
          simp only [reduceLoop, hact, hdrop, hgoto, Bool.true_and, beq_iff_eq, hfin, if_false]
          exact hv
      | cons x xs =>
        simp only [List.cons_append, List.cons.injEq] at hin
        obtain ⟨rfl, hxs⟩ := hin
        rw [← hxs] at hrun
        obtain ⟨v, hv⟩ := ih _ _ (x :: xs) hrun F f' (by omega) (by omega)
        refine ⟨v, ?_⟩
        simp only [parseFromAux] at hv ⊢
        simp only [reduceLoop, hact, hdrop, hgoto, Bool.false_and, Bool.false_eq_true, if_false]
        exact hv

/-- Completeness of the LALR driver for every conflict-free table that passes the closure certificate:
    every sentence of the grammar is accepted (given enough fuel for the reduce loops). -/
theorem parse_complete {G : Grammar} {T : Table} {s0 eof : Nat} {la} (hC : TableClosed G T s0 eof la)
    (toks : List Nat) (h : DerivesSeq G [Sym.nt s0] toks) :
    ∃ F0, ∀ F, F0 < F → ∃ v, parse T eof F toks = Outcome.accept v := by
  obtain ⟨n, hn⟩ := complete_run hC toks h
  refine ⟨n, fun F hF => ?_⟩
  have := run_accepts n [T.start] [] toks hn F F hF hF
  simpa [parse, parseFrom_eq_aux] using this


/-- feed a token prefix (no end-of-input): the state after the last shift, or the first failure -/
def feedAll (T : Table) (F : Nat) : Config → List Nat → Outcome
  | cfg, [] => Outcome.shifted cfg
  | cfg, t :: ts =>
    match reduceLoop T t false F cfg with
    | Outcome.shifted cfg' => feedAll T F cfg' ts
    | o => o

def feedAllAux (T : Table) (F : Nat) : Nat → Config → List Nat → Outcome
  | _, cfg, [] => Outcome.shifted cfg
  | f, cfg, t :: ts =>
    match reduceLoop T t false f cfg with
    | Outcome.shifted cfg' => feedAll T F cfg' ts
    | o => o

theorem feedAll_eq_aux (T : Table) (F : Nat) (cfg : Config) (toks : List Nat) :
    feedAll T F cfg toks = feedAllAux T F F cfg toks := by
  cases toks <;> rfl

/-- along an accepting run, every token of any prefix gets shifted -/
theorem run_shifts_prefix {T : Table} {eof : Nat} : ∀ n st vals pre post,
    Run T eof n (st, vals, pre ++ (post ++ [eof])) →
    ∀ F f, n < F → n < f → ∃ cfg', feedAllAux T F f ⟨st, vals⟩ pre = Outcome.shifted cfg' := by
  intro n
  induction n with
  | zero =>
    intro st vals pre post hr F f _ _
    cases pre with
    | nil => exact ⟨_, rfl⟩
    | cons x xs =>
      exfalso
      generalize hin : (x :: xs) ++ (post ++ [eof]) = input at hr
      cases hr with
      | acc q ss vals' r p ss' hact hdrop hgoto =>
        simp only [List.cons_append, List.cons.injEq] at hin
        have := congrArg List.length hin.2
        simp at this
  | succ n ih =>
    intro st vals pre post hr F f hF hf
    cases pre with
    | nil => exact ⟨_, rfl⟩
    | cons x xs =>
      obtain ⟨f', rfl⟩ : ∃ f', f = f' + 1 := ⟨f - 1, by omega⟩
      generalize hin : (x :: xs) ++ (post ++ [eof]) = input at hr
      cases hr with
      | shift _ q ss vals' t t' rest q' hact hrun =>
        simp only [List.cons_append, List.cons.injEq] at hin
        obtain ⟨rfl, hxs⟩ := hin
        rw [← hxs] at hrun
        obtain ⟨cfg', hc⟩ := ih _ _ xs post hrun F F (by omega) (by omega)
        refine ⟨cfg', ?_⟩
        simp only [feedAllAux, reduceLoop, hact, Bool.false_eq_true, if_false]
        rw [feedAll_eq_aux]; exact hc
      | reduce _ q ss vals' t rest r p ss' p' hact hdrop hgoto hrun =>
        simp only [List.cons_append, List.cons.injEq] at hin
        obtain ⟨rfl, hxs⟩ := hin
        have hrun' : Run T eof n (p' :: p :: ss', (Sym.nt r.lhs, yieldOf (vals.take r.rhs.length)) :: vals.drop r.rhs.length,
            (x :: xs) ++ (post ++ [eof])) := by
          simpa [← hxs] using hrun
        obtain ⟨cfg', hc⟩ := ih _ _ (x :: xs) post hrun' F f' (by omega) (by omega)
        refine ⟨cfg', ?_⟩
        simp only [feedAllAux] at hc ⊢
        simp only [reduceLoop, hact, hdrop, hgoto, Bool.false_and, Bool.false_eq_true, if_false]
        exact hc

/-- C08 (LALR clause): a token sequence that can be extended to a sentence is consumed without error.
    Contrapositive: `UnexpectedToken` is raised at the *first* token after which no sentence is possible. -/
theorem viable_prefix_shifts {G : Grammar} {T : Table} {s0 eof : Nat} {la} (hC : TableClosed G T s0 eof la)
    (pre post : List Nat) (h : DerivesSeq G [Sym.nt s0] (pre ++ post)) :
    ∃ F0, ∀ F, F0 < F → ∃ cfg', feedAll T F ⟨[T.start], []⟩ pre = Outcome.shifted cfg' := by
  obtain ⟨n, hn⟩ := complete_run hC (pre ++ post) h
  refine ⟨n, fun F hF => ?_⟩
  rw [feedAll_eq_aux]
  exact run_shifts_prefix n [T.start] [] pre post (by simpa [List.append_assoc] using hn) F F hF hF

end LRProto
