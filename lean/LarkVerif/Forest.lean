import LarkVerif.Earley
namespace EarleyProto

/-- derivation trees with their spans over the lattice (first-order: a forest for a list of symbols) -/
inductive SD (G : Grammar) (L : Lattice) : List Sym → Nat → Nat → Type
  | nil (i : Nat) : SD G L [] i i
  | term (a : Nat) (rest : List Sym) (i i' j k : Nat) : IgnStar L i i' → L.edge a i' j → SD G L rest j k →
      SD G L (Sym.t a :: rest) i k
  | nonterm (r : Rule) (rest : List Sym) (i j k : Nat) : r ∈ G.rules → SD G L r.rhs i j → SD G L rest j k →
      SD G L (Sym.nt r.lhs :: rest) i k

/-- "this (partial) derivation is present in the SPPF": walking it from the item `⟨r,d,k⟩` at column `i`,
    every intermediate LR(0) position is a chart fact at its column — these are exactly the facts from which
    earley.py:98-160 creates the intermediate/symbol nodes and their packed families — and every nonterminal
    child is present in the same sense, started from its predicted item -/
def InForest {G : Grammar} {L : Lattice} (start : Nat) : {β : List Sym} → {i j : Nat} → SD G L β i j →
    Rule → Nat → Nat → Prop
  | _, i, _, SD.nil _, r, d, k => Chart G L start i ⟨r, d, k⟩
  | _, i, _, SD.term _ _ _ _ j _ _ _ rest, r, d, k =>
      Chart G L start i ⟨r, d, k⟩ ∧ InForest start rest r (d+1) k
  | _, i, _, SD.nonterm r' _ _ _ _ _ body rest, r, d, k =>
      Chart G L start i ⟨r, d, k⟩ ∧ InForest start body r' 0 i ∧ InForest start rest r (d+1) k

/-- the last item reached by the walk -/
theorem InForest.lastItem {G : Grammar} {L : Lattice} {start : Nat} : ∀ {β : List Sym} {i j : Nat} (sd : SD G L β i j)
    {r : Rule} {d k : Nat}, InForest start sd r d k → Chart G L start j ⟨r, d + β.length, k⟩ := by
  intro β i j sd
  induction sd with
  | nil i => intro r d k h; simpa [InForest] using h
  | term a rest i i' j k _ _ sd' ih =>
    intro r d k' h
    have := ih h.2
    simpa [Nat.add_assoc, Nat.add_comm 1] using this
  | nonterm r' rest i j k _ body sd' _ ih2 =>
    intro r d k' h
    have := ih2 h.2.2
    simpa [Nat.add_assoc, Nat.add_comm 1] using this

/-- C04 / C20, completeness of the forest: every derivation of the input below a chart item is present. -/
theorem forest_complete {G : Grammar} {L : Lattice} {start : Nat} :
    ∀ {β : List Sym} {i j : Nat} (sd : SD G L β i j) {r : Rule} {d k : Nat} (γ : List Sym),
      Chart G L start i ⟨r, d, k⟩ → r.rhs.drop d = β ++ γ → InForest start sd r d k := by
  intro β i j sd
  induction sd with
  | nil i => intro r d k γ hc _; exact hc
  | term a rest i i' j k hi he sd' ih =>
    intro r d k' γ hc hdrop
    have hd : r.rhs[d]? = some (Sym.t a) := by
      have := congrArg List.head? hdrop
      simpa [List.head?_drop] using this
    have hc' : Chart G L start i' ⟨r, d, k'⟩ := by
      clear he ih
      induction hi with
      | refl => exact hc
      | step x y z hxy _ ih' => exact ih' (Chart.ignore x y r d k' a hc hd hxy)
    have hc'' := Chart.scan i' j r d k' a hc' hd he
    refine ⟨hc, ih γ hc'' ?_⟩
    have h2 : r.rhs.drop (d+1) = (r.rhs.drop d).tail := by simp [List.tail_drop]
    rw [h2, hdrop]; rfl
  | nonterm r' rest i j k hr' body sd' ih1 ih2 =>
    intro r d k' γ hc hdrop
    have hd : r.rhs[d]? = some (Sym.nt r'.lhs) := by
      have := congrArg List.head? hdrop
      simpa [List.head?_drop] using this
    have hp := Chart.predict i r d k' r' hc hd hr'
    have hbody := ih1 [] hp (by simp)
    have hfull := InForest.lastItem body hbody
    simp only [Nat.zero_add] at hfull
    have hcomp := Chart.complete j i r' r d k' hfull hc hd
    refine ⟨hc, hbody, ih2 γ hcomp ?_⟩
    have h2 : r.rhs.drop (d+1) = (r.rhs.drop d).tail := by simp [List.tail_drop]
    rw [h2, hdrop]; rfl

/-- in particular: every full derivation of the start symbol over the whole input is in the forest -/
theorem forest_complete_root {G : Grammar} {L : Lattice} {start : Nat} (r : Rule) (hr : r ∈ G.rules) (hs : r.lhs = start)
    {m : Nat} (sd : SD G L r.rhs 0 m) : InForest start sd r 0 0 :=
  forest_complete sd [] (Chart.init r hr hs) (by simp)

end EarleyProto
