import LarkVerif.Indenter
/-! C18: the Indenter's `handle_NL` (a pop loop) computes exactly what the Python language reference prescribes for the indentation stack,
    stated declaratively (membership, filters) — under the invariant that the stack is strictly decreasing from the top, which every reachable state satisfies. -/
namespace IndProto

/-- the stack of open indentation levels, top first, is strictly decreasing and ends in 0 … we only need strictness -/
def Decr (l : List Nat) : Prop := l.Pairwise (· > ·)

/-- Python language reference §2.1.8, one logical line: `(number of INDENTs, number of DEDENTs, new stack)` or an error -/
def refLine (levels : List Nat) (indent : Nat) : Except Err (Nat × Nat × List Nat) :=
  match levels with
  | [] => .error .assertFail
  | top :: _ =>
    if indent > top then .ok (1, 0, indent :: levels)
    else if indent ∈ levels then .ok (0, (levels.filter (· > indent)).length, levels.filter (· ≤ indent))
    else .error .dedentError

theorem popWhile_eq_filter (indent : Nat) : ∀ (l : List Nat), Decr l →
    popWhile indent l = (l.filter (· ≤ indent), (l.filter (· > indent)).length) := by
  intro l
  induction l with
  | nil => intro _; rfl
  | cons top rest ih =>
    intro hd
    have hrest : Decr rest := (List.pairwise_cons.mp hd).2
    have hall : ∀ x ∈ rest, top > x := (List.pairwise_cons.mp hd).1
    simp only [popWhile]
    by_cases h : indent < top
    · simp only [h, if_true]
      rw [ih hrest]
      have h1 : ¬ top ≤ indent := by omega
      simp [List.filter_cons, h1, h]
    · simp only [h, if_false]
      have h1 : top ≤ indent := by omega
      -- nothing below the top is larger than indent either
      have hle : ∀ x ∈ top :: rest, x ≤ indent := by
        intro x hx
        rcases List.mem_cons.mp hx with rfl | hx
        · exact h1
        · have := hall x hx; omega
      have hf1 : (top :: rest).filter (· ≤ indent) = top :: rest := by
        apply List.filter_eq_self.mpr; intro x hx; simpa using hle x hx
      have hf2 : (top :: rest).filter (· > indent) = [] := by
        apply List.filter_eq_nil_iff.mpr; intro x hx; have := hle x hx; simp; omega
      rw [hf1, hf2]; rfl

theorem filter_le_head_eq_iff (indent : Nat) : ∀ (l : List Nat), Decr l →
    ((l.filter (· ≤ indent)).head? = some indent ↔ indent ∈ l) := by
  intro l
  induction l with
  | nil => intro _; simp
  | cons top rest ih =>
    intro hd
    have hrest : Decr rest := (List.pairwise_cons.mp hd).2
    have hall : ∀ x ∈ rest, top > x := (List.pairwise_cons.mp hd).1
    by_cases h : top ≤ indent
    · simp only [List.filter_cons, h, decide_true, if_true, List.head?_cons, Option.some.injEq, List.mem_cons]
      constructor
      · intro e; exact Or.inl e.symm
      · rintro (e | hm)
        · exact e.symm
        · have := hall indent hm; omega
    · simp only [List.filter_cons, h, decide_false, Bool.false_eq_true, if_false, List.mem_cons]
      rw [ih hrest]
      constructor
      · intro hm; exact Or.inr hm
      · rintro (e | hm)
        · omega
        · exact hm

/-- **`handle_NL` = the reference algorithm** (outside brackets), for every strictly decreasing stack: the same error, or the newline token followed by
    exactly the prescribed number of INDENT / DEDENT tokens and the prescribed new stack. -/
theorem handleNL_eq_ref (st : St) (indent : Nat) (hp : st.paren = 0) (hd : Decr st.levels) (h0 : 0 ∈ st.levels) :
    handleNL st indent =
      match refLine st.levels indent with
      | .error e => .error e
      | .ok (i, d, lv) => .ok (Ev.tok (.nl indent) :: (List.replicate i Ev.indent ++ List.replicate d Ev.dedent), { st with levels := lv }) := by
  unfold handleNL refLine
  simp only [hp, Nat.lt_irrefl, if_false, gt_iff_lt]
  cases hl : st.levels with
  | nil => rfl
  | cons top rest =>
    simp only
    by_cases h : top < indent
    · simp [h]
    · simp only [h, if_false]
      have hd' : Decr (top :: rest) := hl ▸ hd
      rw [popWhile_eq_filter indent (top :: rest) hd']
      have hiff := filter_le_head_eq_iff indent (top :: rest) hd'
      cases hf : (top :: rest).filter (· ≤ indent) with
      | nil =>
        exfalso
        have h0' : 0 ∈ top :: rest := hl ▸ h0
        have : 0 ∈ (top :: rest).filter (· ≤ indent) := List.mem_filter.mpr ⟨h0', by simp⟩
        rw [hf] at this; cases this
      | cons top' rest' =>
        simp only
        by_cases he : indent = top'
        · have hm : indent ∈ top :: rest := hiff.mp (by rw [hf, he]; rfl)
          simp [he ▸ hm, he]
        · have hm : indent ∉ top :: rest := by
            intro hm; have := hiff.mpr hm; rw [hf] at this; simp at this; exact he this.symm
          simp [hm, he]

/-- the invariant is preserved by every token, so it holds in every reachable state (the initial stack is `[0]`) -/
theorem stepTok_decr (st st' : St) (t : Tok) (out : List Ev) (h : stepTok st t = .ok (out, st')) (hd : Decr st.levels) : Decr st'.levels := by
  cases t with
  | nl indent =>
    simp only [stepTok, handleNL] at h
    split at h
    · simp at h; obtain ⟨_, rfl⟩ := h; exact hd
    · split at h
      · cases h
      · rename_i top rest hl
        split at h
        · rename_i hgt
          simp at h; obtain ⟨_, rfl⟩ := h
          simp only [Decr, hl]
          refine List.pairwise_cons.mpr ⟨?_, hl ▸ hd⟩
          intro x hx
          have hd' : Decr (top :: rest) := hl ▸ hd
          rcases List.mem_cons.mp hx with rfl | hx
          · exact hgt
          · have := (List.pairwise_cons.mp hd').1 x hx; omega
        · have hd' : Decr (top :: rest) := hl ▸ hd
          rw [hl, popWhile_eq_filter indent (top :: rest) hd'] at h
          simp only at h
          cases hf : (top :: rest).filter (· ≤ indent) with
          | nil => rw [hf] at h; cases h
          | cons top' rest' =>
            rw [hf] at h
            simp only at h
            split at h
            · cases h
            · simp at h; obtain ⟨_, rfl⟩ := h
              show Decr (top' :: rest')
              rw [← hf]
              exact List.Pairwise.filter _ hd'
  | openP => simp [stepTok] at h; obtain ⟨_, rfl⟩ := h; exact hd
  | closeP => simp only [stepTok] at h; split at h <;> simp at h; obtain ⟨_, rfl⟩ := h; exact hd
  | other ty => simp [stepTok] at h; obtain ⟨_, rfl⟩ := h; exact hd

theorem init_decr : Decr St.init.levels := by simp [Decr, St.init]

/-- the bottom level 0 is never popped -/
theorem stepTok_zero (st st' : St) (t : Tok) (out : List Ev) (h : stepTok st t = .ok (out, st')) (hd : Decr st.levels) (h0 : 0 ∈ st.levels) : 0 ∈ st'.levels := by
  cases t with
  | nl indent =>
    simp only [stepTok, handleNL] at h
    split at h
    · simp at h; obtain ⟨_, rfl⟩ := h; exact h0
    · split at h
      · cases h
      · rename_i top rest hl
        split at h
        · simp at h; obtain ⟨_, rfl⟩ := h
          exact List.mem_cons_of_mem _ h0
        · have hd' : Decr (top :: rest) := hl ▸ hd
          rw [hl, popWhile_eq_filter indent (top :: rest) hd'] at h
          simp only at h
          cases hf : (top :: rest).filter (· ≤ indent) with
          | nil => rw [hf] at h; cases h
          | cons top' rest' =>
            rw [hf] at h
            simp only at h
            split at h
            · cases h
            · simp at h; obtain ⟨_, rfl⟩ := h
              show 0 ∈ top' :: rest'
              rw [← hf]
              exact List.mem_filter.mpr ⟨hl ▸ h0, by simp⟩
  | openP => simp [stepTok] at h; obtain ⟨_, rfl⟩ := h; exact h0
  | closeP => simp only [stepTok] at h; split at h <;> simp at h; obtain ⟨_, rfl⟩ := h; exact h0
  | other ty => simp [stepTok] at h; obtain ⟨_, rfl⟩ := h; exact h0

end IndProto
