import LarkVerif.Lexer
/-! Executable model of `BasicLexer` / `ContextualLexer` (lark/lexer.py) on top of the list lemmas of `Lexer.lean`.
    The regex engine is a parameter (tables supplied per case by the harness, computed with individually compiled
    patterns — an independent path from lark's combined alternations). -/
namespace LexModel
open LexProto

structure TermInfo where
  name : String
  prio : Int
  maxWidth : Nat
  valueLen : Nat
  isStr : Bool
deriving Repr, Inhabited

/-- lexicographic tier: a strictly greater key wins; equal keys fall through to `le2` -/
def lexBy {α : Type} (k : α → Int) (le2 : α → α → Bool) (a b : α) : Bool :=
  if k a = k b then le2 a b else decide (k a > k b)

theorem lexBy_trans {α : Type} (k : α → Int) (le2 : α → α → Bool)
    (ht : ∀ a b c, le2 a b = true → le2 b c = true → le2 a c = true) :
    ∀ a b c, lexBy k le2 a b = true → lexBy k le2 b c = true → lexBy k le2 a c = true := by
  intro a b c h1 h2
  unfold lexBy at h1 h2 ⊢
  by_cases e1 : k a = k b
  · by_cases e2 : k b = k c
    · have e3 : k a = k c := e1.trans e2
      rw [if_pos e1] at h1; rw [if_pos e2] at h2; rw [if_pos e3]
      exact ht a b c h1 h2
    · rw [if_neg e2] at h2
      have h2' := of_decide_eq_true h2
      have e3 : ¬ k a = k c := by omega
      rw [if_neg e3]; exact decide_eq_true (by omega)
  · rw [if_neg e1] at h1
    have h1' := of_decide_eq_true h1
    by_cases e2 : k b = k c
    · have e3 : ¬ k a = k c := by omega
      rw [if_neg e3]; exact decide_eq_true (by omega)
    · rw [if_neg e2] at h2
      have h2' := of_decide_eq_true h2
      have e3 : ¬ k a = k c := by omega
      rw [if_neg e3]; exact decide_eq_true (by omega)

theorem lexBy_total {α : Type} (k : α → Int) (le2 : α → α → Bool)
    (ht : ∀ a b, (le2 a b || le2 b a) = true) : ∀ a b, (lexBy k le2 a b || lexBy k le2 b a) = true := by
  intro a b
  unfold lexBy
  by_cases e : k a = k b
  · rw [if_pos e, if_pos e.symm]; exact ht a b
  · have e' : ¬ k b = k a := fun h => e h.symm
    rw [if_neg e, if_neg e']
    by_cases h : k a > k b
    · simp [h]
    · have : k b > k a := by omega
      simp [this]

def nameLe (a b : TermInfo) : Bool := decide (a.name ≤ b.name)

/-- lexer.py:629 `terminals.sort(key=lambda x: (-x.priority, -x.pattern.max_width, -len(x.pattern.value), x.name))`
    as a comparison: higher priority, then longer maximal width, then longer pattern, then name. -/
def termLe : TermInfo → TermInfo → Bool :=
  lexBy (fun t => t.prio) (lexBy (fun t => (t.maxWidth : Int)) (lexBy (fun t => (t.valueLen : Int)) nameLe))

theorem nameLe_trans (a b c : TermInfo) : nameLe a b = true → nameLe b c = true → nameLe a c = true := by
  unfold nameLe; intro h1 h2
  exact decide_eq_true (String.le_trans (of_decide_eq_true h1) (of_decide_eq_true h2))

theorem nameLe_total (a b : TermInfo) : (nameLe a b || nameLe b a) = true := by
  unfold nameLe
  rcases String.le_total a.name b.name with h | h <;> simp [h]

theorem termLe_trans (a b c : TermInfo) : termLe a b = true → termLe b c = true → termLe a c = true :=
  lexBy_trans _ _ (lexBy_trans _ _ (lexBy_trans _ _ nameLe_trans)) a b c

theorem termLe_total (a b : TermInfo) : (termLe a b || termLe b a) = true :=
  lexBy_total _ _ (lexBy_total _ _ (lexBy_total _ _ nameLe_total)) a b

/-- the terminal table of one lexer instance; terminals are referred to by index -/
structure Lexer where
  terms : Array TermInfo
  /-- (re, str): `str.value == match(re, str.value)`  (lexer.py:384) -/
  selfMatch : List (Nat × Nat)
  /-- (str, re): `str.flags <= re.flags` -/
  flagSub : List (Nat × Nat)
  ignore : List Nat

def Lexer.info (L : Lexer) (i : Nat) : TermInfo := L.terms[i]!

/-- the sorted terminal list restricted to `subset` (a contextual per-state lexer; all ids for the basic lexer) -/
def Lexer.sorted (L : Lexer) (subset : List Nat) : List Nat :=
  subset.mergeSort (fun i j => termLe (L.info i) (L.info j))

/-- `unless` list of a regexp terminal (lexer.py:380-388), in sorted order -/
def Lexer.unlessOf (L : Lexer) (sorted : List Nat) (re : Nat) : List Nat :=
  if (L.info re).isStr then []
  else sorted.filter fun s => (L.info s).isStr && decide ((L.info s).prio = (L.info re).prio) && L.selfMatch.contains (re, s)

/-- strings removed from the alternation: in some regexp's `unless` list with flags ⊆ the regexp's -/
def Lexer.embedded (L : Lexer) (sorted : List Nat) : List Nat :=
  sorted.filter fun s => sorted.any fun re => (L.unlessOf sorted re).contains s && L.flagSub.contains (s, re)

def Lexer.scanList (L : Lexer) (sorted : List Nat) : List Nat :=
  sorted.filter fun t => !(L.embedded sorted).contains t

/-- regex facts for one text: `mt t pos` = preferred match length; `full s pos len` = string terminal `s` fullmatches `text[pos:pos+len]` -/
structure Facts where
  mt : Matcher
  full : Nat → Nat → Nat → Bool

/-- the type reported for a match of scanner terminal `t` (UnlessCallback, lexer.py:347) -/
def Lexer.retype (L : Lexer) (F : Facts) (sorted : List Nat) (t pos len : Nat) : Nat :=
  match (L.unlessOf sorted t).find? (fun s => F.full s pos len) with
  | some s => s
  | none => t

inductive LexErr where
  | chars (pos : Nat) (allowed : List Nat)              -- UnexpectedCharacters
  | token (ty pos len : Nat) (allowed : List Nat)       -- contextual: root lexer found a token the parser cannot accept
deriving Repr

/-- one `next_token` of a (sub)lexer: skips ignored matches; returns the reported piece or an error or EOF -/
def Lexer.nextToken (L : Lexer) (F : Facts) (subset : List Nat) (n : Nat) : Nat → Nat → Except LexErr (Option (Piece × Nat))
  | 0, _ => .ok none
  | fuel+1, pos =>
    if pos < n then
      let sorted := L.sorted subset
      match firstMatch F.mt pos (L.scanList sorted) with
      | none => .error (.chars pos (sorted.filter (fun t => !L.ignore.contains t)))      -- every terminal of this lexer, embedded keywords included (finding F35, fixed)
      | some (t, len) =>
        let ty := L.retype F sorted t pos len
        if L.ignore.contains ty then L.nextToken F subset n fuel (pos + max len 1)
        else .ok (some ((ty, pos, len), pos + max len 1))
    else .ok none

/-- the basic lexer run to the end of the text -/
def Lexer.lexBasic (L : Lexer) (F : Facts) (all : List Nat) (n : Nat) : Nat → Nat → List Piece × Option LexErr
  | 0, _ => ([], none)
  | fuel+1, pos =>
    match L.nextToken F all n (n + 1) pos with
    | .error e => ([], some e)
    | .ok none => ([], none)
    | .ok (some (pc, pos')) =>
      let (ps, e) := L.lexBasic F all n fuel pos'
      (pc :: ps, e)

/-- contextual lexer: `subsets k` is the terminal set of the parser state before the k-th token
    (state terminals ∪ ignore ∪ always_accept, lexer.py:735); on failure the root lexer is consulted (lexer.py:757-765) -/
def Lexer.lexCtx (L : Lexer) (F : Facts) (all : List Nat) (n : Nat) : List (List Nat) → Nat → List Piece × Option LexErr
  | [], _ => ([], none)
  | sub :: subs, pos =>
    match L.nextToken F sub n (n + 1) pos with
    | .ok none => ([], none)
    | .ok (some (pc, pos')) =>
      let (ps, e) := L.lexCtx F all n subs pos'
      (pc :: ps, e)
    | .error (.chars p allowed) =>
      match L.nextToken F all n (n + 1) p with
      | .ok (some ((ty, q, len), _)) => ([], some (.token ty q len allowed))
      | _ => ([], some (.chars p allowed))
    | .error e => ([], some e)

/-! ### Theorems about the model's ordering and the keyword exception -/

/-- the scan order is sorted by the documented precedence … -/
theorem sorted_pairwise (L : Lexer) (subset : List Nat) :
    (L.sorted subset).Pairwise (fun i j => termLe (L.info i) (L.info j) = true) :=
  List.pairwise_mergeSort (le := fun i j => termLe (L.info i) (L.info j)) (fun a b c => termLe_trans _ _ _) (fun a b => termLe_total _ _) subset

/-- … and contains exactly the given terminals -/
theorem sorted_perm (L : Lexer) (subset : List Nat) : (L.sorted subset).Perm subset :=
  List.mergeSort_perm _ _

/-- keyword exception, decision logic: a match of scanner terminal `t` is reported as the string terminal `s` exactly when `s` is
    the first entry of `t`'s unless-list that fullmatches the matched text; otherwise as `t` itself. -/
theorem retype_eq (L : Lexer) (F : Facts) (sorted : List Nat) (t pos len : Nat) :
    (∃ s, (L.unlessOf sorted t).find? (fun s => F.full s pos len) = some s ∧ L.retype F sorted t pos len = s) ∨
    ((L.unlessOf sorted t).find? (fun s => F.full s pos len) = none ∧ L.retype F sorted t pos len = t) := by
  unfold Lexer.retype
  cases h : (L.unlessOf sorted t).find? (fun s => F.full s pos len) with
  | none => right; simp
  | some s => left; exact ⟨s, rfl, rfl⟩

/-- members of an unless-list are same-priority string terminals the regexp matches in full -/
theorem unlessOf_mem (L : Lexer) (sorted : List Nat) (re s : Nat) (h : s ∈ L.unlessOf sorted re) :
    (L.info re).isStr = false ∧ (L.info s).isStr = true ∧ (L.info s).prio = (L.info re).prio ∧ (re, s) ∈ L.selfMatch := by
  unfold Lexer.unlessOf at h
  split at h
  · cases h
  · rename_i hre
    simp only [List.mem_filter, Bool.and_eq_true, decide_eq_true_eq, List.contains_iff_mem] at h
    exact ⟨by simpa using hre, h.2.1.1, h.2.1.2, h.2.2⟩

/-- string terminals never carry an unless callback, so they are reported as themselves -/
theorem retype_str (L : Lexer) (F : Facts) (sorted : List Nat) (t pos len : Nat) (h : (L.info t).isStr = true) :
    L.retype F sorted t pos len = t := by
  simp [Lexer.retype, Lexer.unlessOf, h]

end LexModel
