namespace IndProto

/-- the tokens the Indenter distinguishes: a newline token with the indentation that follows its last '\n' -/
inductive Tok where
  | nl (indent : Nat)
  | openP
  | closeP
  | other (ty : Nat)
deriving DecidableEq, Repr

inductive Ev where
  | tok (t : Tok)
  | indent
  | dedent
deriving DecidableEq, Repr

inductive Err where
  | dedentError
  | assertFail
deriving DecidableEq, Repr

structure St where
  paren : Nat
  levels : List Nat      -- top first; Python's `indent_level` reversed
deriving Repr

def St.init : St := ⟨0, [0]⟩

/-- `while indent < self.indent_level[-1]: pop; yield DEDENT` -/
def popWhile (indent : Nat) : List Nat → List Nat × Nat
  | [] => ([], 0)
  | top :: rest => if indent < top then let (s, k) := popWhile indent rest; (s, k + 1) else (top :: rest, 0)

/-- lark/indenter.py:33 handle_NL -/
def handleNL (st : St) (indent : Nat) : Except Err (List Ev × St) :=
  if st.paren > 0 then .ok ([], st)
  else
    match st.levels with
    | [] => .error .assertFail
    | top :: _ =>
      if indent > top then .ok ([Ev.tok (.nl indent), Ev.indent], { st with levels := indent :: st.levels })
      else
        let (lv, k) := popWhile indent st.levels
        match lv with
        | [] => .error .assertFail
        | top' :: _ =>
          if indent ≠ top' then .error .dedentError
          else .ok (Ev.tok (.nl indent) :: List.replicate k Ev.dedent, { st with levels := lv })

/-- lark/indenter.py:53 _process, loop body -/
def stepTok (st : St) (t : Tok) : Except Err (List Ev × St) :=
  match t with
  | .nl indent => handleNL st indent
  | .openP => .ok ([Ev.tok t], { st with paren := st.paren + 1 })
  | .closeP => if st.paren = 0 then .error .assertFail else .ok ([Ev.tok t], { st with paren := st.paren - 1 })
  | .other _ => .ok ([Ev.tok t], st)

def processFrom : St → List Tok → Except Err (List Ev)
  | st, [] => .ok (List.replicate (st.levels.length - 1) Ev.dedent)
  | st, t :: ts =>
    match stepTok st t with
    | .error e => .error e
    | .ok (out, st') =>
      match processFrom st' ts with
      | .error e => .error e
      | .ok rest => .ok (out ++ rest)

/-- lark/indenter.py:73 process: state is reset, whatever happened before -/
def process (_old : St) (toks : List Tok) : Except Err (List Ev) := processFrom St.init toks

def nInd (l : List Ev) : Nat := l.count Ev.indent
def nDed (l : List Ev) : Nat := l.count Ev.dedent

theorem popWhile_length (indent : Nat) : ∀ l, (popWhile indent l).1.length + (popWhile indent l).2 = l.length := by
  intro l
  induction l with
  | nil => simp [popWhile]
  | cons top rest ih =>
    simp only [popWhile]
    split
    · simp only [List.length_cons]; omega
    · simp

theorem count_replicate_dedent (k : Nat) : nDed (List.replicate k Ev.dedent) = k ∧ nInd (List.replicate k Ev.dedent) = 0 := by
  simp [nDed, nInd, List.count_replicate]

/-- one token: (#INDENT − #DEDENT) emitted equals the change of the stack height -/
theorem stepTok_balance (st st' : St) (t : Tok) (out : List Ev) (h : stepTok st t = .ok (out, st')) :
    nInd out + st.levels.length = nDed out + st'.levels.length := by
  cases t with
  | openP => simp [stepTok] at h; obtain ⟨rfl, rfl⟩ := h; simp [nInd, nDed]
  | closeP =>
    simp only [stepTok] at h
    split at h
    · cases h
    · simp at h; obtain ⟨rfl, rfl⟩ := h; simp [nInd, nDed]
  | other ty => simp [stepTok] at h; obtain ⟨rfl, rfl⟩ := h; simp [nInd, nDed]
  | nl indent =>
    simp only [stepTok, handleNL] at h
    split at h
    · simp at h; obtain ⟨rfl, rfl⟩ := h; simp [nInd, nDed]
    · split at h
      · cases h
      · rename_i top tl hlv
        split at h
        · simp at h; obtain ⟨rfl, rfl⟩ := h; simp [nInd, nDed, hlv]; omega
        · have hpl := popWhile_length indent st.levels
          revert h
          generalize popWhile indent st.levels = pw at hpl
          obtain ⟨lv, k⟩ := pw
          simp only
          intro h
          split at h
          · cases h
          · split at h
            · cases h
            · simp at h; obtain ⟨rfl, rfl⟩ := h
              have := count_replicate_dedent k
              simp only [nInd, nDed, List.count_cons, List.count_replicate] at this ⊢
              simp at hpl ⊢
              omega

theorem processFrom_balance : ∀ toks st out, processFrom st toks = .ok out → st.levels.length ≥ 1 →
    nInd out + st.levels.length = nDed out + 1 := by
  intro toks
  induction toks with
  | nil =>
    intro st out h hl
    simp [processFrom] at h; subst h
    have := count_replicate_dedent (st.levels.length - 1)
    rw [this.1, this.2]; omega
  | cons t ts ih =>
    intro st out h hl
    simp only [processFrom] at h
    split at h
    · cases h
    · rename_i o st' hstep
      split at h
      · cases h
      · rename_i rest hrest
        simp at h; subst h
        have h1 := stepTok_balance st st' t o hstep
        have hl' : st'.levels.length ≥ 1 := by
          -- the stack never becomes empty on a successful step
          cases t with
          | openP => simp [stepTok] at hstep; obtain ⟨_, rfl⟩ := hstep; exact hl
          | closeP =>
            simp only [stepTok] at hstep
            split at hstep
            · cases hstep
            · simp at hstep; obtain ⟨_, rfl⟩ := hstep; exact hl
          | other ty => simp [stepTok] at hstep; obtain ⟨_, rfl⟩ := hstep; exact hl
          | nl indent =>
            simp only [stepTok, handleNL] at hstep
            split at hstep
            · simp at hstep; obtain ⟨_, rfl⟩ := hstep; exact hl
            · split at hstep
              · cases hstep
              · split at hstep
                · simp at hstep; obtain ⟨_, rfl⟩ := hstep; simp
                · revert hstep
                  generalize popWhile indent st.levels = pw
                  obtain ⟨lv, k⟩ := pw
                  simp only
                  intro hstep
                  split at hstep
                  · cases hstep
                  · split at hstep
                    · cases hstep
                    · simp at hstep; obtain ⟨_, rfl⟩ := hstep; simp_all
        have h2 := ih st' rest hrest hl'
        simp only [nInd, nDed, List.count_append] at h1 h2 ⊢
        omega

/-- INDENT and DEDENT are balanced at the end of every stream that does not raise,
    for any prior state of the Indenter object (C18, last sentence; C10's reset clause). -/
theorem process_balanced (old : St) (toks : List Tok) (out : List Ev) (h : process old toks = .ok out) :
    nInd out = nDed out := by
  have := processFrom_balance toks St.init out h (by simp [St.init])
  simpa [St.init] using this

end IndProto
