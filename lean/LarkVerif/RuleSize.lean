/-! C03, placeholder sizing: `load_grammar.FindRuleSize` decides how many `None`s an unmatched `[..]` contributes (`EBNF_to_BNF.maybe` appends the
    alternative `[_EMPTY] * rule_size`).  The code computes a sum over sequences and a maximum over alternatives, bottom-up, on the already expanded body;
    the documented meaning is "as many as the longest alternative keeps symbols".  `size_eq_longest` proves they are the same number. -/
namespace RuleSizeProto

/-- the body of a `[..]` after the inner operators were expanded: symbols (kept in the tree or not), sequences, alternatives -/
inductive E where
  | sym (kept : Bool)
  | seq (l : List E)
  | alt (l : List E)

mutual
/-- CODE: `FindRuleSize`: `expansion` = sum, `expansions` = max, a symbol counts 1 iff `_will_not_get_removed` -/
def size : E → Nat
  | .sym k => if k then 1 else 0
  | .seq l => sumSizes l
  | .alt l => maxSizes l
def sumSizes : List E → Nat
  | [] => 0
  | e :: l => size e + sumSizes l
def maxSizes : List E → Nat
  | [] => 0
  | e :: l => max (size e) (maxSizes l)
end

/-- all ways to pick one expansion from each of the lists, concatenated -/
def cross : List (List Bool) → List (List Bool) → List (List Bool)
  | [], _ => []
  | a :: as, bs => bs.map (a ++ ·) ++ cross as bs

mutual
/-- SPEC: the plain alternatives the body stands for, each as the list of its symbols' kept-flags -/
def alts : E → List (List Bool)
  | .sym k => [[k]]
  | .seq l => seqAlts l
  | .alt l => altAlts l
def seqAlts : List E → List (List Bool)
  | [] => [[]]
  | e :: l => cross (alts e) (seqAlts l)
def altAlts : List E → List (List Bool)
  | [] => []
  | e :: l => alts e ++ altAlts l
end

/-- the number of symbols the longest alternative keeps -/
def longest (as : List (List Bool)) : Nat := (as.map (fun a => a.count true)).foldr max 0

theorem longest_nil : longest [] = 0 := rfl
theorem longest_cons (a : List Bool) (as : List (List Bool)) : longest (a :: as) = max (a.count true) (longest as) := rfl

theorem longest_append (as bs : List (List Bool)) : longest (as ++ bs) = max (longest as) (longest bs) := by
  induction as with
  | nil => simp [longest]
  | cons a as ih => simp only [List.cons_append, longest_cons, ih]; omega

theorem longest_map_prefix (a : List Bool) (bs : List (List Bool)) (h : bs ≠ []) :
    longest (bs.map (a ++ ·)) = a.count true + longest bs := by
  induction bs with
  | nil => exact absurd rfl h
  | cons b bs ih =>
    cases bs with
    | nil => simp [longest, List.count_append]
    | cons b' bs' =>
      have := ih (by simp)
      simp only [List.map_cons, longest_cons] at this ⊢
      rw [this]
      simp only [List.count_append]
      omega

theorem cross_ne_nil {as bs : List (List Bool)} (ha : as ≠ []) (hb : bs ≠ []) : cross as bs ≠ [] := by
  cases as with
  | nil => exact absurd rfl ha
  | cons a as => cases bs with
    | nil => exact absurd rfl hb
    | cons b bs => simp [cross]

theorem longest_cross (as bs : List (List Bool)) (ha : as ≠ []) (hb : bs ≠ []) : longest (cross as bs) = longest as + longest bs := by
  induction as with
  | nil => exact absurd rfl ha
  | cons a as ih =>
    cases as with
    | nil =>
      simp only [cross, List.append_nil]
      rw [longest_map_prefix a bs hb]
      simp [longest]
    | cons a' as' =>
      have := ih (by simp)
      simp only [cross] at this ⊢
      rw [longest_append, longest_map_prefix a bs hb, this]
      simp only [longest_cons]
      omega

/-- well-formed bodies: every alternation has at least one alternative (lark's grammar of grammars guarantees it) -/
inductive WF : E → Prop
  | sym (k) : WF (.sym k)
  | seq (l) : (∀ e ∈ l, WF e) → WF (.seq l)
  | alt (l) : l ≠ [] → (∀ e ∈ l, WF e) → WF (.alt l)

mutual
theorem alts_ne_nil : ∀ e, WF e → alts e ≠ []
  | .sym k, _ => by simp [alts]
  | .seq l, h => by
    cases h with | seq _ hl => simpa [alts] using seqAlts_ne_nil l hl
  | .alt l, h => by
    cases h with | alt _ hne hl =>
      cases l with
      | nil => exact absurd rfl hne
      | cons e l =>
        simp only [alts, altAlts]
        intro hc
        have := alts_ne_nil e (hl e (List.mem_cons_self ..))
        exact this (List.append_eq_nil_iff.mp hc).1
theorem seqAlts_ne_nil : ∀ l, (∀ e ∈ l, WF e) → seqAlts l ≠ []
  | [], _ => by simp [seqAlts]
  | e :: l, h => by
    simp only [seqAlts]
    exact cross_ne_nil (alts_ne_nil e (h e (List.mem_cons_self ..))) (seqAlts_ne_nil l (fun x hx => h x (List.mem_cons_of_mem _ hx)))
end

mutual
/-- **`FindRuleSize` computes the number of symbols the longest alternative keeps.** -/
theorem size_eq_longest : ∀ e, WF e → size e = longest (alts e)
  | .sym k, _ => by cases k <;> simp [size, alts, longest]
  | .seq l, h => by
    cases h with | seq _ hl => simpa [size, alts] using sumSizes_eq l hl
  | .alt l, h => by
    cases h with | alt _ _ hl => simpa [size, alts] using maxSizes_eq l hl
theorem sumSizes_eq : ∀ l, (∀ e ∈ l, WF e) → sumSizes l = longest (seqAlts l)
  | [], _ => by simp [sumSizes, seqAlts, longest]
  | e :: l, h => by
    have he := h e (List.mem_cons_self ..)
    have hl : ∀ x ∈ l, WF x := fun x hx => h x (List.mem_cons_of_mem _ hx)
    simp only [sumSizes, seqAlts]
    rw [longest_cross _ _ (alts_ne_nil e he) (seqAlts_ne_nil l hl), size_eq_longest e he, sumSizes_eq l hl]
theorem maxSizes_eq : ∀ l, (∀ e ∈ l, WF e) → maxSizes l = longest (altAlts l)
  | [], _ => by simp [maxSizes, altAlts, longest]
  | e :: l, h => by
    have he := h e (List.mem_cons_self ..)
    have hl : ∀ x ∈ l, WF x := fun x hx => h x (List.mem_cons_of_mem _ hx)
    simp only [maxSizes, altAlts]
    rw [longest_append, size_eq_longest e he, maxSizes_eq l hl]
end

/-- `[x]` nested in the body: by the time the outer `[..]` is sized it has become `x | _EMPTY…_EMPTY` (never kept), so it counts like `x` -/
theorem nested_maybe (x : E) (k : Nat) : size (.alt [x, .seq (List.replicate k (.sym false))]) = size x := by
  have : sumSizes (List.replicate k (E.sym false)) = 0 := by
    induction k with
    | zero => rfl
    | succ k ih => simp [List.replicate_succ, sumSizes, size, ih]
  simp [size, maxSizes, this]

-- `[A "x" | B C D]` with the literal filtered: 3; with keep_all_tokens: still 3 (A "x" keeps 2)
example : size (.alt [.seq [.sym true, .sym false], .seq [.sym true, .sym true, .sym true]]) = 3 := by decide
example : longest (alts (.alt [.seq [.sym true, .sym false], .seq [.sym true, .sym true, .sym true]])) = 3 := by decide

end RuleSizeProto
