import LarkVerif.EarleyExec
/-! # A certificate for the *soundness* of a parse forest (`lark/parsers/earley.py:78 predict_and_complete`, `xearley.py:104-124` scan / ignore carry-over)

The SPPF lark builds is a graph of symbol/intermediate nodes `(s, start, end)` whose packed families are `(rule, left, right)`: `left` the intermediate
node of the same rule one symbol earlier (absent at the first symbol), `right` the node or token of the symbol just before the dot.  With a dynamic lexer an
item that is carried across an `%ignore` match gets a *new* node `(s, start, end')` holding copies of the old node's families (xearley.py:112-120), so a
family's children need not reach the node's end: they end where the ignored text begins.

`famOk` is the local condition on one family of one node; `checkForest` evaluates it on every family of a forest exported from the real parser.
`forest_sound`: if every family passes, then **every tree that can be read from any node** — one family per node, to any depth, the forest may be cyclic —
yields a token-type string that (a) is derived by what the node's label stands for (`A` for a symbol node, the first `d` symbols of the rule for an
intermediate node) and (b) is spelled by a path through the token lattice from the node's start to its end (ignored stretches anywhere).  For the root
`(start, 0, n)` this says: every tree the forest encodes is a parse of the input. -/
namespace ForestCert
open EarleyProto

inductive Lbl where
  | sym (A : Nat)                 -- complete item: the rule's origin
  | lr0 (r : Rule) (d : Nat)      -- incomplete item: (rule, ptr)
deriving DecidableEq

structure FNode where
  lbl : Lbl
  s : Nat
  e : Nat

inductive Child where
  | node (m : Nat)                -- index of a symbol node
  | tok (a p q : Nat)             -- TokenNode: terminal, start offset, end offset
deriving DecidableEq

structure Fam where
  rule : Rule
  left : Option Nat
  right : Option Child

structure Forest where
  nodes : List FNode
  fams : List (List Fam)          -- node index ↦ its packed families

def Forest.node (F : Forest) (n : Nat) : FNode := F.nodes.getD n ⟨Lbl.sym 0, 0, 0⟩
def Forest.famsOf (F : Forest) (n : Nat) : List Fam := F.fams.getD n []

/-- a tree read from node `n` with yield `ws` (terminal types): one family, then trees of its children -/
inductive Reads (F : Forest) : Nat → List Nat → Prop
  | empty (n : Nat) (f : Fam) : f ∈ F.famsOf n → f.left = none → f.right = none → Reads F n []
  | tok1 (n : Nat) (f : Fam) (a p q : Nat) : f ∈ F.famsOf n → f.left = none → f.right = some (Child.tok a p q) → Reads F n [a]
  | node1 (n : Nat) (f : Fam) (m : Nat) (ws : List Nat) : f ∈ F.famsOf n → f.left = none → f.right = some (Child.node m) → Reads F m ws → Reads F n ws
  | tok2 (n : Nat) (f : Fam) (l a p q : Nat) (wsL : List Nat) : f ∈ F.famsOf n → f.left = some l → f.right = some (Child.tok a p q) →
      Reads F l wsL → Reads F n (wsL ++ [a])
  | node2 (n : Nat) (f : Fam) (l m : Nat) (wsL wsR : List Nat) : f ∈ F.famsOf n → f.left = some l → f.right = some (Child.node m) →
      Reads F l wsL → Reads F m wsR → Reads F n (wsL ++ wsR)

/-! ## reachability over ignore edges, decidable -/

def ignReach (L : FLattice) : Nat → Nat → Nat → Bool
  | 0, i, j => i == j
  | fuel+1, i, j => i == j || L.igns.any (fun e => e.1 == i && ignReach L fuel e.2 j)

theorem ignReach_sound (L : FLattice) : ∀ (fuel i j : Nat), ignReach L fuel i j = true → IgnStar L.toLattice i j := by
  intro fuel
  induction fuel with
  | zero => intro i j h; simp only [ignReach, beq_iff_eq] at h; subst h; exact IgnStar.refl i
  | succ fuel ih =>
    intro i j h
    simp only [ignReach, Bool.or_eq_true, beq_iff_eq, List.any_eq_true, Bool.and_eq_true] at h
    rcases h with h | ⟨⟨a, b⟩, hin, ha, hr⟩
    · subst h; exact IgnStar.refl i
    · simp only at ha hr
      subst ha
      exact IgnStar.step a b j hin (ih b j hr)

theorem path_of_ignStar {L : Lattice} {i j : Nat} (h : IgnStar L i j) : Path L i j [] := by
  induction h with
  | refl i => exact Path.nil i
  | step i j k hij _ ih => exact Path.ign i j k [] hij ih

/-! ## the local condition -/

/-- the dot position the family stands at, read off the node's label -/
def dotOf (lbl : Lbl) (r : Rule) : Option Nat :=
  match lbl with
  | Lbl.sym A => if r.lhs = A then some r.rhs.length else none
  | Lbl.lr0 r' d => if r' = r ∧ d < r.rhs.length then some d else none

/-- span and symbol of a right child: `(symbol it stands for, start, end)` -/
def childInfo (F : Forest) : Child → Option (Sym × Nat × Nat)
  | Child.tok a p q => some (Sym.t a, p, q)
  | Child.node m => match (F.node m).lbl with
      | Lbl.sym B => some (Sym.nt B, (F.node m).s, (F.node m).e)
      | Lbl.lr0 _ _ => none

def famOk (G : Grammar) (L : FLattice) (F : Forest) (fuel : Nat) (n : Nat) (f : Fam) : Bool :=
  let N := F.node n
  G.rules.contains f.rule &&
  match dotOf N.lbl f.rule with
  | none => false
  | some 0 => f.left.isNone && f.right.isNone && ignReach L fuel N.s N.e
  | some (d+1) =>
    match f.right with
    | none => false
    | some R =>
      (match R with | Child.tok a p q => L.edges.contains (a, p, q) | Child.node _ => true) &&
      match childInfo F R with
      | none => false
      | some (X, rs, re) =>
        (f.rule.rhs[d]? == some X) && ignReach L fuel re N.e &&
        match f.left with
        | none => d == 0 && ignReach L fuel N.s rs
        | some l => (F.node l).lbl == Lbl.lr0 f.rule d && (F.node l).s == N.s && (F.node l).e == rs && decide (0 < d)

def checkForest (G : Grammar) (L : FLattice) (F : Forest) (fuel : Nat) : Bool :=
  (List.range F.fams.length).all fun n => (F.famsOf n).all fun f => famOk G L F fuel n f

/-- what a label stands for: `A` for a symbol node, the first `d` symbols of the rule for an intermediate node -/
def LblClaim (G : Grammar) (lbl : Lbl) (ws : List Nat) : Prop :=
  match lbl with
  | Lbl.sym A => DerivesSeq G [Sym.nt A] ws
  | Lbl.lr0 r d => DerivesSeq G (r.rhs.take d) ws

/-- what a node claims about the yield of every tree below it -/
def Claim (G : Grammar) (L : FLattice) (F : Forest) (n : Nat) (ws : List Nat) : Prop :=
  Path L.toLattice (F.node n).s (F.node n).e ws ∧ LblClaim G (F.node n).lbl ws

theorem take_succ_of_getElem? {α : Type} (l : List α) (d : Nat) (x : α) (h : l[d]? = some x) : l.take (d+1) = l.take d ++ [x] := by
  rw [List.take_add_one, h]; rfl

/-- from the dot position and the derivation of the first `d` symbols to the label's claim -/
theorem claim_of_prefix (G : Grammar) (lbl : Lbl) (r : Rule) (d : Nat) (ws : List Nat) (hr : r ∈ G.rules) (hd : dotOf lbl r = some d)
    (h : DerivesSeq G (r.rhs.take d) ws) : LblClaim G lbl ws := by
  cases lbl with
  | sym A =>
    show DerivesSeq G [Sym.nt A] ws
    simp only [dotOf] at hd
    split at hd
    · rename_i hA; cases hd
      simp only [List.take_length] at h
      subst hA
      have := DerivesSeq.nonterm r [] ws [] hr h DerivesSeq.nil
      simpa using this
    · cases hd
  | lr0 r' d' =>
    show DerivesSeq G (r'.rhs.take d') ws
    simp only [dotOf] at hd
    split at hd
    · rename_i hc; cases hd; obtain ⟨h1, _⟩ := hc; subst h1; exact h
    · cases hd

theorem checkForest_fam (G : Grammar) (L : FLattice) (F : Forest) (fuel : Nat) (h : checkForest G L F fuel = true) (n : Nat) (f : Fam)
    (hf : f ∈ F.famsOf n) : famOk G L F fuel n f = true := by
  simp only [checkForest, List.all_eq_true, List.mem_range] at h
  have hn : n < F.fams.length := by
    rcases Nat.lt_or_ge n F.fams.length with h' | h'
    · exact h'
    · simp [Forest.famsOf, List.getD, List.getElem?_eq_none h'] at hf
  exact h n hn f hf

/-- **Soundness of a certified forest**: every tree read from any node satisfies the node's claim. -/
theorem forest_sound (G : Grammar) (L : FLattice) (F : Forest) (fuel : Nat) (h : checkForest G L F fuel = true) :
    ∀ n ws, Reads F n ws → Claim G L F n ws := by
  intro n ws hr
  induction hr with
  | empty n f hf hl hrt =>
    have hk := checkForest_fam G L F fuel h n f hf
    simp only [famOk, Bool.and_eq_true, List.contains_iff_mem] at hk
    obtain ⟨hrule, hk⟩ := hk
    cases hd : dotOf (F.node n).lbl f.rule with
    | none => simp [hd] at hk
    | some d =>
      cases d with
      | zero =>
        simp only [hd, Bool.and_eq_true] at hk
        refine ⟨path_of_ignStar (ignReach_sound L fuel _ _ hk.2), ?_⟩
        exact claim_of_prefix G _ f.rule 0 [] hrule hd (by simp; exact DerivesSeq.nil)
      | succ d => simp [hd, hrt] at hk
  | tok1 n f a p q hf hl hrt =>
    have hk := checkForest_fam G L F fuel h n f hf
    simp only [famOk, Bool.and_eq_true, List.contains_iff_mem] at hk
    obtain ⟨hrule, hk⟩ := hk
    cases hd : dotOf (F.node n).lbl f.rule with
    | none => simp [hd] at hk
    | some d =>
      cases d with
      | zero => simp [hd, hrt] at hk
      | succ d =>
        simp only [hd, hrt, hl, childInfo, Bool.and_eq_true, List.contains_iff_mem, beq_iff_eq] at hk
        obtain ⟨hedge, ⟨hX, hend⟩, hd0, hstart⟩ := hk
        subst hd0
        have hp : Path L.toLattice (F.node n).s (F.node n).e [a] := by
          have h1 := path_of_ignStar (ignReach_sound L fuel _ _ hstart)
          have h2 : Path L.toLattice p (F.node n).e [a] := Path.edge p q _ a [] hedge (path_of_ignStar (ignReach_sound L fuel _ _ hend))
          simpa using Path.append h1 h2
        refine ⟨hp, claim_of_prefix G _ f.rule 1 [a] hrule hd ?_⟩
        rw [take_succ_of_getElem? _ 0 _ hX]
        simpa using DerivesSeq.term a [] [] DerivesSeq.nil
  | node1 n f m ws hf hl hrt _ ih =>
    have hk := checkForest_fam G L F fuel h n f hf
    simp only [famOk, Bool.and_eq_true, List.contains_iff_mem] at hk
    obtain ⟨hrule, hk⟩ := hk
    cases hd : dotOf (F.node n).lbl f.rule with
    | none => simp [hd] at hk
    | some d =>
      cases d with
      | zero => simp [hd, hrt] at hk
      | succ d =>
        obtain ⟨ihp, ihc⟩ := ih
        cases hlm : (F.node m).lbl with
        | lr0 r' d' => simp [hd, hrt, childInfo, hlm] at hk
        | sym B =>
          simp only [hd, hrt, hl, childInfo, hlm, Bool.and_eq_true, beq_iff_eq, Bool.true_and] at hk
          obtain ⟨⟨hX, hend⟩, hd0, hstart⟩ := hk
          subst hd0
          rw [hlm] at ihc
          have hp : Path L.toLattice (F.node n).s (F.node n).e ws := by
            have h1 := path_of_ignStar (ignReach_sound L fuel _ _ hstart)
            have h3 := path_of_ignStar (ignReach_sound L fuel _ _ hend)
            simpa using Path.append (Path.append h1 ihp) h3
          refine ⟨hp, claim_of_prefix G _ f.rule 1 ws hrule hd ?_⟩
          rw [take_succ_of_getElem? _ 0 _ hX]
          have hc : DerivesSeq G [Sym.nt B] ws := ihc
          simpa using hc
  | tok2 n f l a p q wsL hf hl hrt _ ih =>
    have hk := checkForest_fam G L F fuel h n f hf
    simp only [famOk, Bool.and_eq_true, List.contains_iff_mem] at hk
    obtain ⟨hrule, hk⟩ := hk
    cases hd : dotOf (F.node n).lbl f.rule with
    | none => simp [hd] at hk
    | some d =>
      cases d with
      | zero => simp [hd, hrt] at hk
      | succ d =>
        obtain ⟨ihp, ihc⟩ := ih
        simp only [hd, hrt, hl, childInfo, Bool.and_eq_true, List.contains_iff_mem, beq_iff_eq, decide_eq_true_eq] at hk
        obtain ⟨hedge, ⟨hX, hend⟩, ⟨⟨hlbl, hls⟩, hle⟩, _⟩ := hk
        rw [hlbl] at ihc
        rw [hls, hle] at ihp
        have hp : Path L.toLattice (F.node n).s (F.node n).e (wsL ++ [a]) :=
          Path.append ihp (Path.edge p q _ a [] hedge (path_of_ignStar (ignReach_sound L fuel _ _ hend)))
        refine ⟨hp, claim_of_prefix G _ f.rule (d+1) _ hrule hd ?_⟩
        rw [take_succ_of_getElem? _ d _ hX]
        exact DerivesSeq.append ihc (DerivesSeq.term a [] [] DerivesSeq.nil)
  | node2 n f l m wsL wsR hf hl hrt _ _ ihL ihR =>
    have hk := checkForest_fam G L F fuel h n f hf
    simp only [famOk, Bool.and_eq_true, List.contains_iff_mem] at hk
    obtain ⟨hrule, hk⟩ := hk
    cases hd : dotOf (F.node n).lbl f.rule with
    | none => simp [hd] at hk
    | some d =>
      cases d with
      | zero => simp [hd, hrt] at hk
      | succ d =>
        obtain ⟨ihLp, ihLc⟩ := ihL
        obtain ⟨ihRp, ihRc⟩ := ihR
        cases hlm : (F.node m).lbl with
        | lr0 r' d' => simp [hd, hrt, childInfo, hlm] at hk
        | sym B =>
          simp only [hd, hrt, hl, childInfo, hlm, Bool.and_eq_true, beq_iff_eq, Bool.true_and, decide_eq_true_eq] at hk
          obtain ⟨⟨hX, hend⟩, ⟨⟨hlbl, hls⟩, hle⟩, _⟩ := hk
          rw [hlbl] at ihLc
          rw [hlm] at ihRc
          rw [hls, hle] at ihLp
          have hp : Path L.toLattice (F.node n).s (F.node n).e (wsL ++ wsR) := by
            have h3 := path_of_ignStar (ignReach_sound L fuel _ _ hend)
            simpa using Path.append (Path.append ihLp ihRp) h3
          refine ⟨hp, claim_of_prefix G _ f.rule (d+1) _ hrule hd ?_⟩
          rw [take_succ_of_getElem? _ d _ hX]
          have : DerivesSeq G [Sym.nt B] wsR := ihRc
          exact DerivesSeq.append ihLc this

/-- for the root of a forest: every tree it encodes is a parse of the input from `start` -/
theorem certified_root_trees_are_parses (G : Grammar) (L : FLattice) (F : Forest) (fuel : Nat) (h : checkForest G L F fuel = true)
    (root start : Nat) (hroot : (F.node root).lbl = Lbl.sym start) (ws : List Nat) (hr : Reads F root ws) :
    Path L.toLattice (F.node root).s (F.node root).e ws ∧ DerivesSeq G [Sym.nt start] ws := by
  have := forest_sound G L F fuel h root ws hr
  unfold Claim at this
  rw [hroot] at this
  exact this

end ForestCert
