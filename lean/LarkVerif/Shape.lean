namespace ShapeProto

/-- shaped values: a token, a tree, or the `None` placeholder -/
inductive Val where
  | tok (ty : Nat) (v : Nat)
  | tree (data : Nat) (kids : List Val)
  | none

/-- what the tree builder needs to know about one symbol of an expansion -/
structure SymInfo where
  isTerm : Bool
  filterOut : Bool      -- anonymous string literal or `_TERMINAL`
  inlineRule : Bool     -- rule whose name starts with `_`
deriving DecidableEq

def included (keepAll : Bool) (s : SymInfo) : Bool := keepAll || !(s.isTerm && s.filterOut)
def toExpand (s : SymInfo) : Bool := !s.isTerm && s.inlineRule

def kidsOf : Val → List Val
  | Val.tree _ ks => ks
  | _ => []

/-- what one matched symbol contributes to its parent's children (docs/tree_construction.md) -/
def contrib (keepAll : Bool) (s : SymInfo) (c : Val) : List Val :=
  if included keepAll s then (if toExpand s then kidsOf c else [c]) else []

/-- SPEC: walk the rule's items in grammar order; `true` marks the slot of an unmatched `[...]` item
    (`_EMPTY`, load_grammar.py:378), `false` the next real symbol with its child value -/
def specChildren (keepAll : Bool) : List Bool → List (SymInfo × Val) → List Val
  | [], _ => []
  | true :: ms, cs => Val.none :: specChildren keepAll ms cs
  | false :: ms, (s, c) :: cs => contrib keepAll s c ++ specChildren keepAll ms cs
  | false :: _, [] => []

/-- CODE, part 1 (parse_tree_builder.py:164-168): `''.join(str(int(b)))…split('0')` — run lengths of `true`
    before each `false` and after the last one -/
def runs : List Bool → List Nat
  | [] => [0]
  | true :: ms => match runs ms with
    | k :: rest => (k + 1) :: rest
    | [] => [1]
  | false :: ms => 0 :: runs ms

/-- CODE, part 2 (parse_tree_builder.py:172-180 + ChildFilter.__call__): walk the symbols with their run
    lengths; `None`s in front of a filtered-out symbol are carried to the next included one, or to the end -/
def applyPlan (keepAll : Bool) : List Nat → List (SymInfo × Val) → Nat → List Val
  | r :: rs, (s, c) :: cs, acc =>
      if included keepAll s then
        List.replicate (acc + r) Val.none ++ (if toExpand s then kidsOf c else [c]) ++ applyPlan keepAll rs cs 0
      else applyPlan keepAll rs cs (acc + r)
  | r :: _, [], acc => List.replicate (acc + r) Val.none
  | [], _, acc => List.replicate acc Val.none

theorem runs_ne_nil : ∀ ms, runs ms ≠ [] := by
  intro ms
  induction ms with
  | nil => simp [runs]
  | cons b ms ih =>
    cases b with
    | true => simp only [runs]; split <;> simp
    | false => simp [runs]

theorem replicate_none_comm (k : Nat) (X : List Val) :
    List.replicate k Val.none ++ Val.none :: X = Val.none :: (List.replicate k Val.none ++ X) := by
  induction k with
  | zero => rfl
  | succ k ih => simp only [List.replicate_succ, List.cons_append, ih]

theorem replicate_succ_none (k : Nat) : List.replicate (k + 1) Val.none = Val.none :: List.replicate k Val.none := rfl

/-- the run-length/carry implementation places every `None` exactly where the spec does -/
theorem applyPlan_eq_spec (keepAll : Bool) : ∀ (ms : List Bool) (cs : List (SymInfo × Val)) (acc : Nat),
    (ms.count false = cs.length) →
    applyPlan keepAll (runs ms) cs acc = List.replicate acc Val.none ++ specChildren keepAll ms cs := by
  intro ms
  induction ms with
  | nil =>
    intro cs acc h
    have : cs = [] := by cases cs <;> simp_all
    subst this
    simp [runs, applyPlan, specChildren]
  | cons b ms ih =>
    intro cs acc h
    cases b with
    | true =>
      simp only [List.count_cons, beq_iff_eq, Bool.true_eq_false, if_false, Nat.add_zero] at h
      have ih' := ih cs
      -- `runs (true :: ms)` bumps the first run of `runs ms`
      cases hr : runs ms with
      | nil => exact absurd hr (runs_ne_nil ms)
      | cons k rest =>
        simp only [runs, hr, specChildren]
        -- behaviour of applyPlan depends on the first run only through `acc + r`
        have key : ∀ acc, applyPlan keepAll ((k + 1) :: rest) cs acc = applyPlan keepAll (k :: rest) cs (acc + 1) := by
          intro acc
          cases cs with
          | nil =>
            simp only [applyPlan]
            have : acc + (k + 1) = acc + 1 + k := by omega
            rw [this]
          | cons sc cs' =>
            obtain ⟨s, c⟩ := sc
            simp only [applyPlan]
            have : acc + (k + 1) = acc + 1 + k := by omega
            rw [this]
        rw [key, ← hr, ih' (acc + 1) h, replicate_succ_none, replicate_none_comm]
        rfl
    | false =>
      simp only [List.count_cons, beq_self_eq_true, if_true] at h
      cases cs with
      | nil => simp at h
      | cons sc cs' =>
        obtain ⟨s, c⟩ := sc
        simp only [List.length_cons, Nat.add_right_cancel_iff] at h
        simp only [runs, applyPlan, specChildren, contrib, Nat.add_zero]
        by_cases hi : included keepAll s = true
        · simp only [hi, if_true]
          rw [ih cs' 0 h]
          simp
        · simp only [hi, Bool.false_eq_true, if_false]
          rw [ih cs' acc h]
          simp

/-- `?rule` without alias and with exactly one child is replaced by it (parse_tree_builder.py:16) -/
def finish (expand1 : Bool) (alias : Option Nat) (name : Nat) (kids : List Val) : Val :=
  match expand1, alias, kids with
  | true, Option.none, [k] => k
  | _, some a, _ => Val.tree a kids
  | _, Option.none, _ => Val.tree name kids


/-- what the builder knows about a rule alternative -/
structure RuleInfo where
  name : Nat
  alias : Option Nat
  expand1 : Bool
  keepAll : Bool
  markers : List Bool        -- `empty_indices` when `maybe_placeholders` is on, else all `false`

/-- derivation forests annotated with the symbol each tree stands for -/
inductive D where
  | nil
  | leaf (s : SymInfo) (ty v : Nat) (rest : D)
  | node (s : SymInfo) (r : RuleInfo) (kids : D) (rest : D)

def D.len : D → Nat
  | .nil => 0
  | .leaf _ _ _ rest => rest.len + 1
  | .node _ _ _ rest => rest.len + 1

/-- every node's marker list has one `false` per child -/
def D.WF : D → Prop
  | .nil => True
  | .leaf _ _ _ rest => rest.WF
  | .node _ r kids rest => r.markers.count false = kids.len ∧ kids.WF ∧ rest.WF

/-- SPEC (documentation): shape every tree of the forest, children in grammar order -/
def shapeList : D → List (SymInfo × Val)
  | .nil => []
  | .leaf s ty v rest => (s, Val.tok ty v) :: shapeList rest
  | .node s r kids rest =>
      (s, finish r.expand1 r.alias r.name (specChildren r.keepAll r.markers (shapeList kids))) :: shapeList rest

/-- CODE: the callback chain `ExpandSingleChild ∘ ChildFilter` applied bottom-up by the parser drivers -/
def buildList : D → List (SymInfo × Val)
  | .nil => []
  | .leaf s ty v rest => (s, Val.tok ty v) :: buildList rest
  | .node s r kids rest =>
      (s, finish r.expand1 r.alias r.name (applyPlan r.keepAll (runs r.markers) (buildList kids) 0)) :: buildList rest

theorem buildList_length : ∀ d : D, (buildList d).length = d.len := by
  intro d
  induction d with
  | nil => rfl
  | leaf s ty v rest ih => simp [buildList, D.len, ih]
  | node s r kids rest _ ih => simp [buildList, D.len, ih]

/-- C03: the tree every engine builds from a derivation is the documented shaping of that derivation -/
theorem buildList_eq_shapeList : ∀ d : D, d.WF → buildList d = shapeList d := by
  intro d
  induction d with
  | nil => intro _; rfl
  | leaf s ty v rest ih => intro h; simp only [buildList, shapeList]; rw [ih h]
  | node s r kids rest ihk ihr =>
    intro h
    obtain ⟨hm, hk, hr⟩ := h
    simp only [buildList, shapeList]
    rw [ihr hr]
    have hlen : r.markers.count false = (buildList kids).length := by rw [buildList_length]; exact hm
    rw [applyPlan_eq_spec r.keepAll r.markers (buildList kids) 0 hlen, ihk hk]
    simp

end ShapeProto
