import LarkVerif.LRCheck
import LarkVerif.FirstSets
/-! Executable completeness certificate: a Boolean check over a concrete table, an item-lookahead annotation and NULLABLE/FIRST tables, with the
    reflection theorem `checkClosed_sound : checkClosed … = true → TableClosed …` — so that `parse_complete` applies to lark's *own* table for each
    generated grammar (translation validation, kernel-checked), exactly as `checkSafe` does for soundness. -/
namespace LRProto
open EarleyProto

/-- lookahead sets attached to the items of each state -/
structure Ann where
  la : List ((Nat × Rule × Nat) × List Nat)

def Ann.get (A : Ann) (q : Nat) (it : Rule × Nat) : List Nat := (A.la.lookup (q, it.1, it.2)).getD []
def Ann.rel (A : Ann) : Nat → Rule × Nat → Nat → Prop := fun q it c => c ∈ A.get q it

def fnOf (nullableL : List Nat) (firstL : List (Nat × List Nat)) : FN :=
  { nullable := fun a => nullableL.contains a, first := fun a => (firstL.lookup a).getD [] }

def subsetB (a b : List Nat) : Bool := a.all fun c => b.contains c

theorem subsetB_spec {a b : List Nat} (h : subsetB a b = true) : ∀ c ∈ a, c ∈ b := by
  intro c hc
  simp only [subsetB, List.all_eq_true, List.contains_iff_mem] at h
  exact h c hc

def isReduce (a : Option Action) (r : Rule) : Bool :=
  match a with
  | some (Action.reduce r') => r' == r
  | _ => false

theorem isReduce_spec {a : Option Action} {r : Rule} (h : isReduce a r = true) : a = some (Action.reduce r) := by
  unfold isReduce at h
  split at h
  · rename_i r'; simp at h; rw [h]
  · cases h

/-- the target of the transition on `X` from `q`, if any -/
def FTable.target (F : FTable) (q : Nat) (X : Sym) : Option Nat :=
  match X with
  | Sym.t a => match F.action q a with
    | some (Action.shift q') => some q'
    | _ => none
  | Sym.nt B => F.goto q B

theorem FTable.target_spec {F : FTable} {q q' : Nat} {X : Sym} (h : F.target q X = some q') : F.toTable.trans q X q' := by
  cases X with
  | t a =>
    simp only [FTable.target] at h
    simp only [Table.trans, FTable.toTable]
    split at h
    · rename_i q'' heq; simp at h; rw [← h]; exact heq
    · cases h
  | nt B => simpa [FTable.target, Table.trans, FTable.toTable] using h

def closureOk (G : Grammar) (F : FTable) (T : FN) (A : Ann) (q : Nat) (it : Rule × Nat) : Bool :=
  match it.1.rhs[it.2]? with
  | some (Sym.nt B) =>
    G.rules.all fun r' =>
      r'.lhs != B ||
        ((F.itemsOf q).contains (r', 0) &&
         subsetB (T.firstSeq (it.1.rhs.drop (it.2 + 1))) (A.get q (r', 0)) &&
         (!T.nullableSeq (it.1.rhs.drop (it.2 + 1)) || subsetB (A.get q it) (A.get q (r', 0))))
  | _ => true

def gotoOk (F : FTable) (A : Ann) (q : Nat) (it : Rule × Nat) : Bool :=
  match it.1.rhs[it.2]? with
  | some X =>
    match F.target q X with
    | some q' => (F.itemsOf q').contains (it.1, it.2 + 1) && subsetB (A.get q it) (A.get q' (it.1, it.2 + 1))
    | none => false
  | none => true

def reduceOk (F : FTable) (A : Ann) (q : Nat) (it : Rule × Nat) : Bool :=
  it.2 != it.1.rhs.length || (A.get q it).all fun c => isReduce (F.action q c) it.1

/-- the executable certificate check for `TableClosed` -/
def checkClosed (G : Grammar) (F : FTable) (T : FN) (A : Ann) (s0 eof : Nat) : Bool :=
  T.closedB G &&
  ((List.range F.items.length).all fun q => (F.itemsOf q).all fun it => closureOk G F T A q it && gotoOk F A q it && reduceOk F A q it) &&
  (G.rules.all fun r => r.lhs != s0 || ((F.itemsOf F.start).contains (r, 0) && (A.get F.start (r, 0)).contains eof)) &&
  (F.goto F.start s0 == some F.final)

theorem mem_items_lt {F : FTable} {q : Nat} {it : Rule × Nat} (h : it ∈ F.itemsOf q) : q < F.items.length := by
  unfold FTable.itemsOf at h
  by_cases hq : q < F.items.length
  · exact hq
  · have : F.items.getD q [] = [] := by
      simp [List.getD, List.getElem?_eq_none (by omega : F.items.length ≤ q)]
    rw [this] at h; cases h

/-- REFLECTION: a table that passes the check is closed under the LALR conditions, hence (by `parse_complete`) the driver running on it accepts
    every sentence. -/
theorem checkClosed_sound (G : Grammar) (F : FTable) (T : FN) (A : Ann) (s0 eof : Nat) (h : checkClosed G F T A s0 eof = true) :
    TableClosed G F.toTable s0 eof A.rel := by
  simp only [checkClosed, Bool.and_eq_true] at h
  obtain ⟨⟨⟨hT, hitems⟩, hstart⟩, hacc⟩ := h
  have hit : ∀ q it, it ∈ F.itemsOf q → closureOk G F T A q it = true ∧ gotoOk F A q it = true ∧ reduceOk F A q it = true := by
    intro q it hm
    simp only [List.all_eq_true, List.mem_range, Bool.and_eq_true] at hitems
    have := hitems q (mem_items_lt hm) it hm
    exact ⟨this.1.1, this.1.2, this.2⟩
  refine ⟨?_, ?_, ?_, ?_, ?_⟩
  · -- closure
    intro q r d B hm hd r' hr' hl
    have hc := (hit q (r, d) hm).1
    simp only [closureOk, hd, List.all_eq_true] at hc
    have := hc r' hr'
    simp only [Bool.or_eq_true, bne_iff_ne, ne_eq, Bool.and_eq_true, List.contains_iff_mem, Bool.not_eq_true'] at this
    rcases this with hne | ⟨⟨hmem, hfirst⟩, hnull⟩
    · exact absurd hl hne
    · refine ⟨hmem, ?_⟩
      apply firstOf_of_tables hT
      · intro c hc'; exact subsetB_spec hfirst c hc'
      · intro hn c hL
        rcases hnull with hnull | hnull
        · rw [hn] at hnull; cases hnull
        · exact subsetB_spec hnull c hL
  · -- goto
    intro q r d X hm hd
    have hg := (hit q (r, d) hm).2.1
    simp only [gotoOk, hd] at hg
    split at hg
    · rename_i q' ht
      simp only [Bool.and_eq_true, List.contains_iff_mem] at hg
      exact ⟨q', FTable.target_spec ht, hg.1, fun c hc => subsetB_spec hg.2 c hc⟩
    · cases hg
  · -- reduce
    intro q r c hm hla
    have hr := (hit q (r, r.rhs.length) hm).2.2
    simp only [reduceOk, bne_self_eq_false, Bool.false_or, List.all_eq_true] at hr
    exact isReduce_spec (hr c hla)
  · -- start
    intro r hr hl
    simp only [List.all_eq_true, Bool.or_eq_true, bne_iff_ne, ne_eq, Bool.and_eq_true, List.contains_iff_mem] at hstart
    rcases hstart r hr with hne | ⟨h1, h2⟩
    · exact absurd hl hne
    · exact ⟨h1, h2⟩
  · -- accept
    have : F.goto F.start s0 = some F.final := by simpa using hacc
    exact this

/-- completeness of lark's own table, per grammar, for every sentence -/
theorem checked_table_complete (G : Grammar) (F : FTable) (T : FN) (A : Ann) (s0 eof : Nat) (h : checkClosed G F T A s0 eof = true)
    (toks : List Nat) (hd : DerivesSeq G [Sym.nt s0] toks) :
    ∃ F0, ∀ fuel, F0 < fuel → ∃ v, parse F.toTable eof fuel toks = Outcome.accept v :=
  parse_complete (checkClosed_sound G F T A s0 eof h) toks hd

end LRProto
