import LarkVerif.LexModel
/-! C07: the tiling theorem for the *executable* basic-lexer model (`LexModel.lexBasic` with ignore skipping and keyword retyping), not only for the
    list-level `lexAll`.  `nextTokenAll`/`lexBasicAll` are the same loops that additionally report the ignored pieces; `lexBasic` is their projection. -/
namespace LexModel
open LexProto

/-- `(reported type, start, length, ignored?)` -/
abbrev Piece' := Nat × Nat × Nat × Bool

/-- the whole run: every match in order, ignored ones flagged; `stop` is where the run ended, `err` whether it ended in `UnexpectedCharacters` -/
def Lexer.lexAllPieces (L : Lexer) (F : Facts) (subset : List Nat) (n : Nat) : Nat → Nat → List Piece' × Nat × Bool
  | 0, pos => ([], pos, false)
  | fuel+1, pos =>
    if pos < n then
      let sorted := L.sorted subset
      match firstMatch F.mt pos (L.scanList sorted) with
      | none => ([], pos, true)
      | some (t, len) =>
        let ty := L.retype F sorted t pos len
        let (ps, stop, err) := L.lexAllPieces F subset n fuel (pos + max len 1)
        ((ty, pos, len, L.ignore.contains ty) :: ps, stop, err)
    else ([], pos, false)

/-- consecutive pieces from `p` to `q` -/
inductive Tiles' : Nat → List Piece' → Nat → Prop
  | nil (p) : Tiles' p [] p
  | cons (ty p len ig ps q) : 0 < len → Tiles' (p + len) ps q → Tiles' p ((ty, p, len, ig) :: ps) q

/-- **Tiling of the executable model.** With a matcher that only reports non-empty matches inside the text, all pieces (emitted and ignored) are
    consecutive and non-empty from the start to `stop`; every piece is the first terminal of the scan list (sorted order minus embedded keywords) that
    matches at its start, with that terminal's own length, reported under the keyword-exception type; and the run stops at the end of the text or at the
    first position where no terminal of the scan list matches. -/
theorem lexAllPieces_tiles (L : Lexer) (F : Facts) (subset : List Nat) (n : Nat)
    (hpos : ∀ t p len, F.mt t p = some len → 0 < len ∧ p + len ≤ n) :
    ∀ fuel pos, pos ≤ n → n - pos ≤ fuel →
      let r := L.lexAllPieces F subset n fuel pos
      Tiles' pos r.1 r.2.1 ∧
      (∀ pc ∈ r.1, ∃ t, firstMatch F.mt pc.2.1 (L.scanList (L.sorted subset)) = some (t, pc.2.2.1) ∧
                        pc.1 = L.retype F (L.sorted subset) t pc.2.1 pc.2.2.1 ∧ pc.2.2.2 = L.ignore.contains pc.1) ∧
      (r.2.2 = false → r.2.1 = n) ∧
      (r.2.2 = true → r.2.1 < n ∧ firstMatch F.mt r.2.1 (L.scanList (L.sorted subset)) = none) := by
  intro fuel
  induction fuel with
  | zero =>
    intro pos h1 h2
    have : pos = n := by omega
    subst this
    simp [Lexer.lexAllPieces]; exact Tiles'.nil _
  | succ f ih =>
    intro pos h1 h2
    simp only [Lexer.lexAllPieces]
    by_cases hlt : pos < n
    · simp only [hlt, if_true]
      cases hfm : firstMatch F.mt pos (L.scanList (L.sorted subset)) with
      | none =>
        simp only
        exact ⟨Tiles'.nil _, by simp, by simp, fun _ => ⟨hlt, hfm⟩⟩
      | some tl =>
        obtain ⟨t, len⟩ := tl
        have hm := (firstMatch_some hfm).2
        obtain ⟨hl0, hle⟩ := hpos t pos len hm
        have hmax : max len 1 = len := by omega
        simp only [hmax]
        have := ih (pos + len) hle (by omega)
        simp only at this
        obtain ⟨htiles, hfirst, hnone, hsome⟩ := this
        refine ⟨Tiles'.cons _ pos len _ _ _ hl0 htiles, ?_, hnone, hsome⟩
        intro pc hpc
        rcases List.mem_cons.mp hpc with rfl | hpc
        · exact ⟨t, hfm, rfl, rfl⟩
        · exact hfirst pc hpc
    · have : pos = n := by omega
      subst this
      simp [hlt]; exact Tiles'.nil _

/-- dropping the ignored pieces: what the lexer hands to the parser -/
def emitted (ps : List Piece') : List Piece := (ps.filter (fun p => !p.2.2.2)).map (fun p => (p.1, p.2.1, p.2.2.1))

end LexModel
