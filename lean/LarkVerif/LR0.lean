import LarkVerif.Earley
import LarkVerif.Saturate
/-! # LR(0) item sets (`lark/parsers/lalr_analysis.py:170 LALR_Analyzer.compute_lr0_states`, `grammar_analysis.py expand_rule`)

A state of lark's automaton is the closure of its kernel: the kernel items plus, for every item with the dot in front of a nonterminal `B`, every
rule of `B` with the dot at 0 — transitively.  The code computes it with a work-list BFS (`expand_rule`) per kernel; the model is the generic
`saturate` fixpoint, and `mem_closure_iff` says it is *exactly* the inductively defined closure, for every grammar and kernel.
`goto` advances the dot over one symbol and closes again.  The checker `checkLR0` evaluates, on the item sets and transitions exported from lark's
own analyzer, that every state is the closure of its kernel and every transition leads to the closure of the advanced items (and that no expected
symbol lacks a transition); `checkLR0_sound` turns a `true` into the corresponding statement about `Closure`.  -/
namespace LR0
open EarleyProto Sat

abbrev It := Rule × Nat

def itemUniv (G : Grammar) : List It := G.rules.flatMap fun r => (List.range (r.rhs.length + 1)).map fun d => (r, d)

theorem mem_itemUniv {G : Grammar} {r : Rule} (h : r ∈ G.rules) : (r, 0) ∈ itemUniv G := by
  simp only [itemUniv, List.mem_flatMap, List.mem_map, List.mem_range]
  exact ⟨r, h, 0, by omega, rfl⟩

/-- one round of prediction -/
def closeStep (G : Grammar) (S : List It) : List It :=
  S.flatMap fun it =>
    match it.1.rhs[it.2]? with
    | some (Sym.nt B) => (G.rules.filter (fun r' => r'.lhs = B)).map (fun r' => (r', 0))
    | _ => []

/-- `State.closure` of a kernel -/
def closure (G : Grammar) (K : List It) : List It := saturate (itemUniv G) (closeStep G) K

inductive Closure (G : Grammar) (K : List It) : It → Prop
  | kernel (it : It) : it ∈ K → Closure G K it
  | pred (r : Rule) (d B : Nat) (r' : Rule) : Closure G K (r, d) → r.rhs[d]? = some (Sym.nt B) → r' ∈ G.rules → r'.lhs = B → Closure G K (r', 0)

theorem mem_closeStep {G : Grammar} {S : List It} {x : It} :
    x ∈ closeStep G S ↔ ∃ r d B, (r, d) ∈ S ∧ r.rhs[d]? = some (Sym.nt B) ∧ x.1 ∈ G.rules ∧ x.1.lhs = B ∧ x.2 = 0 := by
  simp only [closeStep, List.mem_flatMap]
  constructor
  · rintro ⟨⟨r, d⟩, hin, hx⟩
    cases hs : r.rhs[d]? with
    | none => simp [hs] at hx
    | some s =>
      cases s with
      | t a => simp [hs] at hx
      | nt B =>
        simp only [hs, List.mem_map, List.mem_filter, decide_eq_true_eq] at hx
        obtain ⟨r', ⟨hr', hl⟩, rfl⟩ := hx
        exact ⟨r, d, B, hin, hs, hr', hl, rfl⟩
  · rintro ⟨r, d, B, hin, hs, hr', hl, h0⟩
    refine ⟨(r, d), hin, ?_⟩
    simp only [hs, List.mem_map, List.mem_filter, decide_eq_true_eq]
    exact ⟨x.1, ⟨hr', hl⟩, by cases x; simp_all⟩

/-- **The executable closure is exactly the LR(0) closure of the kernel**, for every grammar and kernel. -/
theorem mem_closure_iff (G : Grammar) (K : List It) (x : It) : x ∈ closure G K ↔ Closure G K x := by
  constructor
  · intro h
    refine saturate_least (itemUniv G) (closeStep G) (Closure G K) ?_ K (fun y hy => Closure.kernel y hy) x h
    intro t ht y hy
    obtain ⟨r, d, B, hin, hs, hr', hl, h0⟩ := mem_closeStep.mp hy
    have := Closure.pred r d B y.1 (ht _ hin) hs hr' hl
    cases y; simp_all
  · intro h
    induction h with
    | kernel it hit => exact saturate_superset _ _ _ it hit
    | pred r d B r' _ hs hr' hl ih =>
      apply saturate_closed (itemUniv G) (closeStep G) K (r', 0) ?_ (mem_itemUniv hr')
      exact mem_closeStep.mpr ⟨r, d, B, ih, hs, hr', hl, rfl⟩

/-- the items of `S` advanced over `X` (the kernel of the successor state) -/
def gotoKernel (S : List It) (X : Sym) : List It :=
  S.filterMap fun it => if it.1.rhs[it.2]? = some X then some (it.1, it.2 + 1) else none

def goto (G : Grammar) (S : List It) (X : Sym) : List It := closure G (gotoKernel S X)

theorem mem_gotoKernel {S : List It} {X : Sym} {x : It} : x ∈ gotoKernel S X ↔ ∃ d, (x.1, d) ∈ S ∧ x.1.rhs[d]? = some X ∧ x.2 = d + 1 := by
  simp only [gotoKernel, List.mem_filterMap]
  constructor
  · rintro ⟨⟨r, d⟩, hin, hx⟩
    split at hx
    · rename_i hs; cases hx; exact ⟨d, hin, hs, rfl⟩
    · cases hx
  · rintro ⟨d, hin, hs, hd⟩
    exact ⟨(x.1, d), hin, by simp [hs]; cases x; simp_all⟩

/-! ## checking lark's exported automaton -/

def sameSet (a b : List It) : Bool := a.all (fun x => b.contains x) && b.all (fun x => a.contains x)

theorem sameSet_spec {a b : List It} (h : sameSet a b = true) : ∀ x, x ∈ a ↔ x ∈ b := by
  simp only [sameSet, Bool.and_eq_true, List.all_eq_true, List.contains_iff_mem] at h
  intro x; exact ⟨h.1 x, h.2 x⟩

/-- the symbols some item of the state has its dot in front of -/
def expected (S : List It) : List Sym := S.filterMap fun it => it.1.rhs[it.2]?

structure Auto where
  items : List (List It)                 -- state number ↦ item set (lark: `State.closure`)
  kernels : List (List It)               -- state number ↦ kernel (lark: `State.kernel`)
  trans : List (Nat × Sym × Nat)         -- `State.transitions`

def Auto.itemsOf (A : Auto) (q : Nat) : List It := A.items.getD q []
def Auto.kernelOf (A : Auto) (q : Nat) : List It := A.kernels.getD q []

def checkLR0 (G : Grammar) (A : Auto) : Bool :=
  (List.range A.items.length).all (fun q => sameSet (A.itemsOf q) (closure G (A.kernelOf q))) &&
  A.trans.all (fun t => sameSet (A.kernelOf t.2.2) (gotoKernel (A.itemsOf t.1) t.2.1) && decide (t.2.2 < A.items.length)) &&
  (List.range A.items.length).all (fun q => (expected (A.itemsOf q)).all fun X => A.trans.any fun t => t.1 == q && t.2.1 == X)

/-- what a passed check means: every state is the LR(0) closure of its kernel; every transition leads to the state whose kernel is the advanced items;
    every symbol an item expects has a transition -/
theorem checkLR0_sound (G : Grammar) (A : Auto) (h : checkLR0 G A = true) :
    (∀ q, q < A.items.length → ∀ x, x ∈ A.itemsOf q ↔ Closure G (A.kernelOf q) x) ∧
    (∀ p X q, (p, X, q) ∈ A.trans → q < A.items.length ∧ ∀ x, x ∈ A.kernelOf q ↔ ∃ d, (x.1, d) ∈ A.itemsOf p ∧ x.1.rhs[d]? = some X ∧ x.2 = d + 1) ∧
    (∀ q, q < A.items.length → ∀ r d X, (r, d) ∈ A.itemsOf q → r.rhs[d]? = some X → ∃ q', (q, X, q') ∈ A.trans) := by
  simp only [checkLR0, Bool.and_eq_true, List.all_eq_true, List.mem_range, decide_eq_true_eq] at h
  obtain ⟨⟨h1, h2⟩, h3⟩ := h
  refine ⟨?_, ?_, ?_⟩
  · intro q hq x
    rw [sameSet_spec (h1 q hq) x, mem_closure_iff]
  · intro p X q hin
    have := h2 (p, X, q) hin
    refine ⟨this.2, fun x => ?_⟩
    rw [sameSet_spec this.1 x, mem_gotoKernel]
  · intro q hq r d X hin hs
    have hX : X ∈ expected (A.itemsOf q) := by
      simp only [expected, List.mem_filterMap]
      exact ⟨(r, d), hin, hs⟩
    have := h3 q hq X hX
    simp only [List.any_eq_true, Bool.and_eq_true, beq_iff_eq] at this
    obtain ⟨⟨p, Y, q'⟩, hin', hp, hY⟩ := this
    simp only at hp hY
    subst hp; subst hY
    exact ⟨q', hin'⟩

/-- non-vacuity: `S → S a | b` — the closure of the root kernel holds both rules of `S` -/
def exG : Grammar := ⟨[⟨0, [Sym.nt 0, Sym.t 0]⟩, ⟨0, [Sym.t 1]⟩, ⟨1, [Sym.nt 0]⟩]⟩
example : closure exG [(⟨1, [Sym.nt 0]⟩, 0)] = [(⟨1, [Sym.nt 0]⟩, 0), (⟨0, [Sym.nt 0, Sym.t 0]⟩, 0), (⟨0, [Sym.t 1]⟩, 0)] := by
  simp [closure, saturate, closeStep, exG, itemUniv, dedup]

end LR0
