/-! C19 — the Reconstructor: (1) the text-assembly loop of `Reconstructor.reconstruct` (reconstruct.py:96-104) and (2) the composition argument
    "the emitted tokens are the yield of a derivation whose shape is the tree ⇒ re-parsing gives the tree". -/
namespace ReconsProto

/-- reconstruct.py:98-104: a blank is inserted between two items exactly when the previous item ends and the next one starts with an
    identifier character (`prev_item` is updated even by an empty item) -/
def joinFrom (isId : Char → Bool) : List Char → List (List Char) → List Char
  | _, [] => []
  | prev, item :: rest =>
    let sp := match prev.getLast?, item.head? with
      | some a, some b => isId a && isId b
      | _, _ => false
    (if sp then [' '] else []) ++ item ++ joinFrom isId item rest

def joinItems (isId : Char → Bool) (items : List (List Char)) : List Char := joinFrom isId [] items

/-- removing the blanks from the output gives back the concatenation of the items (when the items contain no blank themselves):
    the assembly loop never drops, reorders or alters an emitted token -/
theorem joinFrom_erase (isId : Char → Bool) : ∀ (items : List (List Char)) (prev : List Char),
    (∀ it ∈ items, ' ' ∉ it) → (joinFrom isId prev items).filter (· ≠ ' ') = items.flatten := by
  intro items
  induction items with
  | nil => intro _ _; rfl
  | cons item rest ih =>
    intro prev h
    have hi : ' ' ∉ item := h item (List.mem_cons_self ..)
    have hitem : item.filter (· ≠ ' ') = item := by
      apply List.filter_eq_self.mpr
      intro c hc
      simp only [ne_eq, decide_not, Bool.not_eq_eq_eq_not, Bool.not_true, decide_eq_false_iff_not]
      intro hcs; exact hi (hcs ▸ hc)
    simp only [joinFrom, List.filter_append, List.flatten_cons]
    rw [ih item (fun it hit => h it (List.mem_cons_of_mem _ hit)), hitem]
    split <;> simp

theorem join_erase (isId : Char → Bool) (items : List (List Char)) (h : ∀ it ∈ items, ' ' ∉ it) :
    (joinItems isId items).filter (· ≠ ' ') = items.flatten := joinFrom_erase isId items [] h

/-- two identifier characters coming from two consecutive items are never glued together -/
theorem joinFrom_separates (isId : Char → Bool) (prev item : List Char) (rest : List (List Char)) (a b : Char)
    (ha : prev.getLast? = some a) (hb : item.head? = some b) (hida : isId a = true) (hidb : isId b = true) :
    joinFrom isId prev (item :: rest) = ' ' :: (item ++ joinFrom isId item rest) := by
  simp [joinFrom, ha, hb, hida, hidb]

/-- **Composition.** If the parser is sound and complete for an unambiguous grammar, and the reconstructor returns a derivation whose shape is
    the given tree, then parsing the yield of that derivation returns exactly that tree. -/
theorem reconstruct_reparses {Deriv Tree Text : Type} (yield : Deriv → Text) (shape : Deriv → Tree) (parse : Text → Option Deriv)
    (hsound : ∀ w d, parse w = some d → yield d = w) (hcomplete : ∀ d, ∃ d2, parse (yield d) = some d2)
    (hunamb : ∀ d1 d2, yield d1 = yield d2 → d1 = d2)
    (recons : Tree → Option Deriv) (hrec : ∀ t d, recons t = some d → shape d = t) :
    ∀ t d, recons t = some d → (parse (yield d)).map shape = some t := by
  intro t d h
  obtain ⟨d2, hd2⟩ := hcomplete d
  have : d2 = d := hunamb d2 d (hsound _ _ hd2)
  subst this
  simp [hd2, hrec t d2 h]

end ReconsProto
