import LarkVerif.Shape
/-! C16, first half: an embedded transformer (callbacks spliced into the tree-building chain, `ParseTreeBuilder.create_callback`, token callbacks at
    shift) computes exactly what transforming the finished tree computes (`Transformer.transform`), provided no callback sits on an inlined rule. -/
namespace EmbedProto
open ShapeProto

variable (f : Nat → List Val → Val) (g : Nat → Nat → Val)

mutual
/-- lark/visitors.py `Transformer._transform_tree`: children first, then the node's callback; tokens through the token callback -/
def trV : Val → Val
  | .tok ty v => g ty v
  | .none => .none
  | .tree d ks => f d (trVs ks)
def trVs : List Val → List Val
  | [] => []
  | k :: ks => trV k :: trVs ks
end

theorem trVs_append (a b : List Val) : trVs f g (a ++ b) = trVs f g a ++ trVs f g b := by
  induction a with
  | nil => rfl
  | cons x a ih => simp [trVs, ih]

theorem trVs_replicate_none (n : Nat) : trVs f g (List.replicate n Val.none) = List.replicate n Val.none := by
  induction n with
  | zero => rfl
  | succ n ih => simp [List.replicate_succ, trVs, trV, ih]

theorem trVs_length (l : List Val) : (trVs f g l).length = l.length := by
  induction l with
  | nil => rfl
  | cons x l ih => simp [trVs, ih]

/-- the embedded chain for one rule: inlined rules keep the plain tree builder; otherwise `ExpandSingleChild` wraps the user callback -/
def finishWith (isInline expand1 : Bool) (alias : Option Nat) (name : Nat) (kids : List Val) : Val :=
  if isInline then finish expand1 alias name kids
  else match expand1, alias, kids with
    | true, Option.none, [k] => k
    | _, some a, _ => f a kids
    | _, Option.none, _ => f name kids

/-- the parser drivers with an embedded transformer: token callbacks at shift, rule callbacks at reduce -/
def buildListT : D → List (SymInfo × Val)
  | .nil => []
  | .leaf s ty v rest => (s, g ty v) :: buildListT rest
  | .node s r kids rest =>
      (s, finishWith f (toExpand s) r.expand1 r.alias r.name (applyPlan r.keepAll (runs r.markers) (buildListT kids) 0)) :: buildListT rest

/-- inlined rules are not `?` rules (a collapsed inlined rule would have no children to splice) -/
def D.Plain : D → Prop
  | .nil => True
  | .leaf s _ _ rest => s.isTerm = true ∧ D.Plain rest
  | .node s r kids rest => s.isTerm = false ∧ (toExpand s = true → r.expand1 = false) ∧ D.Plain kids ∧ D.Plain rest

/-- per position: an inlined child contributes its (transformed) children, any other child is the transformed value -/
inductive Rel : List (SymInfo × Val) → List (SymInfo × Val) → Prop
  | nil : Rel [] []
  | cons (s vT v restT rest) : (toExpand s = true → kidsOf vT = trVs f g (kidsOf v)) → (toExpand s = false → vT = trV f g v) →
      Rel restT rest → Rel ((s, vT) :: restT) ((s, v) :: rest)

theorem applyPlan_rel (keepAll : Bool) : ∀ (rs : List Nat) (csT cs : List (SymInfo × Val)) (acc : Nat), Rel f g csT cs →
    applyPlan keepAll rs csT acc = trVs f g (applyPlan keepAll rs cs acc) := by
  intro rs
  induction rs with
  | nil => intro csT cs acc _; simp [applyPlan, trVs_replicate_none]
  | cons r rs ih =>
    intro csT cs acc h
    cases h with
    | nil => simp [applyPlan, trVs_replicate_none]
    | cons s vT v restT rest h1 h2 hr =>
      simp only [applyPlan]
      by_cases hi : included keepAll s = true
      · simp only [hi, if_true]
        rw [ih restT rest 0 hr, trVs_append, trVs_append, trVs_replicate_none]
        by_cases he : toExpand s = true
        · simp only [he, if_true]; rw [h1 he]
        · have he' : toExpand s = false := by simpa using he
          simp only [he', Bool.false_eq_true, if_false]; rw [h2 he']; simp [trVs]
      · simp only [hi, Bool.false_eq_true, if_false]
        exact ih restT rest (acc + r) hr

/-- **C16 (embedded = after).** Position by position, the embedded build is the transformation of the plain build. -/
theorem buildListT_rel : ∀ d : D, D.Plain d → Rel f g (buildListT f g d) (buildList d) := by
  intro d
  induction d with
  | nil => intro _; exact Rel.nil
  | leaf s ty v rest ih =>
    intro h
    simp only [D.Plain] at h
    simp only [buildListT, buildList]
    refine Rel.cons s _ _ _ _ ?_ ?_ (ih h.2)
    · intro he; simp [toExpand, h.1] at he
    · intro _; simp [trV]
  | node s r kids rest ihk ihr =>
    intro h
    simp only [D.Plain] at h
    obtain ⟨_, hexp, hk, hrest⟩ := h
    simp only [buildListT, buildList]
    have hkids := applyPlan_rel f g r.keepAll (runs r.markers) _ _ 0 (ihk hk)
    refine Rel.cons s _ _ _ _ ?_ ?_ (ihr hrest)
    · intro he
      have hx := hexp he
      rw [hkids]
      simp only [finishWith, he, if_true, hx]
      cases r.alias <;> simp [finish, kidsOf]
    · intro he
      rw [hkids]
      simp only [finishWith, he, Bool.false_eq_true, if_false]
      generalize applyPlan r.keepAll (runs r.markers) (buildList kids) 0 = ks
      cases hx : r.expand1 <;> cases ha : r.alias with
      | none =>
        first
        | (simp [finish, trV]; done)
        | (cases ks with
           | nil => simp [finish, trV, trVs]
           | cons k ks' =>
             cases ks' with
             | nil => simp [finish, trVs]
             | cons k2 ks2 => simp [finish, trV, trVs])
      | some a => simp [finish, trV] <;> (cases ks with
           | nil => simp [finish, trV, trVs]
           | cons k ks' => cases ks' <;> simp [finish, trV, trVs])

/-- the result for the start rule (never inlined): embedded = transform-after -/
theorem embedded_eq_after (s : SymInfo) (r : RuleInfo) (kids : D) (hs : toExpand s = false) (h : D.Plain (.node s r kids .nil)) :
    (buildListT f g (.node s r kids .nil)).map (·.2) = (buildList (.node s r kids .nil)).map (fun x => trV f g x.2) := by
  have := buildListT_rel f g _ h
  simp only [buildListT, buildList] at this ⊢
  cases this with
  | cons _ vT v _ _ _ h2 _ => simp [h2 hs]

end EmbedProto
