namespace ThProto

/-- what `self.callback` holds -/
inductive CB where
  | unset          -- attribute not assigned yet
  | partial_       -- the dict `_create_unless` returned, user `lexer_callbacks` not merged yet
  | full
deriving DecidableEq, Repr

structure Shared where
  scanner : Bool     -- `self._scanner is not None`
  cb : CB
deriving DecidableEq, Repr

/-- program counter of one thread executing `lexer.scanner` then lexing one token (lexer.py:657-705) -/
inductive PC where
  | start        -- about to read `self._scanner`
  | b1           -- inside `_build_scanner`, about to assign `self.callback`
  | b2           -- (original ordering only) about to merge the user callbacks into the shared dict
  | b3           -- about to assign `self._scanner`
  | use          -- about to read `self.callback` for a token whose type has a user callback
  | done
deriving DecidableEq, Repr

/-- one atomic step (one shared read or write). `fixed = true` is the publish-once ordering.
    The observation is `some b`: did the token get the user's callback? -/
def stepThread (fixed : Bool) (sh : Shared) : PC → Shared × PC × Option Bool
  | PC.start => (sh, if sh.scanner then PC.use else PC.b1, none)
  | PC.b1 => if fixed then ({ sh with cb := CB.full }, PC.b3, none) else ({ sh with cb := CB.partial_ }, PC.b2, none)
  | PC.b2 => ({ sh with cb := CB.full }, PC.b3, none)
  | PC.b3 => ({ sh with scanner := true }, PC.use, none)
  | PC.use => (sh, PC.done, some (sh.cb == CB.full))
  | PC.done => (sh, PC.done, none)

structure Sys where
  sh : Shared
  pcs : List PC
deriving Repr

/-- run a schedule: each entry names the thread that moves next -/
def run (fixed : Bool) : Sys → List Nat → List Bool
  | _, [] => []
  | s, i :: sched =>
    match s.pcs[i]? with
    | none => run fixed s sched
    | some pc =>
      let (sh', pc', obs) := stepThread fixed s.sh pc
      let rest := run fixed ⟨sh', s.pcs.set i pc'⟩ sched
      match obs with
      | some b => b :: rest
      | none => rest

def initSys (n : Nat) : Sys := ⟨⟨false, CB.unset⟩, List.replicate n PC.start⟩

/-- invariant of the publish-once ordering -/
def Inv (s : Sys) : Prop :=
  s.sh.cb ≠ CB.partial_ ∧ (s.sh.scanner = true → s.sh.cb = CB.full) ∧
  ∀ pc ∈ s.pcs, (pc = PC.b3 ∨ pc = PC.use) → s.sh.cb = CB.full

theorem run_fixed_safe : ∀ (sched : List Nat) (s : Sys), Inv s → (∀ pc ∈ s.pcs, pc ≠ PC.b2) →
    ∀ b ∈ run true s sched, b = true := by
  intro sched
  induction sched with
  | nil => intro s _ _ b hb; simp [run] at hb
  | cons i sched ih =>
    intro s hinv hnb2 b hb
    simp only [run] at hb
    cases hpc : s.pcs[i]? with
    | none => simp only [hpc] at hb; exact ih s hinv hnb2 b hb
    | some pc =>
      simp only [hpc] at hb
      have hmem : pc ∈ s.pcs := List.mem_of_getElem? hpc
      obtain ⟨h1, h2, h3⟩ := hinv
      -- membership in the updated pc list
      have hset : ∀ pc' x, x ∈ s.pcs.set i pc' → x = pc' ∨ x ∈ s.pcs := by
        intro pc' x hx
        rcases List.mem_or_eq_of_mem_set hx with h | h
        · exact Or.inr h
        · exact Or.inl h
      cases pc with
      | start =>
        simp only [stepThread] at hb
        apply ih _ _ _ b hb
        · refine ⟨h1, h2, ?_⟩
          intro x hx hx'
          rcases hset _ x hx with rfl | hx
          · by_cases hsc : s.sh.scanner = true
            · exact h2 hsc
            · simp [hsc] at hx'
          · exact h3 x hx hx'
        · intro x hx
          rcases hset _ x hx with rfl | hx
          · split <;> simp
          · exact hnb2 x hx
      | b1 =>
        simp only [stepThread, if_true] at hb
        apply ih _ _ _ b hb
        · refine ⟨by simp, fun _ => rfl, fun _ _ _ => rfl⟩
        · intro x hx
          rcases hset _ x hx with rfl | hx
          · simp
          · exact hnb2 x hx
      | b2 => exact absurd rfl (hnb2 PC.b2 hmem)
      | b3 =>
        simp only [stepThread] at hb
        have hfull := h3 PC.b3 hmem (Or.inl rfl)
        apply ih _ _ _ b hb
        · refine ⟨h1, fun _ => hfull, fun _ _ _ => hfull⟩
        · intro x hx
          rcases hset _ x hx with rfl | hx
          · simp
          · exact hnb2 x hx
      | use =>
        simp only [stepThread] at hb
        have hfull := h3 PC.use hmem (Or.inr rfl)
        rcases List.mem_cons.mp hb with rfl | hb
        · simp [hfull]
        · apply ih _ _ _ b hb
          · refine ⟨h1, h2, ?_⟩
            intro x hx hx'
            rcases hset _ x hx with rfl | hx
            · simp at hx'
            · exact h3 x hx hx'
          · intro x hx
            rcases hset _ x hx with rfl | hx
            · simp
            · exact hnb2 x hx
      | done =>
        simp only [stepThread] at hb
        apply ih _ _ _ b hb
        · refine ⟨h1, h2, ?_⟩
          intro x hx hx'
          rcases hset _ x hx with rfl | hx
          · simp at hx'
          · exact h3 x hx hx'
        · intro x hx
          rcases hset _ x hx with rfl | hx
          · simp
          · exact hnb2 x hx

/-- C10, repaired ordering: for any number of threads and any schedule, every token gets the user's callback -/
theorem interleaving_safe (n : Nat) (sched : List Nat) : ∀ b ∈ run true (initSys n) sched, b = true := by
  apply run_fixed_safe
  · refine ⟨by simp [initSys], by simp [initSys], ?_⟩
    intro pc hpc h
    simp only [initSys, List.mem_replicate] at hpc
    rcases h with h | h <;> simp [hpc.2] at h
  · intro pc hpc
    simp only [initSys, List.mem_replicate] at hpc
    simp [hpc.2]

/-- C10, original ordering (F13): two threads, a legal schedule, and a token that skips the callback.
    Thread 1 reads `_scanner is None`; thread 0 builds completely; thread 1 assigns the partial dict;
    thread 0 lexes. -/
theorem interleaving_unsafe_original :
    run false (initSys 2) [1, 0, 0, 0, 0, 1, 0] = [false] := by decide

end ThProto
