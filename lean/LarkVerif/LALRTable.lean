/-! Decision logic of `LALR_Analyzer.compute_lalr1_states` (lark/parsers/lalr_analysis.py:267): from the shift edges of an
    LR(0) state and the rules attached to each lookahead, build the action row or report a reduce/reduce conflict. -/
namespace LALRTable

/-- a candidate reduction: (priority, rule id) -/
abbrev Cand := Int × Nat

/-- the rule that wins a lookahead: the candidate whose priority is strictly greater than every other candidate's.
    (The code sorts by priority and compares the two best: the same thing.) -/
def winner (cands : List Cand) : Option Cand :=
  cands.find? fun c => cands.all fun c' => c'.2 == c.2 || decide (c'.1 < c.1)

theorem winner_some {cands : List Cand} {c : Cand} (h : winner cands = some c) :
    c ∈ cands ∧ ∀ c' ∈ cands, c'.2 = c.2 ∨ c'.1 < c.1 := by
  unfold winner at h
  have hm := List.mem_of_find?_eq_some h
  have hp := List.find?_some h
  simp only [List.all_eq_true, Bool.or_eq_true, beq_iff_eq, decide_eq_true_eq] at hp
  exact ⟨hm, hp⟩

/-- reduce/reduce conflict: no candidate strictly beats all the others -/
theorem winner_none_iff (cands : List Cand) :
    winner cands = none ↔ ∀ c ∈ cands, ∃ c' ∈ cands, c'.2 ≠ c.2 ∧ c.1 ≤ c'.1 := by
  unfold winner
  rw [List.find?_eq_none]
  constructor
  · intro h c hc
    have h1 : (cands.all fun c' => c'.2 == c.2 || decide (c'.1 < c.1)) = false := by
      have := h c hc
      simpa using this
    obtain ⟨c', hc', hn⟩ := List.all_eq_false.mp h1
    simp only [Bool.or_eq_true, beq_iff_eq, decide_eq_true_eq, not_or] at hn
    exact ⟨c', hc', hn.1, by omega⟩
  · intro h c hc
    obtain ⟨c', hc', hne, hle⟩ := h c hc
    have : (cands.all fun c' => c'.2 == c.2 || decide (c'.1 < c.1)) = false := by
      apply List.all_eq_false.mpr
      refine ⟨c', hc', ?_⟩
      simp only [Bool.or_eq_true, beq_iff_eq, decide_eq_true_eq, not_or]
      exact ⟨hne, by omega⟩
    simp [this]

/-- a single candidate always wins -/
theorem winner_single (c : Cand) : winner [c] = some c := by
  simp [winner]

/-- the winner does not depend on the order in which the set of rules is iterated (hash order), when rule ids are distinct -/
theorem winner_unique {cands : List Cand} (hnd : (cands.map (·.2)).Nodup) {c d : Cand}
    (hc : c ∈ cands ∧ ∀ c' ∈ cands, c'.2 = c.2 ∨ c'.1 < c.1) (hd : d ∈ cands ∧ ∀ c' ∈ cands, c'.2 = d.2 ∨ c'.1 < d.1) : c = d := by
  have h1 := hc.2 d hd.1
  have h2 := hd.2 c hc.1
  have hid : c.2 = d.2 := by
    rcases h1 with h | h
    · exact h.symm
    · rcases h2 with h' | h'
      · exact h'
      · omega
  -- same rule id in a list with distinct ids: same element
  have : ∀ (l : List Cand), (l.map (·.2)).Nodup → c ∈ l → d ∈ l → c = d := by
    intro l
    induction l with
    | nil => intro _ h; cases h
    | cons x xs ih =>
      intro hn hcx hdx
      simp only [List.map_cons, List.nodup_cons, List.mem_map, not_exists, not_and] at hn
      rcases List.mem_cons.mp hcx with rfl | hcx' <;> rcases List.mem_cons.mp hdx with rfl | hdx'
      · rfl
      · exact absurd hid.symm (hn.1 d hdx')
      · exact absurd hid (hn.1 c hcx')
      · exact ih hn.2 hcx' hdx'
  exact this cands hnd hc.1 hd.1

inductive Act where
  | shift (target : Nat)
  | reduce (rule : Nat)
deriving DecidableEq, Repr

structure RowIn where
  shifts : List (Nat × Nat)            -- (terminal, target state)
  las : List (Nat × List Cand)         -- (lookahead terminal, candidate rules)

/-- the reduce entries of one state: for each lookahead with a winner and without a shift -/
def reduceEntries (r : RowIn) : List (Nat × Act) :=
  r.las.filterMap fun (la, cands) =>
    match winner cands with
    | some c => if r.shifts.any (fun s => s.1 == la) then none else some (la, Act.reduce c.2)
    | none => none

/-- lookaheads of this state with an unresolved reduce/reduce conflict -/
def conflicts (r : RowIn) : List Nat :=
  r.las.filterMap fun (la, cands) => if cands.length > 1 && (winner cands).isNone then some la else none

def row (r : RowIn) : List (Nat × Act) := r.shifts.map (fun s => (s.1, Act.shift s.2)) ++ reduceEntries r

/-- the whole table, or `GrammarError` when some state has a conflict -/
def build (rows : List RowIn) : Option (List (List (Nat × Act))) :=
  if rows.any (fun r => !(conflicts r).isEmpty) then none else some (rows.map row)

/-- shift/reduce conflicts are resolved as shift: a terminal with a shift edge never gets a reduce entry -/
theorem shift_wins (r : RowIn) (la : Nat) (a : Act) (h : (la, a) ∈ reduceEntries r) :
    ¬ ∃ q, (la, q) ∈ r.shifts := by
  simp only [reduceEntries, List.mem_filterMap] at h
  obtain ⟨⟨la', cands⟩, _, hx⟩ := h
  simp only at hx
  split at hx
  · split at hx
    · cases hx
    · rename_i hany
      simp only [Option.some.injEq, Prod.mk.injEq] at hx
      obtain ⟨rfl, _⟩ := hx
      rintro ⟨q, hq⟩
      apply hany
      simp only [List.any_eq_true, beq_iff_eq]
      exact ⟨(la', q), hq, rfl⟩
  · cases hx

/-- construction fails exactly when some state has a lookahead with at least two candidate rules and no strict priority winner -/
theorem build_error_iff (rows : List RowIn) :
    build rows = none ↔
      ∃ r ∈ rows, ∃ la cands, (la, cands) ∈ r.las ∧ cands.length > 1 ∧ winner cands = none := by
  unfold build
  constructor
  · intro h
    split at h
    · rename_i hany
      simp only [List.any_eq_true, Bool.not_eq_true', List.isEmpty_eq_false_iff] at hany
      obtain ⟨r, hr, hne⟩ := hany
      obtain ⟨la, hla⟩ := List.exists_mem_of_ne_nil _ hne
      simp only [conflicts, List.mem_filterMap] at hla
      obtain ⟨⟨la', cands⟩, hmem, hx⟩ := hla
      simp only at hx
      split at hx
      · rename_i hc
        simp only [Bool.and_eq_true, decide_eq_true_eq, Option.isNone_iff_eq_none] at hc
        exact ⟨r, hr, la', cands, hmem, hc.1, hc.2⟩
      · cases hx
    · cases h
  · rintro ⟨r, hr, la, cands, hmem, hlen, hw⟩
    have : rows.any (fun r => !(conflicts r).isEmpty) = true := by
      simp only [List.any_eq_true, Bool.not_eq_true', List.isEmpty_eq_false_iff]
      refine ⟨r, hr, ?_⟩
      apply List.ne_nil_of_mem (a := la)
      simp only [conflicts, List.mem_filterMap]
      refine ⟨(la, cands), hmem, ?_⟩
      simp [hlen, hw]
    simp [this]

end LALRTable
