import LarkVerif.Earley
/-! # Removing unused rules (`lark/load_grammar.py GrammarBuilder._remove_unused` / `Grammar.compile`'s "Filter out unused rules")

After an import (and again when the grammar is compiled) lark drops every definition that nothing kept mentions.  Whatever the exact removal procedure —
lark iterates "drop a rule no *other* remaining rule mentions", which keeps dead rules that mention each other — the result `G'` satisfies two local,
decidable conditions with respect to the full grammar `G`: it is a sub-grammar, and it is *closed*: every rule of a symbol that a kept rule (or the start
symbol) mentions is kept.  Under these two conditions the language of every kept symbol — in particular of the start symbol — is unchanged. -/
namespace PruneProto
open EarleyProto

/-- `keep` is closed from `roots`: all rules of the roots are kept, and all rules of every nonterminal a kept rule mentions are kept -/
structure Closed (G : Grammar) (keep : Rule → Bool) (roots : List Nat) : Prop where
  root : ∀ A ∈ roots, ∀ r ∈ G.rules, r.lhs = A → keep r = true
  step : ∀ r ∈ G.rules, keep r = true → ∀ B, Sym.nt B ∈ r.rhs → ∀ r' ∈ G.rules, r'.lhs = B → keep r' = true

def pruned (G : Grammar) (keep : Rule → Bool) : Grammar := ⟨G.rules.filter keep⟩

/-- a symbol all of whose rules are kept -/
def Good (G : Grammar) (keep : Rule → Bool) (A : Nat) : Prop := ∀ r ∈ G.rules, r.lhs = A → keep r = true

theorem derives_pruned {G : Grammar} {keep : Rule → Bool} (hstep : ∀ r ∈ G.rules, keep r = true → ∀ B, Sym.nt B ∈ r.rhs → Good G keep B) :
    ∀ {β : List Sym} {w : List Nat}, DerivesSeq G β w → (∀ B, Sym.nt B ∈ β → Good G keep B) → DerivesSeq (pruned G keep) β w := by
  intro β w h
  induction h with
  | nil => intro _; exact DerivesSeq.nil
  | term a rest ts _ ih =>
    intro hg
    exact DerivesSeq.term a rest ts (ih (fun B hB => hg B (List.mem_cons_of_mem _ hB)))
  | nonterm r rest ts1 ts2 hr _ _ ih1 ih2 =>
    intro hg
    have hk : keep r = true := hg r.lhs (List.mem_cons_self ..) r hr rfl
    have hr' : r ∈ (pruned G keep).rules := List.mem_filter.mpr ⟨hr, hk⟩
    exact DerivesSeq.nonterm r rest ts1 ts2 hr' (ih1 (fun B hB => hstep r hr hk B hB)) (ih2 (fun B hB => hg B (List.mem_cons_of_mem _ hB)))

theorem derives_of_pruned {G : Grammar} {keep : Rule → Bool} : ∀ {β : List Sym} {w : List Nat}, DerivesSeq (pruned G keep) β w → DerivesSeq G β w := by
  intro β w h
  induction h with
  | nil => exact DerivesSeq.nil
  | term a rest ts _ ih => exact DerivesSeq.term a rest ts ih
  | nonterm r rest ts1 ts2 hr _ _ ih1 ih2 => exact DerivesSeq.nonterm r rest ts1 ts2 (List.mem_filter.mp hr).1 ih1 ih2

/-- **Pruning preserves the language of every root** (and of every sentential form over kept symbols). -/
theorem prune_preserves_language (G : Grammar) (keep : Rule → Bool) (roots : List Nat) (h : Closed G keep roots) (A : Nat) (hA : A ∈ roots) (w : List Nat) :
    DerivesSeq (pruned G keep) [Sym.nt A] w ↔ DerivesSeq G [Sym.nt A] w := by
  constructor
  · exact derives_of_pruned
  · intro hd
    refine derives_pruned (fun r hr hk B hB r' hr' hl => h.step r hr hk B hB r' hr' hl) hd ?_
    intro B hB
    simp only [List.mem_singleton, Sym.nt.injEq] at hB
    subst hB
    exact h.root B hA

/-- the decidable form of `Closed`, evaluated on lark's compiled rule set against the rules before pruning -/
def closedB (G : Grammar) (keep : Rule → Bool) (roots : List Nat) : Bool :=
  (roots.all fun A => G.rules.all fun r => !(r.lhs == A) || keep r) &&
  (G.rules.all fun r => !keep r || r.rhs.all fun s => match s with
    | Sym.nt B => G.rules.all fun r' => !(r'.lhs == B) || keep r'
    | Sym.t _ => true)

theorem closedB_sound (G : Grammar) (keep : Rule → Bool) (roots : List Nat) (h : closedB G keep roots = true) : Closed G keep roots := by
  simp only [closedB, Bool.and_eq_true, List.all_eq_true, Bool.or_eq_true, Bool.not_eq_true', beq_eq_false_iff_ne, ne_eq] at h
  obtain ⟨h1, h2⟩ := h
  constructor
  · intro A hA r hr hl
    rcases h1 A hA r hr with h' | h'
    · exact absurd hl h'
    · exact h'
  · intro r hr hk B hB r' hr' hl
    rcases h2 r hr with h' | h'
    · rw [hk] at h'; cases h'
    · have := h' (Sym.nt B) hB
      simp only [List.all_eq_true, Bool.or_eq_true, Bool.not_eq_true', beq_eq_false_iff_ne, ne_eq] at this
      rcases this r' hr' with h'' | h''
      · exact absurd hl h''
      · exact h''

/-- non-vacuity: `S → a | T`, `T → b`, dead `U → U c` (mentions only itself): dropping `U` is closed from `S` -/
def exG : Grammar := ⟨[⟨0, [Sym.t 0]⟩, ⟨0, [Sym.nt 1]⟩, ⟨1, [Sym.t 1]⟩, ⟨2, [Sym.nt 2, Sym.t 2]⟩]⟩
example : closedB exG (fun r => r.lhs != 2) [0] = true := by decide

end PruneProto
