import LarkVerif.Earley
import LarkVerif.Saturate
namespace EarleyProto
open Sat

structure FLattice where
  n : Nat
  edges : List (Nat × Nat × Nat)   -- (terminal, i, j)
  igns : List (Nat × Nat)

def FLattice.toLattice (L : FLattice) : Lattice :=
  { edge := fun a i j => (a, i, j) ∈ L.edges, ign := fun i j => (i, j) ∈ L.igns }

structure FLattice.WF (L : FLattice) : Prop where
  edge_fwd : ∀ a i j, (a, i, j) ∈ L.edges → i < j ∧ j ≤ L.n
  ign_fwd : ∀ i j, (i, j) ∈ L.igns → i < j ∧ j ≤ L.n

structure CItem where
  col : Nat
  rule : Rule
  dot : Nat
  origin : Nat
deriving DecidableEq

def CItem.item (c : CItem) : Item := ⟨c.rule, c.dot, c.origin⟩

/-- the finite universe of chart entries -/
def univ (G : Grammar) (n : Nat) : List CItem :=
  (List.range (n+1)).flatMap fun i =>
    G.rules.flatMap fun r =>
      (List.range (r.rhs.length+1)).flatMap fun d =>
        (List.range (i+1)).map fun k => ⟨i, r, d, k⟩

theorem mem_univ {G : Grammar} {n : Nat} {c : CItem} :
    c ∈ univ G n ↔ c.col ≤ n ∧ c.rule ∈ G.rules ∧ c.dot ≤ c.rule.rhs.length ∧ c.origin ≤ c.col := by
  cases c with
  | mk i r d k =>
    simp only [univ, List.mem_flatMap, List.mem_range, List.mem_map, CItem.mk.injEq]
    constructor
    · rintro ⟨i', hi', r', hr', d', hd', k', hk', rfl, rfl, rfl, rfl⟩
      exact ⟨by omega, hr', by omega, by omega⟩
    · rintro ⟨h1, h2, h3, h4⟩
      exact ⟨i, by omega, r, h2, d, by omega, k, by omega, rfl, rfl, rfl, rfl⟩

/-- one round of all Earley rules (lark/parsers/earley.py:78, xearley.py:44), order-free -/
def step (G : Grammar) (L : FLattice) (start : Nat) (S : List CItem) : List CItem :=
  S.flatMap fun it =>
    match it.rule.rhs[it.dot]? with
    | some (Sym.nt B) =>
        (G.rules.filter (fun r' => r'.lhs = B)).map (fun r' => ⟨it.col, r', 0, it.col⟩)
    | some (Sym.t a) =>
        (L.edges.filter (fun e => e.1 = a ∧ e.2.1 = it.col)).map (fun e => ⟨e.2.2, it.rule, it.dot+1, it.origin⟩)
        ++ (L.igns.filter (fun e => e.1 = it.col)).map (fun e => ⟨e.2, it.rule, it.dot, it.origin⟩)
    | none =>
        (S.filter (fun p => p.col = it.origin ∧ p.rule.rhs[p.dot]? = some (Sym.nt it.rule.lhs))).map
            (fun p => ⟨it.col, p.rule, p.dot+1, p.origin⟩)
        ++ (if it.rule.lhs = start ∧ it.origin = 0 then
              (L.igns.filter (fun e => e.1 = it.col)).map (fun e => ⟨e.2, it.rule, it.dot, it.origin⟩)
            else [])

def seed (G : Grammar) (start : Nat) : List CItem :=
  (G.rules.filter (fun r => r.lhs = start)).map (fun r => ⟨0, r, 0, 0⟩)

def chart (G : Grammar) (L : FLattice) (start : Nat) : List CItem :=
  saturate (univ G L.n) (step G L start) (seed G start)

def accepts (G : Grammar) (L : FLattice) (start : Nat) : Bool :=
  (chart G L start).any fun c => c.col = L.n ∧ c.origin = 0 ∧ c.rule.lhs = start ∧ c.dot = c.rule.rhs.length

abbrev ChartP (G : Grammar) (L : FLattice) (start : Nat) (c : CItem) : Prop :=
  Chart G L.toLattice start c.col c.item

theorem Chart.dot_le {G : Grammar} {L : Lattice} {start i it} (h : Chart G L start i it) :
    it.dot ≤ it.rule.rhs.length := by
  induction h with
  | init => simp
  | predict => simp
  | scan i j r d k a _ hd _ _ =>
    have := (List.getElem?_eq_some_iff.mp hd).1; simp only; omega
  | ignore i j r d k a _ hd _ _ =>
    have := (List.getElem?_eq_some_iff.mp hd).1; simp only; omega
  | complete i j r' r d k _ _ hd _ _ =>
    have := (List.getElem?_eq_some_iff.mp hd).1; simp only; omega
  | carry => simp

/-- every entry the executable produces is justified by the deduction system -/
theorem chart_sound_exec (G : Grammar) (L : FLattice) (start : Nat) :
    ∀ c ∈ chart G L start, ChartP G L start c := by
  apply saturate_least
  · intro t ht x hx
    simp only [step, List.mem_flatMap] at hx
    obtain ⟨it, hit, hx⟩ := hx
    have hP := ht it hit
    split at hx
    · rename_i B hB
      simp only [List.mem_map, List.mem_filter, decide_eq_true_eq] at hx
      obtain ⟨r', ⟨hr', rfl⟩, rfl⟩ := hx
      exact Chart.predict it.col it.rule it.dot it.origin r' hP hB hr'
    · rename_i a ha
      simp only [List.mem_append, List.mem_map, List.mem_filter, decide_eq_true_eq] at hx
      rcases hx with ⟨⟨a', i, j⟩, ⟨he, rfl, rfl⟩, rfl⟩ | ⟨⟨i, j⟩, ⟨he, rfl⟩, rfl⟩
      · exact Chart.scan it.col j it.rule it.dot it.origin a' hP ha he
      · exact Chart.ignore it.col j it.rule it.dot it.origin a hP ha he
    · rename_i hnone
      have hlen : it.rule.rhs.length ≤ it.dot := by
        simpa [List.getElem?_eq_none_iff] using hnone
      have hdot : it.dot = it.rule.rhs.length := Nat.le_antisymm (Chart.dot_le hP) hlen
      have hP' : Chart G L.toLattice start it.col ⟨it.rule, it.rule.rhs.length, it.origin⟩ := by
        have h : Chart G L.toLattice start it.col ⟨it.rule, it.dot, it.origin⟩ := hP
        rw [hdot] at h; exact h
      simp only [List.mem_append, List.mem_map, List.mem_filter, decide_eq_true_eq] at hx
      rcases hx with ⟨p, ⟨hp, hcol, hd⟩, rfl⟩ | hx
      · have hPp : Chart G L.toLattice start p.col ⟨p.rule, p.dot, p.origin⟩ := ht p hp
        rw [hcol] at hPp
        exact Chart.complete it.col it.origin it.rule p.rule p.dot p.origin hP' hPp hd
      · split at hx
        · rename_i hs
          simp only [List.mem_map, List.mem_filter, decide_eq_true_eq] at hx
          obtain ⟨⟨i, j⟩, ⟨he, rfl⟩, rfl⟩ := hx
          have := Chart.carry it.col j it.rule it.origin hP' hs.1 hs.2 he
          show Chart G L.toLattice start j ⟨it.rule, it.dot, it.origin⟩
          rw [hdot]; exact this
        · cases hx
  · intro y hy
    simp only [seed, List.mem_map, List.mem_filter, decide_eq_true_eq] at hy
    obtain ⟨r, ⟨hr, hs⟩, rfl⟩ := hy
    exact Chart.init r hr hs


theorem Chart.bounds {G : Grammar} {L : FLattice} (hL : L.WF) {start i it}
    (h : Chart G L.toLattice start i it) : it.origin ≤ i ∧ i ≤ L.n := by
  induction h with
  | init => simp
  | predict i r d k r' _ _ _ ih => exact ⟨Nat.le_refl _, ih.2⟩
  | scan i j r d k a _ _ he ih =>
    have := hL.edge_fwd a i j he; simp only at ih ⊢; omega
  | ignore i j r d k a _ _ he ih =>
    have := hL.ign_fwd i j he; simp only at ih ⊢; omega
  | complete i j r' r d k _ _ _ ih1 ih2 => simp only at ih1 ih2 ⊢; omega
  | carry i j r k _ _ _ he ih =>
    have := hL.ign_fwd i j he; simp only at ih ⊢; omega

/-- every fact of the deduction system is found by the executable -/
theorem chart_complete_exec (G : Grammar) (L : FLattice) (hL : L.WF) (start : Nat) {i it}
    (h : Chart G L.toLattice start i it) : (⟨i, it.rule, it.dot, it.origin⟩ : CItem) ∈ chart G L start := by
  have huniv : ∀ {i it}, Chart G L.toLattice start i it →
      (⟨i, it.rule, it.dot, it.origin⟩ : CItem) ∈ univ G L.n := by
    intro i it h
    have hb := Chart.bounds hL h
    exact mem_univ.mpr ⟨hb.2, h.rule_mem, Chart.dot_le h, hb.1⟩
  induction h with
  | init r hr hs =>
    apply saturate_superset
    simp only [seed, List.mem_map, List.mem_filter, decide_eq_true_eq]
    exact ⟨r, ⟨hr, hs⟩, rfl⟩
  | predict i r d k r' hc hd hr' ih =>
    apply saturate_closed _ _ _ _ _ (huniv (Chart.predict i r d k r' hc hd hr'))
    simp only [step, List.mem_flatMap]
    refine ⟨_, ih, ?_⟩
    simp only [hd, List.mem_map, List.mem_filter, decide_eq_true_eq]
    exact ⟨r', ⟨hr', rfl⟩, rfl⟩
  | scan i j r d k a hc hd he ih =>
    apply saturate_closed _ _ _ _ _ (huniv (Chart.scan i j r d k a hc hd he))
    simp only [step, List.mem_flatMap]
    refine ⟨_, ih, ?_⟩
    simp only [hd, List.mem_append, List.mem_map, List.mem_filter, decide_eq_true_eq]
    exact Or.inl ⟨(a, i, j), ⟨he, rfl, rfl⟩, rfl⟩
  | ignore i j r d k a hc hd he ih =>
    apply saturate_closed _ _ _ _ _ (huniv (Chart.ignore i j r d k a hc hd he))
    simp only [step, List.mem_flatMap]
    refine ⟨_, ih, ?_⟩
    simp only [hd, List.mem_append, List.mem_map, List.mem_filter, decide_eq_true_eq]
    exact Or.inr ⟨(i, j), ⟨he, rfl⟩, rfl⟩
  | complete i j r' r d k hc1 hc2 hd ih1 ih2 =>
    apply saturate_closed _ _ _ _ _ (huniv (Chart.complete i j r' r d k hc1 hc2 hd))
    simp only [step, List.mem_flatMap]
    refine ⟨_, ih1, ?_⟩
    have hnone : r'.rhs[r'.rhs.length]? = none := by simp
    simp only [hnone, List.mem_append, List.mem_map, List.mem_filter, decide_eq_true_eq]
    exact Or.inl ⟨_, ⟨ih2, rfl, hd⟩, rfl⟩
  | carry i j r k hc hs hk he ih =>
    apply saturate_closed _ _ _ _ _ (huniv (Chart.carry i j r k hc hs hk he))
    simp only [step, List.mem_flatMap]
    refine ⟨_, ih, ?_⟩
    have hnone : r.rhs[r.rhs.length]? = none := by simp
    simp only [hnone, List.mem_append, List.mem_map, List.mem_filter, decide_eq_true_eq]
    refine Or.inr ?_
    rw [if_pos ⟨hs, hk⟩]
    simp only [List.mem_map, List.mem_filter, decide_eq_true_eq]
    exact ⟨(i, j), ⟨he, rfl⟩, rfl⟩

/-- the executable chart is exactly the deduction system -/
theorem mem_chart_iff (G : Grammar) (L : FLattice) (hL : L.WF) (start : Nat) (c : CItem) :
    c ∈ chart G L start ↔ Chart G L.toLattice start c.col c.item :=
  ⟨chart_sound_exec G L start c, fun h => chart_complete_exec G L hL start h⟩


theorem Path.decompose {L : Lattice} {i k ts} (h : Path L i k ts) :
    ∃ m, Steps L i m ts ∧ IgnStar L m k := by
  induction h with
  | nil i => exact ⟨i, Steps.nil i, IgnStar.refl i⟩
  | edge i j k a ts he _ ih =>
    obtain ⟨m, hs, hi⟩ := ih
    exact ⟨m, Steps.cons i i j m a ts (IgnStar.refl i) he hs, hi⟩
  | ign i j k ts hij _ ih =>
    obtain ⟨m, hs, hi⟩ := ih
    cases hs with
    | nil => exact ⟨i, Steps.nil i, IgnStar.step i j k hij hi⟩
    | cons _ i' j' _ a ts' hii he hs' =>
      exact ⟨m, Steps.cons i i' j' m a ts' (IgnStar.step i j i' hij hii) he hs', hi⟩

theorem Steps.toPath {L : Lattice} {i k ts} (h : Steps L i k ts) : Path L i k ts := by
  induction h with
  | nil i => exact Path.nil i
  | cons i i' j k a ts hi he _ ih =>
    have hp : Path L i' k (a :: ts) := Path.edge i' j k a ts he ih
    clear he ih
    induction hi with
    | refl => exact hp
    | step x y z hxy _ ih' => exact Path.ign x y k _ hxy (ih' hp)

theorem Chart.carryStar {G : Grammar} {L : Lattice} {start : Nat} {r : Rule} {m k : Nat}
    (hi : IgnStar L m k) (hs : r.lhs = start) (h : Chart G L start m ⟨r, r.rhs.length, 0⟩) :
    Chart G L start k ⟨r, r.rhs.length, 0⟩ := by
  induction hi with
  | refl => exact h
  | step x y z hxy _ ih => exact ih (Chart.carry x y r 0 h hs rfl hxy)

/-- End-to-end: the executable recogniser accepts exactly the lattice paths that spell a sentence. -/
theorem accepts_iff (G : Grammar) (L : FLattice) (hL : L.WF) (start : Nat) :
    accepts G L start = true ↔
      ∃ ts, Path L.toLattice 0 L.n ts ∧ DerivesSeq G [Sym.nt start] ts := by
  constructor
  · intro h
    simp only [accepts, List.any_eq_true, decide_eq_true_eq] at h
    obtain ⟨c, hc, hcol, horig, hlhs, hdot⟩ := h
    have hC := chart_sound_exec G L start c hc
    obtain ⟨ts, hp, hd⟩ := hC.sound
    simp only [CItem.item, hdot, List.take_length] at hd hp
    refine ⟨ts, ?_, ?_⟩
    · rw [← hcol, ← horig]; exact hp
    · have := DerivesSeq.nonterm c.rule [] ts [] hC.rule_mem hd DerivesSeq.nil
      simpa [hlhs] using this
  · rintro ⟨ts, hp, hd⟩
    -- invert the derivation of the start symbol
    have hinv : ∃ r ∈ G.rules, r.lhs = start ∧ DerivesSeq G r.rhs ts := by
      generalize hα : [Sym.nt start] = α at hd
      cases hd with
      | nil => cases hα
      | term => cases hα
      | nonterm r rest ts1 ts2 hr h1 h2 =>
        simp only [List.cons.injEq, Sym.nt.injEq] at hα
        obtain ⟨h, hrest⟩ := hα
        subst hrest
        cases h2
        exact ⟨r, hr, h.symm, by simpa using h1⟩
    obtain ⟨r, hr, hs, hder⟩ := hinv
    obtain ⟨m, hsteps, hign⟩ := hp.decompose
    have h0 := Chart.init (L := L.toLattice) r hr hs
    have h1 := Chart.advance hder h0 (by simp) hsteps
    simp only [Nat.zero_add] at h1
    have h2 : Chart G L.toLattice start L.n ⟨r, r.rhs.length, 0⟩ := Chart.carryStar hign hs h1
    have hmem := chart_complete_exec G L hL start h2
    simp only [accepts, List.any_eq_true, decide_eq_true_eq]
    exact ⟨_, hmem, rfl, rfl, hs, rfl⟩

end EarleyProto
