namespace TrProto

/-- trees as first-order forests: a forest is a list of trees, a tree is a token leaf or a node with a child forest -/
inductive Forest where
  | nil
  | leaf (tok : Nat) (rest : Forest)
  | node (data : Nat) (kids : Forest) (rest : Forest)

def Forest.len : Forest → Nat
  | .nil => 0
  | .leaf _ rest => rest.len + 1
  | .node _ _ rest => rest.len + 1

variable {V : Type}

/-- lark/visitors.py:155 `Transformer._transform_tree` / `_transform_children` (no `Discard`):
    `f data children` is the rule callback (or `__default__`), `g tok` the token callback -/
def tr (f : Nat → List V → V) (g : Nat → V) : Forest → List V
  | .nil => []
  | .leaf t rest => g t :: tr f g rest
  | .node d kids rest => f d (tr f g kids) :: tr f g rest

theorem tr_length (f : Nat → List V → V) (g : Nat → V) : ∀ F : Forest, (tr f g F).length = F.len := by
  intro F
  induction F with
  | nil => rfl
  | leaf t rest ih => simp [tr, Forest.len, ih]
  | node d kids rest _ ih => simp [tr, Forest.len, ih]

inductive Instr where
  | tok (t : Nat)
  | node (d : Nat) (size : Nat)

/-- the postOrder order `Transformer_NonRecursive.transform` iterates over (`reversed(rev_postfix)`) -/
def postOrder : Forest → List Instr
  | .nil => []
  | .leaf t rest => Instr.tok t :: postOrder rest
  | .node d kids rest => postOrder kids ++ Instr.node d kids.len :: postOrder rest

/-- lark/visitors.py:308-327, the stack loop; the stack is kept top-first -/
def runStack (f : Nat → List V → V) (g : Nat → V) : List Instr → List V → List V
  | [], st => st
  | Instr.tok t :: is, st => runStack f g is (g t :: st)
  | Instr.node d size :: is, st => runStack f g is (f d (st.take size).reverse :: st.drop size)

theorem runStack_append (f : Nat → List V → V) (g : Nat → V) (a b : List Instr) (st : List V) :
    runStack f g (a ++ b) st = runStack f g b (runStack f g a st) := by
  induction a generalizing st with
  | nil => rfl
  | cons i a ih => cases i <;> simp [runStack, ih]

/-- the stack machine computes the recursive transformer's results (in stack order) -/
theorem runStack_postfix (f : Nat → List V → V) (g : Nat → V) : ∀ (F : Forest) (st : List V),
    runStack f g (postOrder F) st = (tr f g F).reverse ++ st := by
  intro F
  induction F with
  | nil => intro st; rfl
  | leaf t rest ih => intro st; simp [postOrder, runStack, tr, ih]
  | node d kids rest ihk ihr =>
    intro st
    simp only [postOrder, runStack_append, runStack, ihk, tr]
    have hlen : kids.len = (tr f g kids).reverse.length := by simp [tr_length]
    rw [hlen, List.take_left, List.drop_left, ihr]
    simp

/-- C16: `Transformer_NonRecursive` and `Transformer` return equal results on every (proper) tree -/
theorem nonrecursive_eq_recursive (f : Nat → List V → V) (g : Nat → V) (d : Nat) (kids : Forest) :
    runStack f g (postOrder (.node d kids .nil)) [] = tr f g (.node d kids .nil) := by
  rw [runStack_postfix]; simp [tr]

end TrProto
