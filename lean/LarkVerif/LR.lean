import LarkVerif.Earley
namespace LRProto
open EarleyProto

inductive Action where
  | shift (q : Nat)
  | reduce (r : Rule)

/-- an annotated parse table: `items q` is the LR(0) item set lark keeps for state `q` -/
structure Table where
  items : Nat → List (Rule × Nat)
  action : Nat → Nat → Option Action    -- state, terminal
  goto : Nat → Nat → Option Nat         -- state, nonterminal
  start : Nat
  final : Nat

def Table.trans (T : Table) (p : Nat) (X : Sym) (q : Nat) : Prop :=
  match X with
  | Sym.t a => T.action p a = some (Action.shift q)
  | Sym.nt A => T.goto p A = some q

/-- the local certificate (decidable for a finite table; here stated as a Prop) -/
structure TableSafe (G : Grammar) (T : Table) (startSym : Nat) : Prop where
  succ_items : ∀ p X q, T.trans p X q → ∀ r d, (r, d) ∈ T.items q →
      d = 0 ∨ ∃ d', d = d' + 1 ∧ r.rhs[d']? = some X ∧ (r, d') ∈ T.items p
  reduce_item : ∀ q t r, T.action q t = some (Action.reduce r) → (r, r.rhs.length) ∈ T.items q ∧ r ∈ G.rules
  start_items : ∀ r d, (r, d) ∈ T.items T.start → d = 0
  final_pred : ∀ p X, T.trans p X T.final → p = T.start ∧ X = Sym.nt startSym
  start_no_pred : ∀ p X, ¬ T.trans p X T.start

structure Config where
  states : List Nat                 -- top first
  vals : List (Sym × List Nat)      -- top first: symbol and its yield

/-- concatenated yields of a value stack given top first -/
def yieldOf : List (Sym × List Nat) → List Nat
  | [] => []
  | v :: vs => yieldOf vs ++ v.2

theorem yieldOf_append (a b : List (Sym × List Nat)) : yieldOf (a ++ b) = yieldOf b ++ yieldOf a := by
  induction a with
  | nil => simp [yieldOf]
  | cons v a ih => simp [yieldOf, ih, List.append_assoc]

inductive Outcome where
  | shifted (c : Config)
  | accept (v : Sym × List Nat)
  | error
  | crash
  | loop

/-- lark/parsers/lalr_parser_state.py:67 feed_token -/
def reduceLoop (T : Table) (t : Nat) (isEnd : Bool) : Nat → Config → Outcome
  | 0, _ => Outcome.loop
  | f+1, cfg =>
    match cfg.states with
    | [] => Outcome.crash
    | q :: _ =>
      match T.action q t with
      | none => Outcome.error
      | some (Action.shift q') =>
          if isEnd then Outcome.crash
          else Outcome.shifted ⟨q' :: cfg.states, (Sym.t t, [t]) :: cfg.vals⟩
      | some (Action.reduce r) =>
          let n := r.rhs.length
          let popped := cfg.vals.take n
          let sts := cfg.states.drop n
          match sts with
          | [] => Outcome.crash
          | p :: _ =>
            match T.goto p r.lhs with
            | none => Outcome.crash
            | some p' =>
              let v : Sym × List Nat := (Sym.nt r.lhs, yieldOf popped)
              if isEnd && p' == T.final then Outcome.accept v
              else reduceLoop T t isEnd f ⟨p' :: sts, v :: cfg.vals.drop n⟩

def parseFrom (T : Table) (eof fuel : Nat) : Config → List Nat → Outcome
  | cfg, [] => reduceLoop T eof true fuel cfg
  | cfg, t :: ts =>
    match reduceLoop T t false fuel cfg with
    | Outcome.shifted cfg' => parseFrom T eof fuel cfg' ts
    | o => o

def parse (T : Table) (eof fuel : Nat) (toks : List Nat) : Outcome :=
  parseFrom T eof fuel ⟨[T.start], []⟩ toks

/-- the state stack spells a path of the automaton labelled by the value stack's symbols -/
inductive StackPath (T : Table) : List Nat → List (Sym × List Nat) → Prop
  | base : StackPath T [T.start] []
  | push (q p ss X y vs) : StackPath T (p :: ss) vs → T.trans p X q → StackPath T (q :: p :: ss) ((X, y) :: vs)

structure Inv (G : Grammar) (T : Table) (cfg : Config) (consumed : List Nat) : Prop where
  path : StackPath T cfg.states cfg.vals
  derives : ∀ v ∈ cfg.vals, DerivesSeq G [v.1] v.2
  yield : yieldOf cfg.vals = consumed

theorem StackPath.length {T : Table} {ss vs} (h : StackPath T ss vs) : ss.length = vs.length + 1 := by
  induction h with
  | base => rfl
  | push => simp_all

theorem StackPath.drop {T : Table} {ss vs} (h : StackPath T ss vs) :
    ∀ n, n ≤ vs.length → StackPath T (ss.drop n) (vs.drop n) := by
  induction h with
  | base => intro n hn; simp at hn; subst hn; exact StackPath.base
  | push q p ss X y vs hp ht ih =>
    intro n hn
    cases n with
    | zero => exact StackPath.push q p ss X y vs hp ht
    | succ n => simpa using ih n (by simpa using hn)

/-- items of the top state are suffix-consistent with the stack -/
theorem StackPath.items_prefix {G : Grammar} {T : Table} {s0 : Nat} (hT : TableSafe G T s0) {ss vs}
    (h : StackPath T ss vs) : ∀ q, ss.head? = some q → ∀ r d, (r, d) ∈ T.items q →
      (r.rhs.take d).reverse <+: vs.map (·.1) := by
  induction h with
  | base =>
    intro q hq r d hi
    simp at hq; subst hq
    have := hT.start_items r d hi; subst this; simp
  | push q p ss X y vs hp ht ih =>
    intro q' hq' r d hi
    simp at hq'; subst hq'
    rcases hT.succ_items p X q ht r d hi with h0 | ⟨d', rfl, hX, hi'⟩
    · subst h0; simp
    · have := ih p rfl r d' hi'
      rw [List.take_add_one, hX]
      simp only [Option.toList, List.reverse_append, List.reverse_cons, List.reverse_nil, List.nil_append,
        List.singleton_append, List.map_cons]
      exact (List.cons_prefix_cons).mpr ⟨rfl, this⟩


theorem derives_concat {G : Grammar} : ∀ (l : List (Sym × List Nat)), (∀ v ∈ l, DerivesSeq G [v.1] v.2) →
    DerivesSeq G (l.map (·.1)) (l.map (·.2)).flatten := by
  intro l
  induction l with
  | nil => intro _; exact DerivesSeq.nil
  | cons v l ih =>
    intro h
    have h1 := h v (List.mem_cons_self ..)
    have h2 := ih (fun w hw => h w (List.mem_cons_of_mem _ hw))
    have := DerivesSeq.append h1 h2
    simpa using this

theorem derives_yieldOf {G : Grammar} : ∀ (l : List (Sym × List Nat)), (∀ v ∈ l, DerivesSeq G [v.1] v.2) →
    DerivesSeq G (l.map (·.1)).reverse (yieldOf l) := by
  intro l
  induction l with
  | nil => intro _; exact DerivesSeq.nil
  | cons v l ih =>
    intro h
    have h1 := h v (List.mem_cons_self ..)
    have h2 := ih (fun w hw => h w (List.mem_cons_of_mem _ hw))
    have := DerivesSeq.append h2 h1
    simpa [yieldOf] using this

/-- one call of `feed_token` preserves the invariant; acceptance yields a derivation of the whole input -/
theorem reduceLoop_sound {G : Grammar} {T : Table} {s0 : Nat} (hT : TableSafe G T s0) (t : Nat) (isEnd : Bool) :
    ∀ fuel cfg consumed, Inv G T cfg consumed →
      (∀ cfg', reduceLoop T t isEnd fuel cfg = Outcome.shifted cfg' → Inv G T cfg' (consumed ++ [t])) ∧
      (∀ v, reduceLoop T t isEnd fuel cfg = Outcome.accept v →
          v.1 = Sym.nt s0 ∧ v.2 = consumed ∧ DerivesSeq G [Sym.nt s0] consumed) := by
  intro fuel
  induction fuel with
  | zero => intro cfg consumed _; simp [reduceLoop]
  | succ f ih =>
    intro cfg consumed hinv
    obtain ⟨states, vals⟩ := cfg
    unfold reduceLoop
    cases hst : states with
    | nil => simp
    | cons q ss =>
      simp only
      cases hact : T.action q t with
      | none => simp
      | some a =>
        cases a with
        | shift q' =>
          simp only
          cases isEnd with
          | true => simp
          | false =>
            simp only [Bool.false_eq_true, if_false, Outcome.shifted.injEq, reduceCtorEq, false_imp_iff,
              implies_true, and_true]
            rintro cfg' rfl
            have hpath : StackPath T (q :: ss) vals := by simpa [hst] using hinv.path
            refine ⟨?_, ?_, ?_⟩
            · cases hpath with
              | base => exact StackPath.push q' T.start [] (Sym.t t) [t] [] StackPath.base hact
              | push _ p ss' X y vs hp ht =>
                exact StackPath.push q' q (p :: ss') (Sym.t t) [t] _ (StackPath.push q p ss' X y vs hp ht) hact
            · intro v hv
              rcases List.mem_cons.mp hv with rfl | hv
              · exact DerivesSeq.term t [] [] DerivesSeq.nil
              · exact hinv.derives v hv
            · have := hinv.yield
              simp only at this
              simp [yieldOf, this]
        | reduce r =>
          simp only
          have hpath : StackPath T (q :: ss) vals := by simpa [hst] using hinv.path
          obtain ⟨hitem, hrule⟩ := hT.reduce_item q t r hact
          have hpre := hpath.items_prefix hT q rfl r r.rhs.length hitem
          simp only [List.take_length] at hpre
          obtain ⟨tail, htail⟩ := hpre
          -- the popped values carry exactly the rule's right-hand side
          have hlen : r.rhs.length ≤ vals.length := by
            have := congrArg List.length htail; simp at this; omega
          have hpop : (vals.take r.rhs.length).map (·.1) = r.rhs.reverse := by
            have := congrArg (List.take r.rhs.length) htail
            rw [List.take_left' (by simp)] at this
            rw [← List.map_take] at this; exact this.symm
          have hdrop := hpath.drop r.rhs.length hlen
          cases hsts : (q :: ss).drop r.rhs.length with
          | nil =>
            exfalso
            have h1 := hpath.length
            have : ((q :: ss).drop r.rhs.length).length = 0 := by rw [hsts]; rfl
            simp at this h1; omega
          | cons p ss' =>
            simp only
            cases hgoto : T.goto p r.lhs with
            | none => simp
            | some p' =>
              simp only
              -- the new value
              have hder : DerivesSeq G [Sym.nt r.lhs] (yieldOf (vals.take r.rhs.length)) := by
                have h1 := derives_yieldOf (G := G) (vals.take r.rhs.length) (by
                  intro v hv
                  exact hinv.derives v (List.mem_of_mem_take hv))
                rw [hpop, List.reverse_reverse] at h1
                have := DerivesSeq.nonterm r [] _ [] hrule h1 DerivesSeq.nil
                simpa using this
              have hinv' : Inv G T ⟨p' :: p :: ss', (Sym.nt r.lhs, yieldOf (vals.take r.rhs.length)) :: vals.drop r.rhs.length⟩ consumed := by
                refine ⟨?_, ?_, ?_⟩
                · rw [hsts] at hdrop
                  exact StackPath.push p' p ss' (Sym.nt r.lhs) _ _ hdrop hgoto
                · intro v hv
                  rcases List.mem_cons.mp hv with rfl | hv
                  · exact hder
                  · exact hinv.derives v (List.mem_of_mem_drop hv)
                · have hy := hinv.yield
                  simp only at hy
                  rw [← hy]
                  simp only [yieldOf]
                  rw [← yieldOf_append, List.take_append_drop]
              by_cases hfin : (isEnd && p' == T.final) = true
              · simp only [hfin, if_true, reduceCtorEq, false_imp_iff, implies_true, Outcome.accept.injEq, true_and]
                rintro v rfl
                simp only [Bool.and_eq_true, beq_iff_eq] at hfin
                obtain ⟨_, hp'⟩ := hfin
                subst hp'
                -- the final state sits directly on the start state, above the start symbol
                have hpf := hT.final_pred p (Sym.nt r.lhs) (by simpa [Table.trans] using hgoto)
                obtain ⟨hp0, hsym⟩ := hpf
                have hbase : vals.drop r.rhs.length = [] := by
                  rw [hsts] at hdrop
                  generalize hdv : vals.drop r.rhs.length = dv at hdrop
                  subst hp0
                  cases hdrop with
                  | base => rfl
                  | push _ p2 ss2 X y vs hp2 ht2 => exact absurd ht2 (hT.start_no_pred p2 X)
                have hs : r.lhs = s0 := by simpa using hsym
                have hy := hinv'.yield
                simp only [hbase, yieldOf, List.nil_append] at hy
                refine ⟨by simp [hs], hy, ?_⟩
                rw [← hs, ← hy]; exact hder
              · simp only [hfin, Bool.false_eq_true, if_false]
                exact ih _ consumed hinv'


theorem reduceLoop_no_accept (T : Table) (t : Nat) : ∀ fuel cfg v,
    reduceLoop T t false fuel cfg ≠ Outcome.accept v := by
  intro fuel
  induction fuel with
  | zero => intro cfg v; simp [reduceLoop]
  | succ f ih =>
    intro cfg v
    unfold reduceLoop
    split
    · simp
    · split
      · simp
      · simp
      · simp only
        split
        · simp
        · split
          · simp
          · simp only [Bool.false_and, Bool.false_eq_true, if_false]
            exact ih _ v

theorem parseFrom_sound {G : Grammar} {T : Table} {s0 : Nat} (hT : TableSafe G T s0) (eof fuel : Nat) :
    ∀ toks cfg consumed v, Inv G T cfg consumed → parseFrom T eof fuel cfg toks = Outcome.accept v →
      v.1 = Sym.nt s0 ∧ v.2 = consumed ++ toks ∧ DerivesSeq G [Sym.nt s0] (consumed ++ toks) := by
  intro toks
  induction toks with
  | nil =>
    intro cfg consumed v hinv h
    simp only [parseFrom] at h
    simpa using (reduceLoop_sound hT eof true fuel cfg consumed hinv).2 v h
  | cons t ts ih =>
    intro cfg consumed v hinv h
    simp only [parseFrom] at h
    split at h
    · rename_i cfg' hsh
      have hinv' := (reduceLoop_sound hT t false fuel cfg consumed hinv).1 cfg' hsh
      have := ih cfg' (consumed ++ [t]) v hinv' h
      simpa [List.append_assoc] using this
    · rename_i o hno
      exact absurd h (reduceLoop_no_accept T t fuel cfg v)

/-- Soundness of the LALR driver for every table that passes the local certificate:
    whatever the lookahead sets are, an accepted token string is a sentence of the grammar. -/
theorem parse_sound {G : Grammar} {T : Table} {s0 : Nat} (hT : TableSafe G T s0) (eof fuel : Nat)
    (toks : List Nat) (v : Sym × List Nat) (h : parse T eof fuel toks = Outcome.accept v) :
    v.2 = toks ∧ DerivesSeq G [Sym.nt s0] toks := by
  have hinv : Inv G T ⟨[T.start], []⟩ [] := ⟨StackPath.base, by simp, rfl⟩
  have := parseFrom_sound hT eof fuel toks _ [] v hinv h
  simpa using this.2

end LRProto
