import LarkVerif.Heap
/-! C13: `copy.deepcopy` of a value stack (`ParserState.copy`, `Tree.__deepcopy__`) — the hypothesis of `fork_unaffected` ("the fork's reachable list
    objects do not include the one the original mutates in place") is what a deep copy *establishes*.  `deepcopy` re-allocates every list object
    reachable from a value at fresh addresses `≥ nx`; `deepcopy_spec`: old objects are untouched, the copy lives entirely in the fresh region, and it
    denotes the same pure value.  `copy_then_mutate_original` / `copy_then_mutate_copy` combine it with the in-place append of the tree builder. -/
namespace HeapProto
open ShapeProto

/-- `omega` matches `Nat` syntactically; addresses are written `Ref` (an abbreviation of `Nat`) -/
local macro "omegaR" : tactic => `(tactic| ((try unfold Ref at *); omega))

/-- deep copy with an allocation pointer `nx` (first free address); returns the new heap, the new allocation pointer and the copy -/
def deepcopy : Nat → Heap → Ref → HV → Heap × Ref × HV
  | _, h, nx, HV.tok ty v => (h, nx, HV.tok ty v)
  | _, h, nx, HV.none => (h, nx, HV.none)
  | 0, h, nx, HV.tree d r => (h, nx, HV.tree d r)
  | f+1, h, nx, HV.tree d r =>
      let res := (h r).foldl (fun (acc : Heap × Ref × List HV) k =>
                    let c := deepcopy f acc.1 acc.2.1 k
                    (c.1, c.2.1, acc.2.2 ++ [c.2.2])) (h, nx + 1, [])
      (fun r' => if r' = nx then res.2.2 else res.1 r', res.2.1, HV.tree d nx)

theorem flatMap_congr' {α β} (g g' : α → List β) : ∀ (l : List α), (∀ x ∈ l, g x = g' x) → l.flatMap g = l.flatMap g' := by
  intro l
  induction l with
  | nil => intro _; rfl
  | cons a l ih =>
    intro h
    simp only [List.flatMap_cons]
    rw [h a (List.mem_cons_self ..), ih (fun x hx => h x (List.mem_cons_of_mem _ hx))]

theorem reach_frame (h h' : Heap) : ∀ (f : Nat) (v : HV), (∀ r ∈ reach h f v, h r = h' r) → reach h f v = reach h' f v := by
  intro f
  induction f with
  | zero => intro v _; cases v <;> rfl
  | succ f ih =>
    intro v hag
    cases v with
    | tok ty v => rfl
    | none => rfl
    | tree d r =>
      have hr : h r = h' r := hag r (by simp [reach])
      simp only [reach, ← hr]
      congr 1
      apply flatMap_congr'
      intro x hx
      apply ih
      intro r' hr'
      apply hag
      simp only [reach, List.mem_cons, List.mem_flatMap]
      exact Or.inr ⟨x, hx, hr'⟩

/-- everything reachable from `v` lies below `n` -/
def Below (h : Heap) (f : Nat) (n : Nat) (v : HV) : Prop := ∀ r ∈ reach h f v, r < n

/-- enough fuel for `v`: the denotation exists (the value is a finite tree) -/
def Fin (h : Heap) (f : Nat) (v : HV) : Prop := (den h f v).isSome

structure Spec (f : Nat) (h : Heap) (nx : Ref) (v : HV) (out : Heap × Ref × HV) : Prop where
  mono : nx ≤ out.2.1
  frame : ∀ r, r < nx → out.1 r = h r
  fresh : ∀ r ∈ reach out.1 f out.2.2, nx ≤ r ∧ r < out.2.1
  same : den out.1 f out.2.2 = den h f v

theorem mapM_isSome_mem {α β} (g : α → Option β) : ∀ (l : List α), (l.mapM g).isSome → ∀ x ∈ l, (g x).isSome := by
  intro l
  induction l with
  | nil => intro _ x hx; cases hx
  | cons a l ih =>
    intro h x hx
    simp only [List.mapM_cons] at h
    cases ha : g a with
    | none => simp [ha] at h
    | some b =>
      cases hl : l.mapM g with
      | none => simp [ha, hl] at h
      | some bs =>
        rcases List.mem_cons.mp hx with rfl | hx
        · simp [ha]
        · exact ih (by simp [hl]) x hx

/-- the loop over the children, with its invariant -/
theorem copy_kids (f : Nat)
    (ih : ∀ (h : Heap) (nx : Ref) (v : HV), Below h f nx v → Fin h f v → Spec f h nx v (deepcopy f h nx v))
    (h0 : Heap) (base : Ref) :
    ∀ (kids : List HV) (h : Heap) (nx : Ref) (acc : List HV), base ≤ nx →
      (∀ r, r < base → h r = h0 r) →
      (∀ k ∈ kids, Below h0 f base k ∧ Fin h0 f k) →
      let res := kids.foldl (fun (acc : Heap × Ref × List HV) k =>
                    let c := deepcopy f acc.1 acc.2.1 k
                    (c.1, c.2.1, acc.2.2 ++ [c.2.2])) (h, nx, acc)
      nx ≤ res.2.1 ∧ (∀ r, r < nx → res.1 r = h r) ∧
      ∃ news, res.2.2 = acc ++ news ∧ news.length = kids.length ∧
        (∀ k' ∈ news, ∀ r ∈ reach res.1 f k', nx ≤ r ∧ r < res.2.1) ∧
        news.mapM (den res.1 f) = kids.mapM (den h0 f) := by
  intro kids
  induction kids with
  | nil =>
    intro h nx acc _ _ _
    exact ⟨Nat.le_refl _, fun _ _ => rfl, [], by simp, rfl, by simp, rfl⟩
  | cons k ks ihk =>
    intro h nx acc hb hfr hk
    simp only [List.foldl_cons]
    obtain ⟨hbelow, hfin⟩ := hk k (List.mem_cons_self ..)
    -- the child as seen in the current heap is the child as seen in the original heap
    have hagree : ∀ r ∈ reach h0 f k, h0 r = h r := fun r hr => (hfr r (hbelow r hr)).symm
    have hreach : reach h f k = reach h0 f k := (reach_frame h0 h f k hagree).symm
    have hden : den h f k = den h0 f k := (den_frame h0 h f k hagree).symm
    have hS := ih h nx k (by intro r hr; rw [hreach] at hr; exact Nat.lt_of_lt_of_le (hbelow r hr) hb) (by unfold Fin; rw [hden]; exact hfin)
    generalize hc : deepcopy f h nx k = c at hS
    obtain ⟨h1, n1, k'⟩ := c
    have hSmono : nx ≤ n1 := hS.mono
    have hSframe : ∀ r, r < nx → h1 r = h r := hS.frame
    have hSfresh : ∀ r ∈ reach h1 f k', nx ≤ r ∧ r < n1 := hS.fresh
    have hSsame : den h1 f k' = den h f k := hS.same
    simp only at hS ⊢
    have hrest := ihk h1 n1 (acc ++ [k']) (Nat.le_trans hb hSmono) (fun r hr => by rw [hSframe r (Nat.lt_of_lt_of_le hr hb)]; exact hfr r hr)
      (fun x hx => hk x (List.mem_cons_of_mem _ hx))
    simp only at hrest
    obtain ⟨hm, hf2, news, hacc, hlen, hfresh, hsame⟩ := hrest
    refine ⟨Nat.le_trans hSmono hm, fun r hr => ?_, k' :: news, by simp [hacc], by simp [hlen], ?_, ?_⟩
    · rw [hf2 r (Nat.lt_of_lt_of_le hr hSmono), hSframe r hr]
    · -- the copy of `k` made first is not disturbed by the later copies: they only write at addresses ≥ n1
      have hk'agree : ∀ r ∈ reach h1 f k', h1 r = (List.foldl (fun (acc : Heap × Ref × List HV) k =>
            let c := deepcopy f acc.1 acc.2.1 k; (c.1, c.2.1, acc.2.2 ++ [c.2.2])) (h1, n1, acc ++ [k']) ks).1 r :=
        fun r hr => (hf2 r (hSfresh r hr).2).symm
      intro x hx r hr
      rcases List.mem_cons.mp hx with rfl | hx
      · rw [← reach_frame h1 _ f x hk'agree] at hr
        exact ⟨(hSfresh r hr).1, Nat.lt_of_lt_of_le (hSfresh r hr).2 hm⟩
      · have := hfresh x hx r hr
        exact ⟨Nat.le_trans hSmono this.1, this.2⟩
    · have hk'agree : ∀ r ∈ reach h1 f k', h1 r = (List.foldl (fun (acc : Heap × Ref × List HV) k =>
            let c := deepcopy f acc.1 acc.2.1 k; (c.1, c.2.1, acc.2.2 ++ [c.2.2])) (h1, n1, acc ++ [k']) ks).1 r :=
        fun r hr => (hf2 r (hSfresh r hr).2).symm
      simp only [List.mapM_cons]
      rw [← den_frame h1 _ f k' hk'agree, hSsame, hden, hsame]

/-- **What a deep copy establishes.** For a finite value whose list objects all lie below the allocation pointer: old objects are untouched, the
    copy's list objects are all fresh, and the copy denotes the same pure value. -/
theorem deepcopy_spec : ∀ (f : Nat) (h : Heap) (nx : Ref) (v : HV), Below h f nx v → Fin h f v → Spec f h nx v (deepcopy f h nx v) := by
  intro f
  induction f with
  | zero =>
    intro h nx v _ hfin
    cases v with
    | tok ty v => exact ⟨Nat.le_refl _, fun _ _ => rfl, by simp [deepcopy, reach], rfl⟩
    | none => exact ⟨Nat.le_refl _, fun _ _ => rfl, by simp [deepcopy, reach], rfl⟩
    | tree d r => simp [Fin, den] at hfin
  | succ f ih =>
    intro h nx v hbelow hfin
    cases v with
    | tok ty v => exact ⟨Nat.le_refl _, fun _ _ => rfl, by simp [deepcopy, reach], rfl⟩
    | none => exact ⟨Nat.le_refl _, fun _ _ => rfl, by simp [deepcopy, reach], rfl⟩
    | tree d r =>
      have hkids : ∀ k ∈ h r, Below h f (nx + 1) k ∧ Fin h f k := by
        intro k hk
        constructor
        · intro r' hr'
          have hlt : r' < nx := hbelow r' (by simp only [reach, List.mem_cons, List.mem_flatMap]; exact Or.inr ⟨k, hk, hr'⟩)
          show r' < nx + 1
          omegaR
        · simp only [Fin, den, Option.isSome_map] at hfin
          exact mapM_isSome_mem _ _ hfin k hk
      have hloop := copy_kids f ih h (nx + 1) (h r) h (nx + 1) [] (Nat.le_refl _) (fun _ _ => rfl) hkids
      simp only at hloop
      simp only [deepcopy]
      generalize hres : (h r).foldl (fun (acc : Heap × Ref × List HV) k =>
                    let c := deepcopy f acc.1 acc.2.1 k
                    (c.1, c.2.1, acc.2.2 ++ [c.2.2])) (h, nx + 1, []) = res at hloop
      obtain ⟨h1, n1, ks⟩ := res
      simp only at hloop ⊢
      obtain ⟨hm0, hfr0, news, hacc, _, hfresh0, hsame0⟩ := hloop
      simp only [List.nil_append] at hacc
      subst hacc
      have hm : nx + 1 ≤ n1 := hm0
      have hfr : ∀ r, r < nx + 1 → h1 r = h r := hfr0
      have hfresh : ∀ k' ∈ ks, ∀ r ∈ reach h1 f k', nx + 1 ≤ r ∧ r < n1 := hfresh0
      have hsame : ks.mapM (den h1 f) = (h r).mapM (den h f) := hsame0
      -- writing the new list object at `nx` does not disturb the copies of the children (they live above `nx`)
      have hag : ∀ k' ∈ ks, ∀ r ∈ reach h1 f k', h1 r = (fun r' => if r' = nx then ks else h1 r') r := by
        intro k' hk' r hr
        have := (hfresh k' hk' r hr).1
        have hne : r ≠ nx := by omegaR
        simp [hne]
      refine ⟨show nx ≤ n1 by omegaR, fun r0 hr0 => ?_, ?_, ?_⟩
      · have hr0' : r0 < nx := hr0
        have hne : r0 ≠ nx := by omegaR
        show (if r0 = nx then ks else h1 r0) = h r0
        simp only [hne, if_false]
        exact hfr r0 (by omegaR)
      · intro r0 hr0
        show nx ≤ r0 ∧ r0 < n1
        simp only [reach, if_true, List.mem_cons, List.mem_flatMap] at hr0
        rcases hr0 with rfl | ⟨k', hk', hr0⟩
        · omegaR
        · rw [← reach_frame h1 _ f k' (hag k' hk')] at hr0
          have := hfresh k' hk' r0 hr0
          omegaR
      · simp only [den, if_true]
        rw [mapM_congr _ (den h1 f) ks (fun k' hk' => (den_frame h1 _ f k' (hag k' hk')).symm), hsame]

/-- **After `copy()`, an in-place append by the original is invisible to the fork** (the disjointness hypothesis of `fork_unaffected` discharged by the
    deep copy): the original extends a list object `r` it owns (`r < nx`); the copy's denotation does not change. -/
theorem copy_then_mutate_original (f : Nat) (h : Heap) (nx : Ref) (v : HV) (hb : Below h f nx v) (hfin : Fin h f v)
    (r : Ref) (hr : r < nx) (extra : List HV) :
    let c := deepcopy f h nx v
    den (appendInPlace c.1 r extra) f c.2.2 = den h f v := by
  intro c
  have hS := deepcopy_spec f h nx v hb hfin
  have hfresh : ∀ r' ∈ reach c.1 f c.2.2, nx ≤ r' ∧ r' < c.2.1 := hS.fresh
  have hsame : den c.1 f c.2.2 = den h f v := hS.same
  rw [← hsame]
  symm
  apply den_frame
  intro r' hr'
  have hge : nx ≤ r' := (hfresh r' hr').1
  have : r' ≠ r := by omegaR
  simp [appendInPlace, this]

/-- … and an in-place append by the fork, to a list object of the copy, is invisible to the original. -/
theorem copy_then_mutate_copy (f : Nat) (h : Heap) (nx : Ref) (v : HV) (hb : Below h f nx v) (hfin : Fin h f v)
    (r : Ref) (hr : nx ≤ r) (extra : List HV) :
    let c := deepcopy f h nx v
    den (appendInPlace c.1 r extra) f v = den h f v := by
  intro c
  have hS := deepcopy_spec f h nx v hb hfin
  have hframe : ∀ r', r' < nx → c.1 r' = h r' := hS.frame
  symm
  apply den_frame
  intro r' hr'
  have hlt : r' < nx := hb r' hr'
  have : r' ≠ r := by omegaR
  simp only [appendInPlace, this, if_false]
  exact (hframe r' hlt).symm

end HeapProto
