namespace PrioProto

/-- a (tree-unfolded, hence acyclic) parse forest in first-order form:
    an OR node is a chain `orCons alt₁ (orCons alt₂ … orNil)` of packed alternatives;
    a packed node carries its rule's priority and 0, 1 or 2 children (earley_forest.py:110) -/
inductive AO where
  | leaf (w : Int)                    -- TokenNode with its terminal priority
  | orNil
  | orCons (alt : AO) (rest : AO)
  | and0 (w : Int)
  | and1 (w : Int) (c : AO)
  | and2 (w : Int) (l r : AO)

def optMax : Option Int → Option Int → Option Int
  | none, b => b
  | a, none => a
  | some a, some b => some (max a b)

def optAdd : Option Int → Option Int → Option Int
  | some a, some b => some (a + b)
  | _, _ => none

/-- `ForestSumVisitor` (earley_forest.py:445): packed = rule priority + children, symbol = max of alternatives -/
def prio : AO → Option Int
  | .leaf w => some w
  | .orNil => none
  | .orCons a rest => optMax (prio a) (prio rest)
  | .and0 w => some w
  | .and1 w c => optAdd (some w) (prio c)
  | .and2 w l r => optAdd (optAdd (some w) (prio l)) (prio r)

/-- total priorities of *all* derivations the forest encodes -/
def derivs : AO → List Int
  | .leaf w => [w]
  | .orNil => []
  | .orCons a rest => derivs a ++ derivs rest
  | .and0 w => [w]
  | .and1 w c => (derivs c).map (w + ·)
  | .and2 w l r => (derivs l).flatMap (fun x => (derivs r).map (fun y => w + x + y))

def best : List Int → Option Int
  | [] => none
  | x :: xs => optMax (some x) (best xs)

theorem optMax_none_right (a : Option Int) : optMax a none = a := by cases a <;> rfl
theorem optMax_assoc (a b c : Option Int) : optMax (optMax a b) c = optMax a (optMax b c) := by
  cases a <;> cases b <;> cases c <;> simp [optMax, Int.max_assoc]

theorem best_append (a b : List Int) : best (a ++ b) = optMax (best a) (best b) := by
  induction a with
  | nil => simp [best, optMax]
  | cons x a ih => simp only [List.cons_append, best, ih, optMax_assoc]

theorem best_map_add (w : Int) (l : List Int) : best (l.map (w + ·)) = optAdd (some w) (best l) := by
  induction l with
  | nil => simp [best, optAdd]
  | cons x l ih =>
    simp only [List.map_cons, best, ih]
    cases best l with
    | none => simp [optMax, optAdd]
    | some m => simp only [optMax, optAdd, Option.some.injEq]; omega

theorem optAdd_optMax (a : Option Int) (b c : Option Int) (ha : a ≠ none) :
    optAdd a (optMax b c) = optMax (optAdd a b) (optAdd a c) := by
  cases a with
  | none => exact absurd rfl ha
  | some x =>
    cases b <;> cases c <;> simp only [optMax, optAdd, Option.some.injEq] <;> omega

theorem best_product (w : Int) (l r : List Int) :
    best (l.flatMap (fun x => r.map (fun y => w + x + y))) = optAdd (optAdd (some w) (best l)) (best r) := by
  induction l with
  | nil => simp [best, optAdd]
  | cons x l ih =>
    simp only [List.flatMap_cons, best_append, ih, best]
    have h1 : best (r.map (fun y => w + x + y)) = optAdd (some (w + x)) (best r) := best_map_add (w + x) r
    rw [h1]
    cases hl : best l with
    | none =>
      cases hr : best r <;> simp [optMax, optAdd]
    | some m =>
      cases hr : best r with
      | none => simp [optMax, optAdd]
      | some n => simp only [optMax, optAdd, Option.some.injEq]; omega

/-- C05: the priority the forest walk assigns to a node is the maximum total priority over all derivations
    below it (`none` iff there is no derivation); under `priority='invert'` the weights are negated at load,
    so the same statement yields the minimum. -/
theorem prio_eq_best : ∀ t : AO, prio t = best (derivs t) := by
  intro t
  induction t with
  | leaf w => simp [prio, derivs, best, optMax]
  | orNil => rfl
  | orCons a rest iha ihr => simp only [prio, derivs, best_append, iha, ihr]
  | and0 w => simp [prio, derivs, best, optMax]
  | and1 w c ih => simp only [prio, derivs, best_map_add, ih]
  | and2 w l r ihl ihr => simp only [prio, derivs, best_product, ihl, ihr]

/-- every listed total is attained by no more than the DP value: optimality in the usual form -/
theorem best_ge : ∀ (l : List Int) (x : Int), x ∈ l → ∃ m, best l = some m ∧ x ≤ m := by
  intro l
  induction l with
  | nil => intro x h; cases h
  | cons y l ih =>
    intro x hx
    simp only [best]
    rcases List.mem_cons.mp hx with rfl | hx
    · cases best l with
      | none => exact ⟨x, rfl, Int.le_refl _⟩
      | some m => exact ⟨max x m, rfl, Int.le_max_left ..⟩
    · obtain ⟨m, hm, hle⟩ := ih x hx
      rw [hm]
      exact ⟨max y m, rfl, Int.le_trans hle (Int.le_max_right ..)⟩

theorem resolve_optimal (t : AO) (x : Int) (hx : x ∈ derivs t) : ∃ m, prio t = some m ∧ x ≤ m := by
  rw [prio_eq_best]; exact best_ge _ x hx

end PrioProto
