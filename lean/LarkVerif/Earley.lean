namespace EarleyProto

inductive Sym where
  | t : Nat → Sym
  | nt : Nat → Sym
deriving DecidableEq, Repr

structure Rule where
  lhs : Nat
  rhs : List Sym
deriving DecidableEq, Repr

structure Grammar where
  rules : List Rule

/-- derivation of a token-type string from a sentential form (single, non-nested inductive) -/
inductive DerivesSeq (G : Grammar) : List Sym → List Nat → Prop
  | nil : DerivesSeq G [] []
  | term (a rest ts) : DerivesSeq G rest ts → DerivesSeq G (Sym.t a :: rest) (a :: ts)
  | nonterm (r rest ts1 ts2) : r ∈ G.rules → DerivesSeq G r.rhs ts1 → DerivesSeq G rest ts2 →
      DerivesSeq G (Sym.nt r.lhs :: rest) (ts1 ++ ts2)

/-- the token lattice: terminal edges and ignore edges between text positions -/
structure Lattice where
  edge : Nat → Nat → Nat → Prop   -- edge a i j
  ign : Nat → Nat → Prop

inductive IgnStar (L : Lattice) : Nat → Nat → Prop
  | refl (i) : IgnStar L i i
  | step (i j k) : L.ign i j → IgnStar L j k → IgnStar L i k

/-- a path spelling `ts`, ignore-runs attached in front of each terminal -/
inductive Steps (L : Lattice) : Nat → Nat → List Nat → Prop
  | nil (i) : Steps L i i []
  | cons (i i' j k a ts) : IgnStar L i i' → L.edge a i' j → Steps L j k ts → Steps L i k (a :: ts)

theorem Steps.append {L : Lattice} {i j k ts1 ts2} (h1 : Steps L i j ts1) (h2 : Steps L j k ts2) :
    Steps L i k (ts1 ++ ts2) := by
  induction h1 with
  | nil => simpa using h2
  | cons i i' j k' a ts hi he _ ih => exact Steps.cons i i' j k a _ hi he (ih h2)

theorem Steps.split {L : Lattice} {ts1 ts2 : List Nat} : ∀ {i k}, Steps L i k (ts1 ++ ts2) →
    ∃ j, Steps L i j ts1 ∧ Steps L j k ts2 := by
  induction ts1 with
  | nil => intro i k h; exact ⟨i, Steps.nil i, by simpa using h⟩
  | cons a ts ih =>
    intro i k h
    cases h with
    | cons _ i' j _ _ _ hi he hs =>
      obtain ⟨m, h1, h2⟩ := ih hs
      exact ⟨m, Steps.cons i i' j m a ts hi he h1, h2⟩

structure Item where
  rule : Rule
  dot : Nat
  origin : Nat

inductive Chart (G : Grammar) (L : Lattice) (start : Nat) : Nat → Item → Prop
  | init (r) : r ∈ G.rules → r.lhs = start → Chart G L start 0 ⟨r, 0, 0⟩
  | predict (i r d k r') : Chart G L start i ⟨r, d, k⟩ → r.rhs[d]? = some (Sym.nt r'.lhs) → r' ∈ G.rules →
      Chart G L start i ⟨r', 0, i⟩
  | scan (i j r d k a) : Chart G L start i ⟨r, d, k⟩ → r.rhs[d]? = some (Sym.t a) → L.edge a i j →
      Chart G L start j ⟨r, d+1, k⟩
  | ignore (i j r d k a) : Chart G L start i ⟨r, d, k⟩ → r.rhs[d]? = some (Sym.t a) → L.ign i j →
      Chart G L start j ⟨r, d, k⟩
  | complete (i j r' r d k) : Chart G L start i ⟨r', r'.rhs.length, j⟩ → Chart G L start j ⟨r, d, k⟩ →
      r.rhs[d]? = some (Sym.nt r'.lhs) → Chart G L start i ⟨r, d+1, k⟩
  | carry (i j r k) : Chart G L start i ⟨r, r.rhs.length, k⟩ → r.lhs = start → k = 0 → L.ign i j →
      Chart G L start j ⟨r, r.rhs.length, k⟩

/-- unrestricted path: ignore edges anywhere -/
inductive Path (L : Lattice) : Nat → Nat → List Nat → Prop
  | nil (i) : Path L i i []
  | edge (i j k a ts) : L.edge a i j → Path L j k ts → Path L i k (a :: ts)
  | ign (i j k ts) : L.ign i j → Path L j k ts → Path L i k ts

theorem Path.append {L : Lattice} {i j k ts1 ts2} (h1 : Path L i j ts1) (h2 : Path L j k ts2) :
    Path L i k (ts1 ++ ts2) := by
  induction h1 with
  | nil => simpa using h2
  | edge i j k' a ts he _ ih => exact Path.edge i j k a _ he (ih h2)
  | ign i j k' ts hi _ ih => exact Path.ign i j k _ hi (ih h2)

theorem DerivesSeq.append {G : Grammar} {α β : List Sym} {u v : List Nat}
    (h1 : DerivesSeq G α u) (h2 : DerivesSeq G β v) : DerivesSeq G (α ++ β) (u ++ v) := by
  induction h1 with
  | nil => simpa using h2
  | term a rest ts _ ih => exact DerivesSeq.term a _ _ ih
  | nonterm r rest ts1 ts2 hr h1 _ _ ih2 =>
    rw [List.append_assoc]; exact DerivesSeq.nonterm r _ ts1 _ hr h1 ih2

theorem take_succ_of_getElem? {α} (l : List α) (d : Nat) (x : α) (h : l[d]? = some x) :
    l.take (d+1) = l.take d ++ [x] := by
  rw [List.take_add_one, h]; rfl

theorem Chart.rule_mem {G : Grammar} {L : Lattice} {start i it} (h : Chart G L start i it) :
    it.rule ∈ G.rules := by
  induction h with
  | init r hr _ => exact hr
  | predict i r d k r' _ _ hr' _ => exact hr'
  | scan i j r d k a _ _ _ ih => exact ih
  | ignore i j r d k a _ _ _ ih => exact ih
  | complete i j r' r d k _ _ _ _ ih2 => exact ih2
  | carry i j r k _ _ _ _ ih => exact ih

/-- Soundness of every chart item. -/
theorem Chart.sound {G : Grammar} {L : Lattice} {start i it} (h : Chart G L start i it) :
    ∃ ts, Path L it.origin i ts ∧ DerivesSeq G (it.rule.rhs.take it.dot) ts := by
  induction h with
  | init r _ _ => exact ⟨[], Path.nil 0, by simpa using DerivesSeq.nil⟩
  | predict i r d k r' _ _ _ _ => exact ⟨[], Path.nil i, by simpa using DerivesSeq.nil⟩
  | scan i j r d k a _ hd he ih =>
    obtain ⟨ts, hp, hder⟩ := ih
    refine ⟨ts ++ [a], hp.append (Path.edge i j j a [] he (Path.nil j)), ?_⟩
    simp only at hder ⊢
    rw [take_succ_of_getElem? _ _ _ hd]
    exact hder.append (DerivesSeq.term a [] [] DerivesSeq.nil)
  | ignore i j r d k a _ hd hi ih =>
    obtain ⟨ts, hp, hder⟩ := ih
    refine ⟨ts, ?_, hder⟩
    have := hp.append (Path.ign i j j [] hi (Path.nil j))
    simpa using this
  | complete i j r' r d k hc1 _ hd ih1 ih2 =>
    have hmem : r' ∈ G.rules := hc1.rule_mem
    obtain ⟨ts1, hp1, hder1⟩ := ih1
    obtain ⟨ts2, hp2, hder2⟩ := ih2
    refine ⟨ts2 ++ ts1, hp2.append hp1, ?_⟩
    simp only at hder1 hder2 ⊢
    rw [take_succ_of_getElem? _ _ _ hd]
    refine hder2.append ?_
    have : DerivesSeq G [Sym.nt r'.lhs] (ts1 ++ []) :=
      DerivesSeq.nonterm r' [] ts1 [] hmem (by simpa using hder1) DerivesSeq.nil
    simpa using this
  | carry i j r k _ _ _ hi ih =>
    obtain ⟨ts, hp, hder⟩ := ih
    refine ⟨ts, ?_, hder⟩
    have := hp.append (Path.ign i j j [] hi (Path.nil j))
    simpa using this


/-- advancing over a whole derived suffix: the completeness engine -/
theorem Chart.advance {G : Grammar} {L : Lattice} {start : Nat} :
    ∀ {β : List Sym} {ts : List Nat}, DerivesSeq G β ts →
    ∀ {i j r d k}, Chart G L start i ⟨r, d, k⟩ → r.rhs.drop d = β ++ r.rhs.drop (d + β.length) →
      Steps L i j ts → Chart G L start j ⟨r, d + β.length, k⟩ := by
  intro β ts h
  induction h with
  | nil =>
    intro i j r d k hc _ hs
    cases hs; simpa using hc
  | term a rest ts _ ih =>
    intro i j r d k hc hdrop hs
    cases hs with
    | cons _ i' m _ _ _ hi he hs' =>
      have hd : r.rhs[d]? = some (Sym.t a) := by
        have := congrArg List.head? hdrop
        simpa [List.head?_drop] using this
      -- walk the ignore run
      have hc' : Chart G L start i' ⟨r, d, k⟩ := by
        clear he hs' ih
        induction hi with
        | refl => exact hc
        | step x y z hxy _ ih' => exact ih' (Chart.ignore x y r d k a hc hd hxy)
      have hc'' := Chart.scan i' m r d k a hc' hd he
      have := ih (i := m) (j := j) (r := r) (d := d+1) (k := k) hc'' (by
        have h2 : r.rhs.drop (d+1) = (r.rhs.drop d).tail := by simp [List.tail_drop]
        rw [h2, hdrop]; simp [Nat.add_assoc, Nat.add_comm 1]) hs'
      simpa [Nat.add_assoc, Nat.add_comm 1] using this
  | nonterm r' rest ts1 ts2 hr' _ _ ih1 ih2 =>
    intro i j r d k hc hdrop hs
    obtain ⟨m, hs1, hs2⟩ := Steps.split hs
    have hd : r.rhs[d]? = some (Sym.nt r'.lhs) := by
      have := congrArg List.head? hdrop
      simpa [List.head?_drop] using this
    have hp := Chart.predict i r d k r' hc hd hr'
    have hfull := ih1 (i := i) (j := m) (r := r') (d := 0) (k := i) hp (by simp) hs1
    have hcomp := Chart.complete m i r' r d k (by simpa using hfull) hc hd
    have := ih2 (i := m) (j := j) (r := r) (d := d+1) (k := k) hcomp (by
        have h2 : r.rhs.drop (d+1) = (r.rhs.drop d).tail := by simp [List.tail_drop]
        rw [h2, hdrop]; simp [Nat.add_assoc, Nat.add_comm 1]) hs2
    simpa [Nat.add_assoc, Nat.add_comm 1] using this


/-- C08 (Earley clause): while the consumed lattice prefix can still be extended to a sentence, the chart
    column it ends in is not empty — so the parser raises only at the first position after which no sentence
    is possible. -/
theorem Chart.viable {G : Grammar} {L : Lattice} {start : Nat} :
    ∀ {β : List Sym} {u : List Nat}, DerivesSeq G β u →
    ∀ {i j r d k} (γ : List Sym) (u1 u2 : List Nat), Chart G L start i ⟨r, d, k⟩ →
      r.rhs.drop d = β ++ γ → u = u1 ++ u2 → Steps L i j u1 → ∃ it, Chart G L start j it := by
  intro β u h
  induction h with
  | nil =>
    intro i j r d k γ u1 u2 hc _ hu hs
    have : u1 = [] := by cases u1 <;> simp_all
    subst this
    cases hs
    exact ⟨_, hc⟩
  | term a rest ts _ ih =>
    intro i j r d k γ u1 u2 hc hdrop hu hs
    cases u1 with
    | nil => cases hs; exact ⟨_, hc⟩
    | cons x u1' =>
      simp only [List.cons_append, List.cons.injEq] at hu
      obtain ⟨rfl, hu'⟩ := hu
      cases hs with
      | cons _ i' m _ _ _ hi he hs' =>
        have hd : r.rhs[d]? = some (Sym.t a) := by
          have := congrArg List.head? hdrop
          simpa [List.head?_drop] using this
        have hc' : Chart G L start i' ⟨r, d, k⟩ := by
          clear he hs' ih
          induction hi with
          | refl => exact hc
          | step x y z hxy _ ih' => exact ih' (Chart.ignore x y r d k a hc hd hxy)
        have hc'' := Chart.scan i' m r d k a hc' hd he
        exact ih γ u1' u2 hc'' (by
          have h2 : r.rhs.drop (d+1) = (r.rhs.drop d).tail := by simp [List.tail_drop]
          rw [h2, hdrop]; rfl) hu' hs'
  | nonterm r' rest ts1 ts2 hr' hd1 _ ih1 ih2 =>
    intro i j r d k γ u1 u2 hc hdrop hu hs
    have hd : r.rhs[d]? = some (Sym.nt r'.lhs) := by
      have := congrArg List.head? hdrop
      simpa [List.head?_drop] using this
    have hp := Chart.predict i r d k r' hc hd hr'
    rcases List.append_eq_append_iff.mp hu with ⟨w, h1, h2⟩ | ⟨w, h1, h2⟩
    · -- the prefix ends after the yield of `r'`:  u1 = ts1 ++ w
      subst h1
      obtain ⟨m, hs1, hs2⟩ := Steps.split hs
      have hfull := Chart.advance hd1 hp (by simp) hs1
      have hcomp := Chart.complete m i r' r d k (by simpa using hfull) hc hd
      exact ih2 γ w u2 hcomp (by
        have h3 : r.rhs.drop (d+1) = (r.rhs.drop d).tail := by simp [List.tail_drop]
        rw [h3, hdrop]; rfl) h2 hs2
    · -- the prefix ends inside the yield of `r'`:  ts1 = u1 ++ w
      exact ih1 [] u1 w hp (by simp) h1 hs

end EarleyProto
