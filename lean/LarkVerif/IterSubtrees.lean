/-! C16: `Tree.iter_subtrees` (lark/tree.py:137) — the walk `Transformer_InPlace.transform` and `Visitor.visit` are driven by.
    The code runs a queue over the tree (each node's `Tree` children are appended in reverse), records the nodes in visit order and returns that order
    *reversed*.  On a proper tree (no node object occurs twice, so the identity de-duplication never fires) `iter_subtrees_children_first` proves what
    `inplace_eq_recursive` assumes: every node is yielded after all of its children — hence after its whole subtree — and every subtree is yielded.
    Nodes carry a unique id (`Tree` objects are compared by identity in the code). -/
namespace IterProto

inductive T where
  | node (id : Nat) (kids : List T)

def T.kids : T → List T
  | .node _ ks => ks

mutual
  def T.size : T → Nat
    | .node _ ks => 1 + sizes ks
  def sizes : List T → Nat
    | [] => 0
    | t :: ts => t.size + sizes ts
end

theorem sizes_append (a b : List T) : sizes (a ++ b) = sizes a + sizes b := by
  induction a with
  | nil => simp [sizes]
  | cons t ts ih => simp [sizes, ih, Nat.add_assoc]

theorem sizes_reverse (a : List T) : sizes a.reverse = sizes a := by
  induction a with
  | nil => rfl
  | cons t ts ih => simp [sizes, sizes_append, ih, Nat.add_comm]

/-- the queue loop: `for subtree in queue: …; queue += reversed(children)` — the visit order -/
def bfs : Nat → List T → List T
  | 0, _ => []
  | _, [] => []
  | f+1, t :: q => t :: bfs f (q ++ t.kids.reverse)

/-- `iter_subtrees`: the visit order, reversed -/
def iterSubtrees (t : T) : List T := (bfs t.size [t]).reverse

/-- everything in the queue gets visited (with enough fuel) -/
theorem mem_bfs : ∀ (f : Nat) (q : List T), sizes q ≤ f → ∀ c ∈ q, c ∈ bfs f q := by
  intro f
  induction f with
  | zero =>
    intro q hq c hc
    cases q with
    | nil => cases hc
    | cons t q' =>
      cases t with
      | node i ks => simp [sizes, T.size] at hq
  | succ f ih =>
    intro q hq c hc
    cases q with
    | nil => cases hc
    | cons t q' =>
      simp only [bfs]
      rcases List.mem_cons.mp hc with rfl | hc'
      · exact List.mem_cons_self ..
      · refine List.mem_cons_of_mem _ (ih _ ?_ c (List.mem_append_left _ hc'))
        cases t with
        | node i ks =>
          simp only [sizes, T.size, T.kids, sizes_append, sizes_reverse] at hq ⊢
          omega

/-- in the visit order, the children of every occurrence of a node come later -/
theorem bfs_children_after : ∀ (f : Nat) (q : List T), sizes q ≤ f →
    ∀ l1 x l2, bfs f q = l1 ++ x :: l2 → ∀ c ∈ x.kids, c ∈ l2 := by
  intro f
  induction f with
  | zero =>
    intro q _ l1 x l2 h
    simp [bfs] at h
  | succ f ih =>
    intro q hq l1 x l2 h c hc
    cases q with
    | nil => simp [bfs] at h
    | cons t q' =>
      simp only [bfs] at h
      have hfuel : sizes (q' ++ t.kids.reverse) ≤ f := by
        cases t with
        | node i ks =>
          simp only [sizes, T.size, T.kids, sizes_append, sizes_reverse] at hq ⊢
          omega
      cases l1 with
      | nil =>
        simp only [List.nil_append, List.cons.injEq] at h
        obtain ⟨rfl, rfl⟩ := h
        exact mem_bfs f _ hfuel c (List.mem_append_right _ (List.mem_reverse.mpr hc))
      | cons y l1' =>
        simp only [List.cons_append, List.cons.injEq] at h
        exact ih _ hfuel l1' x l2 h.2 c hc

/-- subtrees of a tree (the tree itself and, transitively, the children) -/
inductive Sub (t : T) : T → Prop
  | self : Sub t t
  | kid (x c : T) : Sub t x → c ∈ x.kids → Sub t c

/-- **`iter_subtrees` yields children first**: at every occurrence of a node in the yielded order, all its children have been yielded before. -/
theorem iter_subtrees_children_first (t : T) (l1 : List T) (x : T) (l2 : List T) (h : iterSubtrees t = l1 ++ x :: l2) :
    ∀ c ∈ x.kids, c ∈ l1 := by
  intro c hc
  have hrev : bfs t.size [t] = l2.reverse ++ x :: l1.reverse := by
    have := congrArg List.reverse h
    simpa [iterSubtrees] using this
  have := bfs_children_after t.size [t] (by simp [sizes]) _ x _ hrev c hc
  exact List.mem_reverse.mp this

/-- … and it yields every subtree. -/
theorem iter_subtrees_complete (t : T) : ∀ x, Sub t x → x ∈ iterSubtrees t := by
  intro x hx
  induction hx with
  | self => exact List.mem_reverse.mpr (mem_bfs t.size [t] (by simp [sizes]) t (List.mem_cons_self ..))
  | kid x c _ hc ih =>
    obtain ⟨l1, l2, hsplit⟩ := List.append_of_mem ih
    exact List.mem_append_left _ (iter_subtrees_children_first t l1 x l2 hsplit c hc) |> fun h => by rw [hsplit]; exact h

-- non-vacuity: a(b(d), c): the queue visits a, c, b, d; `iter_subtrees` yields d, b, c, a
example : (iterSubtrees (.node 0 [.node 1 [.node 3 []], .node 2 []])).map (fun | .node i _ => i) = [3, 1, 2, 0] := by decide

end IterProto
