namespace LCProto

abbrev NL : Char := '\n'

/-- number of newlines (`str.count`) -/
def countNL (s : List Char) : Nat := s.count NL

/-- offset just after the last newline, 0 if none (`str.rindex('\n') + 1` when there is one) -/
def lastNLEnd : List Char → Nat
  | [] => 0
  | c :: cs => if NL ∈ cs then 1 + lastNLEnd cs else if c = NL then 1 else 0

structure LineCounter where
  charPos : Nat
  line : Nat
  column : Nat
  lineStartPos : Nat
deriving Repr, DecidableEq

def LineCounter.init : LineCounter := ⟨0, 1, 1, 0⟩

/-- lark/lexer.py:319 LineCounter.feed -/
def LineCounter.feed (lc : LineCounter) (tok : List Char) (testNewline : Bool) : LineCounter :=
  let lc1 :=
    if testNewline then
      let n := countNL tok
      if n ≠ 0 then { lc with line := lc.line + n, lineStartPos := lc.charPos + lastNLEnd tok } else lc
    else lc
  let cp := lc1.charPos + tok.length
  { lc1 with charPos := cp, column := cp - lc1.lineStartPos + 1 }

/-- the specification: 1-based line and column of offset `p` in `text` -/
structure Exact (text : List Char) (lc : LineCounter) : Prop where
  inb : lc.charPos ≤ text.length
  line : lc.line = 1 + countNL (text.take lc.charPos)
  start : lc.lineStartPos = lastNLEnd (text.take lc.charPos)
  col : lc.column = lc.charPos - lc.lineStartPos + 1

theorem lastNLEnd_of_not_mem : ∀ s : List Char, NL ∉ s → lastNLEnd s = 0 := by
  intro s
  induction s with
  | nil => intro _; rfl
  | cons c cs ih =>
    intro h
    simp only [List.mem_cons, not_or] at h
    simp [lastNLEnd, h.2, Ne.symm h.1]

theorem lastNLEnd_append (a b : List Char) :
    lastNLEnd (a ++ b) = if NL ∈ b then a.length + lastNLEnd b else lastNLEnd a := by
  induction a with
  | nil =>
    by_cases h : NL ∈ b
    · simp [h]
    · simp [h, lastNLEnd_of_not_mem b h, lastNLEnd]
  | cons c a ih =>
    by_cases h : NL ∈ b
    · simp only [h, if_true] at ih ⊢
      simp only [List.cons_append, lastNLEnd, List.mem_append, h, or_true, if_true, ih, List.length_cons]
      omega
    · simp only [h, if_false] at ih ⊢
      simp only [List.cons_append, lastNLEnd, List.mem_append, h, or_false, ih]

theorem countNL_eq_zero_iff (s : List Char) : countNL s = 0 ↔ NL ∉ s := by
  simp [countNL, List.count_eq_zero]

/-- `feed` is exact whenever the newline test is on, or the token has no newline. -/
theorem feed_exact (pre tok post : List Char) (lc : LineCounter) (test : Bool)
    (hpos : lc.charPos = pre.length) (h : Exact (pre ++ tok ++ post) lc)
    (hflag : test = true ∨ NL ∉ tok) :
    Exact (pre ++ tok ++ post) (lc.feed tok test) ∧ (lc.feed tok test).charPos = pre.length + tok.length := by
  have htake : (pre ++ tok ++ post).take pre.length = pre := by
    rw [List.append_assoc, List.take_left' rfl]
  have htake2 : (pre ++ tok ++ post).take (pre.length + tok.length) = pre ++ tok := by
    rw [List.take_left' (by simp)]
  have hline := h.line
  have hstart := h.start
  rw [hpos, htake] at hline hstart
  have hcp : (lc.feed tok test).charPos = pre.length + tok.length := by
    unfold LineCounter.feed; simp only; split <;> (try split) <;> simp [hpos]
  refine ⟨⟨?_, ?_, ?_, ?_⟩, hcp⟩
  · rw [hcp]; simp
  · rw [hcp, htake2]
    unfold LineCounter.feed
    simp only [countNL, List.count_append] at hline ⊢
    by_cases hnl : NL ∈ tok
    · have ht : test = true := by rcases hflag with h | h; exact h; exact absurd hnl h
      have hc : List.count NL tok ≠ 0 := by simpa [List.count_eq_zero] using hnl
      simp [ht, hc, hline]; omega
    · have hc : List.count NL tok = 0 := by simpa [List.count_eq_zero] using hnl
      cases test <;> simp [countNL, hc, hline]
  · rw [hcp, htake2, lastNLEnd_append]
    unfold LineCounter.feed
    by_cases hnl : NL ∈ tok
    · have ht : test = true := by rcases hflag with h | h; exact h; exact absurd hnl h
      have hc : countNL tok ≠ 0 := by simpa [countNL_eq_zero_iff] using hnl
      simp [ht, hc, hnl, hpos]
    · have hc : countNL tok = 0 := by simpa [countNL_eq_zero_iff] using hnl
      cases test <;> simp [hc, hnl, hstart]
  · unfold LineCounter.feed; simp only

/-- the flag matters: with the test off, a token containing a newline breaks exactness (F1's mechanism) -/
example : ¬ Exact ['b', '\n', 'b'] ((LineCounter.init.feed ['b'] false).feed ['\n'] false) := by
  intro h; have := h.line; simp [LineCounter.feed, LineCounter.init, countNL] at this; exact absurd this (by decide)


/-- lark/lexer.py:333 `advance_to`: count the newlines of `text[char_pos:pos]`.
    (`text.rindex(nl, a, b) + 1 = a + lastNLEnd text[a:b]` is the meaning of the builtin.) -/
def LineCounter.advanceTo (lc : LineCounter) (text : List Char) (pos : Nat) : LineCounter :=
  lc.feed ((text.drop lc.charPos).take (pos - lc.charPos)) true

/-- lark/lexer.py:298 `from_text_slice` without a snapshot -/
def LineCounter.fromStart (text : List Char) (start : Nat) : LineCounter :=
  LineCounter.init.advanceTo text start

theorem init_exact (text : List Char) : Exact text LineCounter.init :=
  ⟨by simp [LineCounter.init], by simp [LineCounter.init, countNL], by simp [LineCounter.init, lastNLEnd], rfl⟩

theorem advanceTo_exact (text : List Char) (lc : LineCounter) (pos : Nat) (h : Exact text lc)
    (h1 : lc.charPos ≤ pos) (h2 : pos ≤ text.length) :
    Exact text (lc.advanceTo text pos) ∧ (lc.advanceTo text pos).charPos = pos := by
  have hsplit : text = text.take lc.charPos ++ (text.drop lc.charPos).take (pos - lc.charPos) ++ text.drop pos := by
    have e1 : (text.drop lc.charPos).take (pos - lc.charPos) ++ text.drop pos = text.drop lc.charPos := by
      have : text.drop pos = (text.drop lc.charPos).drop (pos - lc.charPos) := by
        rw [List.drop_drop]; congr 1; omega
      rw [this, List.take_append_drop]
    rw [List.append_assoc, e1, List.take_append_drop]
  have hlen : (text.take lc.charPos).length = lc.charPos := by simp; omega
  have hlen2 : ((text.drop lc.charPos).take (pos - lc.charPos)).length = pos - lc.charPos := by simp; omega
  have := feed_exact (text.take lc.charPos) ((text.drop lc.charPos).take (pos - lc.charPos)) (text.drop pos) lc true
    hlen.symm (by rw [← hsplit]; exact h) (Or.inl rfl)
  rw [← hsplit] at this
  refine ⟨this.1, ?_⟩
  unfold LineCounter.advanceTo
  rw [this.2, hlen, hlen2]; omega

/-- C15 / C14: a lexer started on a window `[start, …)` of `text` begins with the coordinates of the full text,
    and by `feed_exact` keeps them for every token it emits -/
theorem fromStart_exact (text : List Char) (start : Nat) (h : start ≤ text.length) :
    Exact text (LineCounter.fromStart text start) ∧ (LineCounter.fromStart text start).charPos = start :=
  advanceTo_exact text LineCounter.init start (init_exact text) (by simp [LineCounter.init]) h

/-- `_TextSlice_WithLineCount` (lexer.py:304-308): resuming from a snapshot `(line, line_start_pos)` taken by an
    exact counter at `start` is exact -/
theorem resume_exact (text : List Char) (lc : LineCounter) (h : Exact text lc) :
    Exact text ⟨lc.charPos, lc.line, lc.charPos - lc.lineStartPos + 1, lc.lineStartPos⟩ :=
  ⟨h.inb, h.line, h.start, rfl⟩

end LCProto
