namespace LCProto

abbrev NL : Char := '\n'

/-- number of newlines (`str.count`) -/
def countNL (s : List Char) : Nat := s.count NL

/-- offset just after the last newline, 0 if none (`str.rindex('\n') + 1` when there is one) -/
def lastNLEnd : List Char → Nat
  | [] => 0
  | c :: cs => if NL ∈ cs then 1 + lastNLEnd cs else if c = NL then 1 else 0

structure LineCounter where
  charPos : Nat
  line : Nat
  column : Nat
  lineStartPos : Nat
deriving Repr, DecidableEq

def LineCounter.init : LineCounter := ⟨0, 1, 1, 0⟩

/-- lark/lexer.py:319 LineCounter.feed -/
def LineCounter.feed (lc : LineCounter) (tok : List Char) (testNewline : Bool) : LineCounter :=
  let lc1 :=
    if testNewline then
      let n := countNL tok
      if n ≠ 0 then { lc with line := lc.line + n, lineStartPos := lc.charPos + lastNLEnd tok } else lc
    else lc
  let cp := lc1.charPos + tok.length
  { lc1 with charPos := cp, column := cp - lc1.lineStartPos + 1 }

/-- the specification: 1-based line and column of offset `p` in `text` -/
structure Exact (text : List Char) (lc : LineCounter) : Prop where
  inb : lc.charPos ≤ text.length
  line : lc.line = 1 + countNL (text.take lc.charPos)
  start : lc.lineStartPos = lastNLEnd (text.take lc.charPos)
  col : lc.column = lc.charPos - lc.lineStartPos + 1

theorem lastNLEnd_of_not_mem : ∀ s : List Char, NL ∉ s → lastNLEnd s = 0 := by
  intro s
  induction s with
  | nil => intro _; rfl
  | cons c cs ih =>
    intro h
    simp only [List.mem_cons, not_or] at h
    simp [lastNLEnd, h.2, Ne.symm h.1]

theorem lastNLEnd_append (a b : List Char) :
    lastNLEnd (a ++ b) = if NL ∈ b then a.length + lastNLEnd b else lastNLEnd a := by
  induction a with
  | nil =>
    by_cases h : NL ∈ b
    · simp [h]
    · simp [h, lastNLEnd_of_not_mem b h, lastNLEnd]
  | cons c a ih =>
    by_cases h : NL ∈ b
    · simp only [h, if_true] at ih ⊢
      simp only [List.cons_append, lastNLEnd, List.mem_append, h, or_true, if_true, ih, List.length_cons]
      omega
    · simp only [h, if_false] at ih ⊢
      simp only [List.cons_append, lastNLEnd, List.mem_append, h, or_false, ih]

theorem countNL_eq_zero_iff (s : List Char) : countNL s = 0 ↔ NL ∉ s := by
  simp [countNL, List.count_eq_zero]

/-- `feed` is exact whenever the newline test is on, or the token has no newline. -/
theorem feed_exact (pre tok post : List Char) (lc : LineCounter) (test : Bool)
    (hpos : lc.charPos = pre.length) (h : Exact (pre ++ tok ++ post) lc)
    (hflag : test = true ∨ NL ∉ tok) :
    Exact (pre ++ tok ++ post) (lc.feed tok test) ∧ (lc.feed tok test).charPos = pre.length + tok.length := by
  have htake : (pre ++ tok ++ post).take pre.length = pre := by
    rw [List.append_assoc, List.take_left' rfl]
  have htake2 : (pre ++ tok ++ post).take (pre.length + tok.length) = pre ++ tok := by
    rw [List.take_left' (by simp)]
  have hline := h.line
  have hstart := h.start
  rw [hpos, htake] at hline hstart
  have hcp : (lc.feed tok test).charPos = pre.length + tok.length := by
    unfold LineCounter.feed; simp only; split <;> (try split) <;> simp [hpos]
  refine ⟨⟨?_, ?_, ?_, ?_⟩, hcp⟩
  · rw [hcp]; simp
  · rw [hcp, htake2]
    unfold LineCounter.feed
    simp only [countNL, List.count_append] at hline ⊢
    by_cases hnl : NL ∈ tok
    · have ht : test = true := by rcases hflag with h | h; exact h; exact absurd hnl h
      have hc : List.count NL tok ≠ 0 := by simpa [List.count_eq_zero] using hnl
      simp [ht, hc, hline]; omega
    · have hc : List.count NL tok = 0 := by simpa [List.count_eq_zero] using hnl
      cases test <;> simp [countNL, hc, hline]
  · rw [hcp, htake2, lastNLEnd_append]
    unfold LineCounter.feed
    by_cases hnl : NL ∈ tok
    · have ht : test = true := by rcases hflag with h | h; exact h; exact absurd hnl h
      have hc : countNL tok ≠ 0 := by simpa [countNL_eq_zero_iff] using hnl
      simp [ht, hc, hnl, hpos]
    · have hc : countNL tok = 0 := by simpa [countNL_eq_zero_iff] using hnl
      cases test <;> simp [hc, hnl, hstart]
  · unfold LineCounter.feed; simp only

/-- the flag matters: with the test off, a token containing a newline breaks exactness (F1's mechanism) -/
example : ¬ Exact ['b', '\n', 'b'] ((LineCounter.init.feed ['b'] false).feed ['\n'] false) := by
  intro h; have := h.line; simp [LineCounter.feed, LineCounter.init, countNL] at this; exact absurd this (by decide)


/-- lark/lexer.py:333 `advance_to`: count the newlines of `text[char_pos:pos]`.
    (`text.rindex(nl, a, b) + 1 = a + lastNLEnd text[a:b]` is the meaning of the builtin.) -/
def LineCounter.advanceTo (lc : LineCounter) (text : List Char) (pos : Nat) : LineCounter :=
  lc.feed ((text.drop lc.charPos).take (pos - lc.charPos)) true

/-- lark/lexer.py:298 `from_text_slice` without a snapshot -/
def LineCounter.fromStart (text : List Char) (start : Nat) : LineCounter :=
  LineCounter.init.advanceTo text start

theorem init_exact (text : List Char) : Exact text LineCounter.init :=
  ⟨by simp [LineCounter.init], by simp [LineCounter.init, countNL], by simp [LineCounter.init, lastNLEnd], rfl⟩

theorem advanceTo_exact (text : List Char) (lc : LineCounter) (pos : Nat) (h : Exact text lc)
    (h1 : lc.charPos ≤ pos) (h2 : pos ≤ text.length) :
    Exact text (lc.advanceTo text pos) ∧ (lc.advanceTo text pos).charPos = pos := by
  have hsplit : text = text.take lc.charPos ++ (text.drop lc.charPos).take (pos - lc.charPos) ++ text.drop pos := by
    have e1 : (text.drop lc.charPos).take (pos - lc.charPos) ++ text.drop pos = text.drop lc.charPos := by
      have : text.drop pos = (text.drop lc.charPos).drop (pos - lc.charPos) := by
        rw [List.drop_drop]; congr 1; omega
      rw [this, List.take_append_drop]
    rw [List.append_assoc, e1, List.take_append_drop]
  have hlen : (text.take lc.charPos).length = lc.charPos := by simp; omega
  have hlen2 : ((text.drop lc.charPos).take (pos - lc.charPos)).length = pos - lc.charPos := by simp; omega
  have := feed_exact (text.take lc.charPos) ((text.drop lc.charPos).take (pos - lc.charPos)) (text.drop pos) lc true
    hlen.symm (by rw [← hsplit]; exact h) (Or.inl rfl)
  rw [← hsplit] at this
  refine ⟨this.1, ?_⟩
  unfold LineCounter.advanceTo
  rw [this.2, hlen, hlen2]; omega

/-- C15 / C14: a lexer started on a window `[start, …)` of `text` begins with the coordinates of the full text,
    and by `feed_exact` keeps them for every token it emits -/
theorem fromStart_exact (text : List Char) (start : Nat) (h : start ≤ text.length) :
    Exact text (LineCounter.fromStart text start) ∧ (LineCounter.fromStart text start).charPos = start :=
  advanceTo_exact text LineCounter.init start (init_exact text) (by simp [LineCounter.init]) h

/-- `_TextSlice_WithLineCount` (lexer.py:304-308): resuming from a snapshot `(line, line_start_pos)` taken by an
    exact counter at `start` is exact -/
theorem resume_exact (text : List Char) (lc : LineCounter) (h : Exact text lc) :
    Exact text ⟨lc.charPos, lc.line, lc.charPos - lc.lineStartPos + 1, lc.lineStartPos⟩ :=
  ⟨h.inb, h.line, h.start, rfl⟩


/-! ### Token stamps: what `BasicLexer.next_token` writes into each token (lexer.py:694-702) -/

/-- SPEC: 1-based (line, column) of offset `p` -/
def coord (text : List Char) (p : Nat) : Nat × Nat :=
  (1 + countNL (text.take p), p - lastNLEnd (text.take p) + 1)

theorem Exact.coord_eq {text : List Char} {lc : LineCounter} (h : Exact text lc) :
    (lc.line, lc.column) = coord text lc.charPos := by
  simp [coord, h.line, h.col, h.start]

structure Stamp where
  startPos : Nat
  line : Nat
  column : Nat
  endPos : Nat
  endLine : Nat
  endColumn : Nat
deriving Repr, DecidableEq

def Stamp.spec (text : List Char) (s e : Nat) : Stamp :=
  ⟨s, (coord text s).1, (coord text s).2, e, (coord text e).1, (coord text e).2⟩

/-- one iteration of `next_token`: stamp the start, `feed`, stamp the end -/
def stampFeed (lc : LineCounter) (tok : List Char) (flag : Bool) : Stamp × LineCounter :=
  let lc' := lc.feed tok flag
  (⟨lc.charPos, lc.line, lc.column, lc'.charPos, lc'.line, lc'.column⟩, lc')

/-- the lexer loop over a tiling: tokens `(value, type ∈ newline_types)` in order, counter threaded through -/
def stampAll (lc : LineCounter) : List (List Char × Bool) → List Stamp
  | [] => []
  | (tok, flag) :: rest => (stampFeed lc tok flag).1 :: stampAll (stampFeed lc tok flag).2 rest

/-- the offsets a tiling assigns, starting at `p` -/
def specAll (text : List Char) (p : Nat) : List (List Char × Bool) → List Stamp
  | [] => []
  | (tok, _) :: rest => Stamp.spec text p (p + tok.length) :: specAll text (p + tok.length) rest

def flatToks : List (List Char × Bool) → List Char
  | [] => []
  | (tok, _) :: rest => tok ++ flatToks rest

theorem stampFeed_exact (pre tok post : List Char) (lc : LineCounter) (flag : Bool)
    (hpos : lc.charPos = pre.length) (h : Exact (pre ++ tok ++ post) lc) (hflag : flag = true ∨ NL ∉ tok) :
    (stampFeed lc tok flag).1 = Stamp.spec (pre ++ tok ++ post) pre.length (pre.length + tok.length) ∧
    Exact (pre ++ tok ++ post) (stampFeed lc tok flag).2 ∧ (stampFeed lc tok flag).2.charPos = pre.length + tok.length := by
  obtain ⟨hE, hcp⟩ := feed_exact pre tok post lc flag hpos h hflag
  refine ⟨?_, hE, hcp⟩
  have c1 := h.coord_eq
  have c2 := hE.coord_eq
  rw [hpos] at c1
  rw [hcp] at c2
  simp only [stampFeed, Stamp.spec, hpos, hcp]
  rw [← c1, ← c2]

/-- C06, basic/contextual lexers: along any tiling whose newline flags are sound, every token carries
    exactly the source coordinates of its start and end. -/
theorem stampAll_exact : ∀ (toks : List (List Char × Bool)) (pre post : List Char) (lc : LineCounter),
    lc.charPos = pre.length → Exact (pre ++ flatToks toks ++ post) lc →
    (∀ tf ∈ toks, tf.2 = true ∨ NL ∉ tf.1) →
    stampAll lc toks = specAll (pre ++ flatToks toks ++ post) pre.length toks := by
  intro toks
  induction toks with
  | nil => intro _ _ _ _ _ _; rfl
  | cons tf rest ih =>
    intro pre post lc hpos hE hfl
    obtain ⟨tok, flag⟩ := tf
    have htext : pre ++ flatToks ((tok, flag) :: rest) ++ post = pre ++ tok ++ (flatToks rest ++ post) := by
      simp [flatToks, List.append_assoc]
    have htext2 : pre ++ flatToks ((tok, flag) :: rest) ++ post = (pre ++ tok) ++ flatToks rest ++ post := by
      simp [flatToks, List.append_assoc]
    have hf := hfl (tok, flag) (List.mem_cons_self ..)
    rw [htext] at hE
    obtain ⟨h1, h2, h3⟩ := stampFeed_exact pre tok (flatToks rest ++ post) lc flag hpos hE hf
    simp only [stampAll, specAll]
    rw [htext, h1]
    congr 1
    have := ih (pre ++ tok) post (stampFeed lc tok flag).2 (by rw [h3]; simp)
      (by rw [← htext2, htext]; exact h2) (fun tf h => hfl tf (List.mem_cons_of_mem _ h))
    rw [this]
    simp [List.append_assoc]

/-! ### Dynamic Earley lexer: per-character counter (xearley.py:151-167) -/

def dynStep (st : Nat × Nat) (c : Char) : Nat × Nat :=
  if c = NL then (st.1 + 1, 1) else (st.1, st.2 + 1)

/-- `(text_line, text_column)` when the main loop is at offset `i` -/
def dynAt (text : List Char) (i : Nat) : Nat × Nat := (text.take i).foldl dynStep (1, 1)

theorem lastNLEnd_le : ∀ s : List Char, lastNLEnd s ≤ s.length := by
  intro s
  induction s with
  | nil => simp [lastNLEnd]
  | cons c cs ih =>
    simp only [lastNLEnd, List.length_cons]
    split
    · omega
    · split <;> omega

theorem dynFold_gen : ∀ (l : List Char) (a b : Nat),
    l.foldl dynStep (a, b) = (a + countNL l, if NL ∈ l then l.length - lastNLEnd l + 1 else b + l.length) := by
  intro l
  induction l with
  | nil => intro a b; simp [countNL]
  | cons c cs ih =>
    intro a b
    simp only [List.foldl_cons, dynStep]
    by_cases hc : c = NL
    · subst hc
      simp only [if_true]
      rw [ih]
      have hle := lastNLEnd_le cs
      by_cases hm : NL ∈ cs
      · simp [countNL, lastNLEnd, hm]; omega
      · simp [countNL, lastNLEnd, hm]; omega
    · simp only [hc, if_false]
      rw [ih]
      have hle := lastNLEnd_le cs
      have hcnt : countNL (c :: cs) = countNL cs := by
        simp [countNL, List.count_cons, hc]
      rw [hcnt]
      by_cases hm : NL ∈ cs
      · simp [lastNLEnd, hm, Ne.symm hc]; omega
      · simp [lastNLEnd, hm, Ne.symm hc]; omega

theorem dynFold_eq (l : List Char) : l.foldl dynStep (1, 1) = (1 + countNL l, l.length - lastNLEnd l + 1) := by
  rw [dynFold_gen]
  by_cases hm : NL ∈ l
  · simp [hm]
  · simp [hm, lastNLEnd_of_not_mem l hm]; omega

/-- C06, dynamic lexers: the running per-character counter is the coordinate of the current offset. -/
theorem dynAt_eq_coord (text : List Char) (i : Nat) (h : i ≤ text.length) : dynAt text i = coord text i := by
  simp only [dynAt, coord, dynFold_eq]
  have : (text.take i).length = i := by simp; omega
  rw [this]

/-- the token stamp of the dynamic lexer: start = counter at `s`; end = one column past the last character,
    on that character's line (the documented convention of this lexer family) -/
def dynStamp (text : List Char) (s e : Nat) : Stamp :=
  ⟨s, (dynAt text s).1, (dynAt text s).2, e, (dynAt text (e - 1)).1, (dynAt text (e - 1)).2 + 1⟩

theorem dynStamp_exact (text : List Char) (s e : Nat) (h1 : s < e) (h2 : e ≤ text.length) :
    dynStamp text s e = ⟨s, (coord text s).1, (coord text s).2, e, (coord text (e - 1)).1, (coord text (e - 1)).2 + 1⟩ := by
  simp only [dynStamp]
  rw [dynAt_eq_coord text s (by omega), dynAt_eq_coord text (e - 1) (by omega)]

end LCProto
