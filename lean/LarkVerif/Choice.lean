/-! C05: the choice among the packed nodes (families) of one symbol node under `ambiguity='resolve'`:
    `SymbolNode.children` is `sorted(self._children, key=attrgetter('sort_key'))` and `ForestToParseTree` takes the first one, with
    `sort_key = (is_empty, -priority, rule.order)`.  Consequences proved here for every list of families: the built-in precedence
    (a directly empty alternative is chosen only when every family is empty) and the priority optimum among the non-empty ones. -/
namespace ChoiceProto

structure Fam where
  isEmpty : Bool
  prio : Int          -- the family's total priority as ForestSumVisitor computed it
  order : Nat         -- rule.order: position of the alternative in the grammar
deriving DecidableEq, Repr

/-- `a.sort_key <= b.sort_key` for the tuple `(is_empty, -priority, rule.order)` (False < True) -/
def keyLe (a b : Fam) : Bool :=
  if a.isEmpty != b.isEmpty then !a.isEmpty
  else if a.prio != b.prio then decide (b.prio < a.prio)
  else decide (a.order ≤ b.order)

/-- `sorted(children, key=sort_key)[0]`: a minimum of the key; among equal keys the earliest in iteration order (`sorted` is stable) -/
def choose : List Fam → Option Fam
  | [] => none
  | f :: l => match choose l with
    | none => some f
    | some c => if keyLe f c then some f else some c

/-- index of the chosen family (what the driver reports) -/
def chooseIdx (l : List Fam) : Option Nat := (choose l).bind fun c => l.findIdx? (· == c)

theorem keyLe_iff (a b : Fam) : keyLe a b = true ↔
    (a.isEmpty = false ∧ b.isEmpty = true) ∨ (a.isEmpty = b.isEmpty ∧ (b.prio < a.prio ∨ (a.prio = b.prio ∧ a.order ≤ b.order))) := by
  unfold keyLe
  cases ha : a.isEmpty <;> cases hb : b.isEmpty <;> simp <;>
    (by_cases hp : a.prio = b.prio
     · simp [hp]
     · simp [hp] <;> omega)

theorem keyLe_total (a b : Fam) : keyLe a b = true ∨ keyLe b a = true := by
  rw [keyLe_iff, keyLe_iff]
  cases ha : a.isEmpty <;> cases hb : b.isEmpty <;> simp <;> omega

theorem keyLe_refl (a : Fam) : keyLe a a = true := by
  rw [keyLe_iff]; right; exact ⟨rfl, Or.inr ⟨rfl, Nat.le_refl _⟩⟩

theorem keyLe_trans (a b c : Fam) (h1 : keyLe a b = true) (h2 : keyLe b c = true) : keyLe a c = true := by
  rw [keyLe_iff] at *
  rcases h1 with ⟨ha, hb⟩ | ⟨hab, h1⟩ <;> rcases h2 with ⟨hb', hc⟩ | ⟨hbc, h2⟩
  · rw [hb] at hb'; cases hb'
  · left; exact ⟨ha, by rw [← hbc]; exact hb⟩
  · left; exact ⟨by rw [hab]; exact hb', hc⟩
  · right; refine ⟨hab.trans hbc, ?_⟩; omega

theorem choose_mem : ∀ (l : List Fam) (c : Fam), choose l = some c → c ∈ l := by
  intro l
  induction l with
  | nil => intro c h; simp [choose] at h
  | cons f l ih =>
    intro c h
    simp only [choose] at h
    cases hl : choose l with
    | none => rw [hl] at h; simp at h; simp [h]
    | some c' =>
      rw [hl] at h
      simp only at h
      split at h
      · simp at h; simp [h]
      · simp at h; subst h; exact List.mem_cons_of_mem _ (ih c' hl)

/-- the chosen family has a minimal key -/
theorem choose_min : ∀ (l : List Fam) (c : Fam), choose l = some c → ∀ f ∈ l, keyLe c f = true := by
  intro l
  induction l with
  | nil => intro c h; simp [choose] at h
  | cons g l ih =>
    intro c h f hf
    simp only [choose] at h
    cases hl : choose l with
    | none =>
      rw [hl] at h
      have hcg : c = g := by simpa using h.symm
      have : l = [] := by
        cases l with
        | nil => rfl
        | cons x xs =>
          simp only [choose] at hl
          cases hx : choose xs <;> simp [hx] at hl
          split at hl <;> simp at hl
      subst this
      have hfg : f = g := by simpa using hf
      rw [hcg, hfg]; exact keyLe_refl g
    | some c' =>
      rw [hl] at h
      simp only at h
      have hmin := ih c' hl
      split at h
      · rename_i hle
        have hcg : c = g := by simpa using h.symm
        rw [hcg]
        rcases List.mem_cons.mp hf with hfg | hf
        · rw [hfg]; exact keyLe_refl g
        · exact keyLe_trans _ _ _ hle (hmin f hf)
      · rename_i hnle
        have hcc : c = c' := by simpa using h.symm
        rw [hcc]
        rcases List.mem_cons.mp hf with hfg | hf
        · rw [hfg]
          rcases keyLe_total c' g with h | h
          · exact h
          · exact absurd h hnle
        · exact hmin f hf

/-- **Built-in precedence.** A directly empty alternative is chosen only where every alternative of the node is empty. -/
theorem empty_chosen_only_if_all_empty (l : List Fam) (c : Fam) (h : choose l = some c) (hc : c.isEmpty = true) :
    ∀ f ∈ l, f.isEmpty = true := by
  intro f hf
  have := (keyLe_iff c f).mp (choose_min l c h f hf)
  rcases this with ⟨h1, _⟩ | ⟨h1, _⟩
  · rw [hc] at h1; cases h1
  · rw [← h1]; exact hc

/-- **Priority optimum.** Among the non-empty alternatives the chosen one has the highest priority. -/
theorem chosen_has_max_priority (l : List Fam) (c : Fam) (h : choose l = some c) :
    ∀ f ∈ l, f.isEmpty = false → f.prio ≤ c.prio := by
  intro f hf hfe
  have := (keyLe_iff c f).mp (choose_min l c h f hf)
  rcases this with ⟨_, h2⟩ | ⟨_, h2⟩
  · rw [hfe] at h2; cases h2
  · omega

/-- and, with equal emptiness and priority, the alternative written first -/
theorem chosen_is_first_written (l : List Fam) (c : Fam) (h : choose l = some c) :
    ∀ f ∈ l, f.isEmpty = c.isEmpty → f.prio = c.prio → c.order ≤ f.order := by
  intro f hf he hp
  have := (keyLe_iff c f).mp (choose_min l c h f hf)
  rcases this with ⟨h1, h2⟩ | ⟨_, h2⟩
  · rw [he, h1] at h2; cases h2
  · omega

example : choose [⟨true, 5, 0⟩, ⟨false, -3, 1⟩, ⟨false, 2, 2⟩] = some ⟨false, 2, 2⟩ := by decide

end ChoiceProto
