namespace LexProto

/-- the regex engine as a parameter: preferred match length of terminal `t` at `pos` (positive) -/
abbrev Matcher := Nat → Nat → Option Nat

/-- lark/lexer.py:422 Scanner.match over the sorted terminal list: the first terminal that matches wins,
    with its own preferred length (chunking of the alternation is irrelevant, see `firstMatch_append`) -/
def firstMatch (m : Matcher) (pos : Nat) : List Nat → Option (Nat × Nat)
  | [] => none
  | t :: ts => match m t pos with
    | some len => some (t, len)
    | none => firstMatch m pos ts

/-- trying chunk after chunk is the same as trying the whole list (lexer.py:404 `_build_mres`) -/
theorem firstMatch_append (m : Matcher) (pos : Nat) (a b : List Nat) :
    firstMatch m pos (a ++ b) = (firstMatch m pos a).or (firstMatch m pos b) := by
  induction a with
  | nil => simp [firstMatch]
  | cons t a ih =>
    simp only [List.cons_append, firstMatch]
    split <;> simp [ih]

theorem firstMatch_some {m : Matcher} {pos : Nat} {ts : List Nat} {t len : Nat}
    (h : firstMatch m pos ts = some (t, len)) : t ∈ ts ∧ m t pos = some len := by
  induction ts with
  | nil => simp [firstMatch] at h
  | cons x xs ih =>
    simp only [firstMatch] at h
    split at h
    · rename_i l hl
      simp at h; obtain ⟨rfl, rfl⟩ := h
      exact ⟨List.mem_cons_self .., hl⟩
    · have := ih h; exact ⟨List.mem_cons_of_mem _ this.1, this.2⟩

/-- Contextual refines basic (lexer.py:720): restricting the search to a sub-list of the sorted terminals
    (terminal names are unique, common.py:37) that still contains the winner does not change the winner. -/
theorem firstMatch_sublist {m : Matcher} {pos : Nat} {ts ts' : List Nat} (hsub : List.Sublist ts' ts)
    (hnd : ts.Nodup) {t len : Nat} (h : firstMatch m pos ts = some (t, len)) (hmem : t ∈ ts') :
    firstMatch m pos ts' = some (t, len) := by
  induction hsub with
  | slnil => cases hmem
  | cons x hs ih =>
    simp only [firstMatch] at h
    have hnd' := List.nodup_cons.mp hnd
    split at h
    · rename_i l hl
      simp at h; obtain ⟨rfl, rfl⟩ := h
      exact absurd (hs.subset hmem) hnd'.1
    · exact ih hnd'.2 h hmem
  | cons_cons x hs ih =>
    have hnd' := List.nodup_cons.mp hnd
    simp only [firstMatch] at h ⊢
    split at h
    · exact h
    · rename_i hn
      rcases List.mem_cons.mp hmem with rfl | hm
      · have := (firstMatch_some h).2; rw [hn] at this; cases this
      · exact ih hnd'.2 h hm

/-- one emitted or ignored token: (terminal, start, length) -/
abbrev Piece := Nat × Nat × Nat

/-- lark/lexer.py:676 next_token iterated to the end of the text, with fuel = remaining characters -/
def lexAll (m : Matcher) (ts : List Nat) (n : Nat) : Nat → Nat → List Piece × Option Nat
  | 0, pos => ([], if pos < n then some pos else none)
  | fuel+1, pos =>
    if pos < n then
      match firstMatch m pos ts with
      | none => ([], some pos)                       -- UnexpectedCharacters at `pos`
      | some (t, len) =>
        let (ps, e) := lexAll m ts n fuel (pos + max len 1)
        ((t, pos, len) :: ps, e)
    else ([], none)

/-- consecutive pieces starting at `pos` and ending at `stop` -/
inductive Tiles : Nat → List Piece → Nat → Prop
  | nil (p) : Tiles p [] p
  | cons (t p len ps q) : 0 < len → Tiles (p + len) ps q → Tiles p ((t, p, len) :: ps) q

/-- The lexer tiles the input: consecutive, non-empty pieces, each the first match in order at its start,
    covering the text up to its end or up to the reported error position. -/
theorem lexAll_tiles (m : Matcher) (ts : List Nat) (n : Nat) (hpos : ∀ t p len, m t p = some len → 0 < len ∧ p + len ≤ n) :
    ∀ fuel pos, pos ≤ n → n - pos ≤ fuel →
      ∃ stop, Tiles pos (lexAll m ts n fuel pos).1 stop ∧
        (∀ pc ∈ (lexAll m ts n fuel pos).1, firstMatch m pc.2.1 ts = some (pc.1, pc.2.2)) ∧
        ((lexAll m ts n fuel pos).2 = none → stop = n) ∧
        (∀ e, (lexAll m ts n fuel pos).2 = some e → stop = e ∧ e < n ∧ firstMatch m e ts = none) := by
  intro fuel
  induction fuel with
  | zero =>
    intro pos h1 h2
    have : pos = n := by omega
    subst this
    exact ⟨pos, by simp [lexAll]; exact Tiles.nil _, by simp [lexAll], by simp [lexAll], by simp [lexAll]⟩
  | succ f ih =>
    intro pos h1 h2
    unfold lexAll
    by_cases hlt : pos < n
    · simp only [hlt, if_true]
      cases hfm : firstMatch m pos ts with
      | none => exact ⟨pos, Tiles.nil _, by simp, by simp, by simp [hlt, hfm]⟩
      | some tl =>
        obtain ⟨t, len⟩ := tl
        have hm := (firstMatch_some hfm).2
        obtain ⟨hl0, hle⟩ := hpos t pos len hm
        have hmax : max len 1 = len := by omega
        simp only [hmax]
        obtain ⟨stop, htiles, hfirst, hnone, hsome⟩ := ih (pos + len) hle (by omega)
        refine ⟨stop, Tiles.cons t pos len _ stop hl0 htiles, ?_, hnone, hsome⟩
        intro pc hpc
        rcases List.mem_cons.mp hpc with rfl | hpc
        · exact hfm
        · exact hfirst pc hpc
    · have : pos = n := by omega
      subst this
      exact ⟨pos, by simp [hlt]; exact Tiles.nil _, by simp [hlt], by simp [hlt], by simp [hlt]⟩

end LexProto
