import LarkVerif.LexTiling
/-! Compiler-only speed-ups for the executable lexer model (`@[csimp]`: the compiler replaces the model functions by the hoisted versions below; each
    replacement is justified by a kernel-checked equation, the model functions and every theorem about them are untouched).
    The model recomputes the sorted scan list at every position; here it is computed once per run. -/
namespace LexModel
open LexProto

/-- membership test instead of rebuilding `unlessOf` for every pair -/
def Lexer.embeddedFast (L : Lexer) (sorted : List Nat) : List Nat :=
  sorted.filter fun s => sorted.any fun re =>
    (!(L.info re).isStr && ((L.info s).isStr && decide ((L.info s).prio = (L.info re).prio) && L.selfMatch.contains (re, s))) && L.flagSub.contains (s, re)

theorem contains_filter_of_mem {l : List Nat} {p : Nat → Bool} {s : Nat} (h : s ∈ l) : (l.filter p).contains s = p s := by
  cases hp : p s with
  | true => simp [List.contains_iff_mem, List.mem_filter, h, hp]
  | false =>
    apply Bool.eq_false_iff.mpr
    intro hc
    have := List.mem_filter.mp (List.contains_iff_mem.mp hc)
    rw [hp] at this; exact absurd this.2 (by simp)

theorem embedded_eq_fast (L : Lexer) (sorted : List Nat) : L.embedded sorted = L.embeddedFast sorted := by
  unfold Lexer.embedded Lexer.embeddedFast
  apply List.filter_congr
  intro s hs
  congr 1
  funext re
  congr 1
  unfold Lexer.unlessOf
  cases hre : (L.info re).isStr with
  | true => simp
  | false => simp only [Bool.false_eq_true, if_false, Bool.not_false, Bool.true_and]; exact contains_filter_of_mem hs

def Lexer.scanListFast (L : Lexer) (sorted : List Nat) : List Nat :=
  let e := L.embeddedFast sorted
  sorted.filter fun t => !e.contains t

@[csimp] theorem scanList_eq_fast : @Lexer.scanList = @Lexer.scanListFast := by
  funext L sorted
  simp only [Lexer.scanList, Lexer.scanListFast, embedded_eq_fast]

/-- `next_token` with the sorted list and the scan list passed in -/
def Lexer.nextTokenAux (L : Lexer) (F : Facts) (sorted scan : List Nat) (n : Nat) : Nat → Nat → Except LexErr (Option (Piece × Nat))
  | 0, _ => .ok none
  | fuel+1, pos =>
    if pos < n then
      match firstMatch F.mt pos scan with
      | none => .error (.chars pos (sorted.filter (fun t => !L.ignore.contains t)))
      | some (t, len) =>
        let ty := L.retype F sorted t pos len
        if L.ignore.contains ty then L.nextTokenAux F sorted scan n fuel (pos + max len 1)
        else .ok (some ((ty, pos, len), pos + max len 1))
    else .ok none

theorem nextToken_eq_aux (L : Lexer) (F : Facts) (subset : List Nat) (n : Nat) : ∀ fuel pos,
    L.nextToken F subset n fuel pos = L.nextTokenAux F (L.sorted subset) (L.scanList (L.sorted subset)) n fuel pos := by
  intro fuel
  induction fuel with
  | zero => intro pos; rfl
  | succ f ih =>
    intro pos
    simp only [Lexer.nextToken, Lexer.nextTokenAux]
    split
    · split <;> simp_all
    · rfl

def Lexer.nextTokenFast (L : Lexer) (F : Facts) (subset : List Nat) (n fuel pos : Nat) : Except LexErr (Option (Piece × Nat)) :=
  let sorted := L.sorted subset
  L.nextTokenAux F sorted (L.scanList sorted) n fuel pos

@[csimp] theorem nextToken_eq_fast : @Lexer.nextToken = @Lexer.nextTokenFast := by
  funext L F subset n fuel pos
  exact nextToken_eq_aux L F subset n fuel pos

/-- the basic loop with the lists passed in -/
def Lexer.lexBasicAux (L : Lexer) (F : Facts) (sorted scan : List Nat) (n : Nat) : Nat → Nat → List Piece × Option LexErr
  | 0, _ => ([], none)
  | fuel+1, pos =>
    match L.nextTokenAux F sorted scan n (n + 1) pos with
    | .error e => ([], some e)
    | .ok none => ([], none)
    | .ok (some (pc, pos')) =>
      let (ps, e) := L.lexBasicAux F sorted scan n fuel pos'
      (pc :: ps, e)

theorem lexBasic_eq_aux (L : Lexer) (F : Facts) (all : List Nat) (n : Nat) : ∀ fuel pos,
    L.lexBasic F all n fuel pos = L.lexBasicAux F (L.sorted all) (L.scanList (L.sorted all)) n fuel pos := by
  intro fuel
  induction fuel with
  | zero => intro pos; rfl
  | succ f ih =>
    intro pos
    simp only [Lexer.lexBasic, Lexer.lexBasicAux, nextToken_eq_aux, ih]
    repeat (first | rfl | split)

def Lexer.lexBasicFast (L : Lexer) (F : Facts) (all : List Nat) (n fuel pos : Nat) : List Piece × Option LexErr :=
  let sorted := L.sorted all
  L.lexBasicAux F sorted (L.scanList sorted) n fuel pos

@[csimp] theorem lexBasic_eq_fast : @Lexer.lexBasic = @Lexer.lexBasicFast := by
  funext L F all n fuel pos
  exact lexBasic_eq_aux L F all n fuel pos

def Lexer.lexAllPiecesAux (L : Lexer) (F : Facts) (sorted scan : List Nat) (n : Nat) : Nat → Nat → List Piece' × Nat × Bool
  | 0, pos => ([], pos, false)
  | fuel+1, pos =>
    if pos < n then
      match firstMatch F.mt pos scan with
      | none => ([], pos, true)
      | some (t, len) =>
        let ty := L.retype F sorted t pos len
        let (ps, stop, err) := L.lexAllPiecesAux F sorted scan n fuel (pos + max len 1)
        ((ty, pos, len, L.ignore.contains ty) :: ps, stop, err)
    else ([], pos, false)

theorem lexAllPieces_eq_aux (L : Lexer) (F : Facts) (subset : List Nat) (n : Nat) : ∀ fuel pos,
    L.lexAllPieces F subset n fuel pos = L.lexAllPiecesAux F (L.sorted subset) (L.scanList (L.sorted subset)) n fuel pos := by
  intro fuel
  induction fuel with
  | zero => intro pos; rfl
  | succ f ih =>
    intro pos
    simp only [Lexer.lexAllPieces, Lexer.lexAllPiecesAux, ih]
    repeat (first | rfl | split)

def Lexer.lexAllPiecesFast (L : Lexer) (F : Facts) (subset : List Nat) (n fuel pos : Nat) : List Piece' × Nat × Bool :=
  let sorted := L.sorted subset
  L.lexAllPiecesAux F sorted (L.scanList sorted) n fuel pos

@[csimp] theorem lexAllPieces_eq_fast : @Lexer.lexAllPieces = @Lexer.lexAllPiecesFast := by
  funext L F subset n fuel pos
  exact lexAllPieces_eq_aux L F subset n fuel pos

/-- `lexCtx` recompiled after the replacements above (its own code was compiled before them): same text, so the equation is by unfolding -/
def Lexer.lexCtxFast (L : Lexer) (F : Facts) (all : List Nat) (n : Nat) : List (List Nat) → Nat → List Piece × Option LexErr
  | [], _ => ([], none)
  | sub :: subs, pos =>
    match L.nextToken F sub n (n + 1) pos with
    | .ok none => ([], none)
    | .ok (some (pc, pos')) =>
      let (ps, e) := L.lexCtxFast F all n subs pos'
      (pc :: ps, e)
    | .error (.chars p allowed) =>
      match L.nextToken F all n (n + 1) p with
      | .ok (some ((ty, q, len), _)) => ([], some (.token ty q len allowed))
      | _ => ([], some (.chars p allowed))
    | .error e => ([], some e)

@[csimp] theorem lexCtx_eq_fast : @Lexer.lexCtx = @Lexer.lexCtxFast := by
  funext L F all n subs
  induction subs with
  | nil => funext pos; rfl
  | cons sub subs ih =>
    funext pos
    simp only [Lexer.lexCtx, Lexer.lexCtxFast, ih]
    repeat (first | rfl | split)

end LexModel
