import LarkVerif.Rename
/-! `_get_mangle` (lark/load_grammar.py:1037): how the names of an imported module's definitions are rewritten, and why that is a renaming
    under which the language is invariant (`Rename.lean`). Names are lists of characters. -/
namespace MangleProto

abbrev Name := List Char

def sep : Name := ['_', '_']

/-- the non-aliased branch: `'_%s__%s' % (prefix, s[1:])` if `s[0] == '_'` else `'%s__%s' % (prefix, s)` -/
def core (pre s : Name) : Name :=
  if s.head? = some '_' then '_' :: (pre ++ sep ++ s.tail) else pre ++ sep ++ s

/-- load_grammar.py:1038 `mangle` (without `base_mangle`) -/
def mangle (pre : Name) (aliases : List (Name × Name)) (s : Name) : Name :=
  match aliases.lookup s with
  | some a => a
  | none => core pre s

/-- the composition used for nested imports -/
def mangle2 (base : Name → Name) (pre : Name) (aliases : List (Name × Name)) (s : Name) : Name := base (mangle pre aliases s)

theorem head_tail {s : Name} (h : s.head? = some '_') : s = '_' :: s.tail := by
  cases s with
  | nil => simp at h
  | cons x xs => simp at h; simp [h]

theorem core_injective (pre : Name) (hpre : pre.head? ≠ some '_') (hne : pre ≠ []) (s t : Name) (h : core pre s = core pre t) : s = t := by
  obtain ⟨c, pr, rfl⟩ : ∃ c pr, pre = c :: pr := by
    cases pre with
    | nil => exact absurd rfl hne
    | cons c pr => exact ⟨c, pr, rfl⟩
  have hc : c ≠ '_' := by simpa using hpre
  unfold core at h
  by_cases h1 : s.head? = some '_' <;> by_cases h2 : t.head? = some '_'
  · rw [if_pos h1, if_pos h2] at h
    simp only [List.cons.injEq, true_and] at h
    have := List.append_cancel_left h
    rw [head_tail h1, head_tail h2, this]
  · rw [if_pos h1, if_neg h2] at h
    simp only [List.cons_append, List.cons.injEq] at h
    exact absurd h.1.symm hc
  · rw [if_neg h1, if_pos h2] at h
    simp only [List.cons_append, List.cons.injEq] at h
    exact absurd h.1 hc
  · rw [if_neg h1, if_neg h2] at h
    exact List.append_cancel_left h

/-- **Injectivity** on the names that are not explicitly aliased, for a module prefix that does not itself begin with an underscore. -/
theorem mangle_injective (pre : Name) (aliases : List (Name × Name)) (hpre : pre.head? ≠ some '_') (hne : pre ≠ [])
    (s t : Name) (hs : aliases.lookup s = none) (ht : aliases.lookup t = none)
    (h : mangle pre aliases s = mangle pre aliases t) : s = t := by
  simp only [mangle, hs, ht] at h
  exact core_injective pre hpre hne s t h

/-- an inlined (underscore) rule stays inlined and a visible rule stays visible: mangling preserves the leading-underscore status -/
theorem mangle_keeps_underscore (pre : Name) (aliases : List (Name × Name)) (hpre : pre.head? ≠ some '_') (hne : pre ≠ [])
    (s : Name) (hs : aliases.lookup s = none) :
    ((mangle pre aliases s).head? = some '_') ↔ (s.head? = some '_') := by
  simp only [mangle, hs, core]
  by_cases h1 : s.head? = some '_'
  · simp [h1]
  · rw [if_neg h1]
    cases pre with
    | nil => exact absurd rfl hne
    | cons c pr =>
      have hc : c ≠ '_' := by simpa using hpre
      simp [h1, hc]

/-- aliased names are sent exactly to their alias -/
theorem mangle_alias (pre : Name) (aliases : List (Name × Name)) (s a : Name) (h : aliases.lookup s = some a) : mangle pre aliases s = a := by
  simp [mangle, h]

end MangleProto
