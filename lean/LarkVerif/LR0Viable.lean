import LarkVerif.LR0
import LarkVerif.EarleyExpected
/-! # The correct-prefix property of a checked LR(0) automaton (C08/C02, LALR clause "every terminal in `accepts` can legally come next")

For an automaton that passes `LR0.checkLR0` (lark's exported item sets, kernels and transitions do, per generated grammar) every item of a state
reached from the start state along the symbols `γ` is *valid* for `γ`: `γ = δ ++ (the symbols before the dot)` and the item's left-hand side is
wanted after `δ` by a context that can be completed to a sentence.  Consequence (`shift_symbol_viable`): if the state reached along `γ` has an
item with the dot in front of terminal `a` — i.e. the automaton has a transition on `a`, the only way the LALR table gets a shift action — then
for every token string `u` that reduces to `γ` some sentence begins with `u ++ [a]`: a shifted terminal can legally come next.  Needs productive
rules, like the Earley statement (`EarleyProto.Productive`), and for the same reason. -/
namespace LR0
open EarleyProto

/-- `A` is wanted after the stack symbols `δ`: whatever `δ` and `A` derive can be completed to a sentence -/
def Ctx (G : Grammar) (start : Nat) (δ : List Sym) (A : Nat) : Prop :=
  ∀ u v, DerivesSeq G δ u → DerivesSeq G [Sym.nt A] v → ∃ w, DerivesSeq G [Sym.nt start] (u ++ v ++ w)

/-- item `(r, d)` is valid for the viable prefix `γ` -/
def ItemValid (G : Grammar) (start : Nat) (γ : List Sym) (x : It) : Prop :=
  x.1 ∈ G.rules ∧ ∃ δ, γ = δ ++ x.1.rhs.take x.2 ∧ Ctx G start δ x.1.lhs

/-- states reachable from `q0`, with the symbols spelled on the way (the parser's symbol stack) -/
inductive Reach (A : Auto) (q0 : Nat) : List Sym → Nat → Prop
  | nil : Reach A q0 [] q0
  | step (γ p X q) : Reach A q0 γ p → (p, X, q) ∈ A.trans → Reach A q0 (γ ++ [X]) q

theorem Reach.lt {A : Auto} {G : Grammar} (h : checkLR0 G A = true) {q0 : Nat} (h0 : q0 < A.items.length) {γ q} (hr : Reach A q0 γ q) :
    q < A.items.length := by
  cases hr with
  | nil => exact h0
  | step γ p X q _ ht => exact ((checkLR0_sound G A h).2.1 p X q ht).1

/-- prediction keeps validity: from a valid item with the dot before `B`, every rule of `B` at dot 0 is valid for the same prefix -/
theorem ItemValid.pred {G : Grammar} {start : Nat} (hP : Productive G) {γ : List Sym} {r : Rule} {d B : Nat} {r' : Rule}
    (hv : ItemValid G start γ (r, d)) (hs : r.rhs[d]? = some (Sym.nt B)) (hr' : r' ∈ G.rules) (hl : r'.lhs = B) :
    ItemValid G start γ (r', 0) := by
  obtain ⟨hr, δ, hγ, hctx⟩ := hv
  refine ⟨hr', γ, by simp, ?_⟩
  intro u v hu hv'
  simp only at hγ hctx
  rw [hγ] at hu
  obtain ⟨u1, u2, rfl, h1, h2⟩ := hu.split
  obtain ⟨wβ, hβ⟩ := hP.tail hr (d + 1)
  have hrhs : DerivesSeq G r.rhs (u2 ++ (v ++ wβ)) := by
    have e := rhs_split r.rhs d _ hs
    rw [e]
    refine DerivesSeq.append h2 ?_
    have hv'' : DerivesSeq G [Sym.nt B] v := by simpa [hl] using hv'
    have := DerivesSeq.append hv'' hβ
    simpa using this
  obtain ⟨w, hw⟩ := hctx u1 _ h1 (DerivesSeq.single hr hrhs)
  exact ⟨wβ ++ w, by simpa [List.append_assoc] using hw⟩

/-- moving the dot over `X` keeps validity, for the prefix extended by `X` -/
theorem ItemValid.advance {G : Grammar} {start : Nat} {γ : List Sym} {r : Rule} {d : Nat} {X : Sym}
    (hv : ItemValid G start γ (r, d)) (hs : r.rhs[d]? = some X) : ItemValid G start (γ ++ [X]) (r, d + 1) := by
  obtain ⟨hr, δ, hγ, hctx⟩ := hv
  refine ⟨hr, δ, ?_, hctx⟩
  simp only at hγ ⊢
  rw [take_succ_of_getElem? _ _ _ hs, hγ, List.append_assoc]

/-- **Every item of a reachable state of a checked automaton is valid for the symbols that lead there.** -/
theorem item_valid {G : Grammar} {A : Auto} {start q0 : Nat} (h : checkLR0 G A = true) (hP : Productive G) (h0 : q0 < A.items.length)
    (hstart : ∀ x ∈ A.kernelOf q0, x.2 = 0 ∧ x.1.lhs = start ∧ x.1 ∈ G.rules) :
    ∀ {γ q}, Reach A q0 γ q → ∀ x, x ∈ A.itemsOf q → ItemValid G start γ x := by
  have hS := checkLR0_sound G A h
  -- closure step, common to both cases
  have close : ∀ (γ : List Sym) (K : List It), (∀ x ∈ K, ItemValid G start γ x) → ∀ x, Closure G K x → ItemValid G start γ x := by
    intro γ K hK x hx
    induction hx with
    | kernel it hit => exact hK it hit
    | pred r d B r' _ hs hr' hl ih => exact ih.pred hP hs hr' hl
  intro γ q hr
  induction hr with
  | nil =>
    intro x hx
    refine close [] (A.kernelOf q0) ?_ x ((hS.1 q0 h0 x).mp hx)
    intro y hy
    obtain ⟨hd, hl, hmem⟩ := hstart y hy
    refine ⟨hmem, [], by simp [hd], ?_⟩
    intro u v hu hv
    cases hu
    exact ⟨[], by simpa [hl] using hv⟩
  | step γ p X q hreach ht ih =>
    intro x hx
    have hq := (hS.2.1 p X q ht)
    refine close (γ ++ [X]) (A.kernelOf q) ?_ x ((hS.1 q hq.1 x).mp hx)
    intro y hy
    obtain ⟨d, hin, hs, hd⟩ := (hq.2 y).mp hy
    have := (ih (y.1, d) hin).advance hs
    have e : y = (y.1, d + 1) := by cases y; simp_all
    rw [e]; exact this

/-- **A terminal the reached state can shift can legally come next**: for every token string that reduces to the stack symbols `γ`, some
    sentence begins with it followed by that terminal. -/
theorem shift_symbol_viable {G : Grammar} {A : Auto} {start q0 : Nat} (h : checkLR0 G A = true) (hP : Productive G) (h0 : q0 < A.items.length)
    (hstart : ∀ x ∈ A.kernelOf q0, x.2 = 0 ∧ x.1.lhs = start ∧ x.1 ∈ G.rules)
    {γ : List Sym} {q : Nat} (hr : Reach A q0 γ q) {r : Rule} {d a : Nat} (hin : (r, d) ∈ A.itemsOf q) (hs : r.rhs[d]? = some (Sym.t a))
    {u : List Nat} (hu : DerivesSeq G γ u) : ∃ w, DerivesSeq G [Sym.nt start] (u ++ a :: w) := by
  obtain ⟨hmem, δ, hγ, hctx⟩ := item_valid h hP h0 hstart hr (r, d) hin
  simp only at hγ hctx
  rw [hγ] at hu
  obtain ⟨u1, u2, rfl, h1, h2⟩ := hu.split
  obtain ⟨wβ, hβ⟩ := hP.tail hmem (d + 1)
  have hrhs : DerivesSeq G r.rhs (u2 ++ a :: wβ) := by
    have e := rhs_split r.rhs d _ hs
    rw [e]
    exact DerivesSeq.append h2 (DerivesSeq.term a _ _ hβ)
  obtain ⟨w, hw⟩ := hctx u1 _ h1 (DerivesSeq.single hmem hrhs)
  exact ⟨wβ ++ w, by simpa [List.append_assoc] using hw⟩

/-- a transition on a terminal exists only where an item has its dot in front of it (so "the table has a shift on `a`" gives the premise above) -/
theorem trans_has_item {G : Grammar} {A : Auto} (h : checkLR0 G A = true) {p q : Nat} {X : Sym} (ht : (p, X, q) ∈ A.trans)
    (hne : A.kernelOf q ≠ []) : ∃ r d, (r, d) ∈ A.itemsOf p ∧ r.rhs[d]? = some X := by
  have hq := ((checkLR0_sound G A h).2.1 p X q ht).2
  cases hk : A.kernelOf q with
  | nil => exact absurd hk hne
  | cons y ys =>
    obtain ⟨d, hin, hs, _⟩ := (hq y).mp (by rw [hk]; exact List.mem_cons_self ..)
    exact ⟨y.1, d, hin, hs⟩

end LR0
