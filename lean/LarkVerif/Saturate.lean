namespace Sat

variable {α : Type} [DecidableEq α]

theorem filter_length_lt (l : List α) (p q : α → Bool)
    (hqp : ∀ x, q x = true → p x = true) (hx : ∃ x ∈ l, p x = true ∧ q x = false) :
    (l.filter q).length < (l.filter p).length := by
  induction l with
  | nil => obtain ⟨x, hx, _⟩ := hx; cases hx
  | cons a l ih =>
    obtain ⟨x, hxm, hpx, hqx⟩ := hx
    have hle : (l.filter q).length ≤ (l.filter p).length := by
      clear ih hxm
      induction l with
      | nil => simp
      | cons b l ih2 =>
        simp only [List.filter_cons]
        cases hqb : q b with
        | true => simp [hqp b hqb, ih2]
        | false => cases hpb : p b <;> simp <;> omega
    simp only [List.filter_cons]
    cases hqa : q a with
    | true =>
      have hpa := hqp a hqa
      simp only [hpa, if_true, List.length_cons]
      have : x ∈ l := by
        rcases List.mem_cons.mp hxm with h | h
        · subst h; rw [hqa] at hqx; cases hqx
        · exact h
      have := ih ⟨x, this, hpx, hqx⟩
      omega
    | false =>
      cases hpa : p a with
      | true => simp; omega
      | false =>
        have : x ∈ l := by
          rcases List.mem_cons.mp hxm with h | h
          · subst h; rw [hpa] at hpx; cases hpx
          · exact h
        simpa using ih ⟨x, this, hpx, hqx⟩

/-- duplicate removal that keeps membership (without it `s` would accumulate copies and a cyclic,
    nullable grammar makes their number grow geometrically — found by the driver prototype) -/
def dedup : List α → List α
  | [] => []
  | x :: xs => if x ∈ dedup xs then dedup xs else x :: dedup xs

theorem mem_dedup (l : List α) (x : α) : x ∈ dedup l ↔ x ∈ l := by
  induction l with
  | nil => simp [dedup]
  | cons a l ih =>
    simp only [dedup]
    split
    · rename_i h
      simp only [List.mem_cons, ih]
      constructor
      · exact Or.inr
      · rintro (rfl | h')
        · exact (ih.mp h)
        · exact h'
    · simp only [List.mem_cons, ih]

/-- Generic saturation: add everything `step` produces that lies in the finite universe,
    until nothing new appears. Total by construction. -/
def saturate (univ : List α) (step : List α → List α) (s : List α) : List α :=
  let new := dedup ((step s).filter (fun x => decide (x ∈ univ) && !decide (x ∈ s)))
  if h : new = [] then s else saturate univ step (s ++ new)
termination_by (univ.filter (fun x => !decide (x ∈ s))).length
decreasing_by
  obtain ⟨x, hx⟩ := List.exists_mem_of_ne_nil _ h
  have hx' := List.mem_filter.mp ((mem_dedup _ x).mp hx)
  simp only [Bool.and_eq_true, decide_eq_true_eq, Bool.not_eq_true', decide_eq_false_iff_not] at hx'
  apply filter_length_lt
  · intro y hy
    simp only [Bool.not_eq_true', decide_eq_false_iff_not, List.mem_append, not_or] at hy ⊢
    exact hy.1
  · refine ⟨x, hx'.2.1, ?_, ?_⟩
    · simpa using hx'.2.2
    · simp only [Bool.not_eq_false', decide_eq_true_eq, List.mem_append]
      exact Or.inr hx

theorem saturate_superset (univ : List α) (step : List α → List α) (s : List α) :
    ∀ x ∈ s, x ∈ saturate univ step s := by
  induction s using saturate.induct univ step with
  | case1 s new h => intro x hx; unfold saturate; simp only [new] at h; simp [h, hx]
  | case2 s new h ih =>
    intro x hx; unfold saturate; simp only [new] at h; simp only [h, dite_false]
    exact ih x (List.mem_append_left _ hx)

/-- The result is closed under `step` (within the universe). -/
theorem saturate_closed (univ : List α) (step : List α → List α) (s : List α) :
    ∀ x ∈ step (saturate univ step s), x ∈ univ → x ∈ saturate univ step s := by
  induction s using saturate.induct univ step with
  | case1 s new h =>
    intro x hx hu
    unfold saturate at hx ⊢
    simp only [new] at h
    simp only [h, dite_true] at hx ⊢
    by_cases hns : x ∈ s
    · exact hns
    · exfalso
      have : x ∈ dedup ((step s).filter (fun x => decide (x ∈ univ) && !decide (x ∈ s))) := by
        rw [mem_dedup]; simp [List.mem_filter, hx, hu, hns]
      rw [h] at this; cases this
  | case2 s new h ih =>
    intro x hx hu
    unfold saturate at hx ⊢
    simp only [new] at h
    simp only [h, dite_false] at hx ⊢
    exact ih x hx hu

/-- The result is the least such set: contained in every `P` that contains the seed and is closed. -/
theorem saturate_least (univ : List α) (step : List α → List α) (P : α → Prop)
    (hstep : ∀ t : List α, (∀ y ∈ t, P y) → ∀ x ∈ step t, P x) (s : List α) (hs : ∀ y ∈ s, P y) :
    ∀ x ∈ saturate univ step s, P x := by
  induction s using saturate.induct univ step with
  | case1 s new h =>
    intro x hx; unfold saturate at hx; simp only [new] at h; simp only [h, dite_true] at hx
    exact hs x hx
  | case2 s new h ih =>
    intro x hx; unfold saturate at hx; simp only [new] at h; simp only [h, dite_false] at hx
    refine ih ?_ x hx
    intro y hy
    rcases List.mem_append.mp hy with h1 | h2
    · exact hs y h1
    · exact hstep s hs y (List.mem_filter.mp ((mem_dedup _ y).mp h2)).1

end Sat
