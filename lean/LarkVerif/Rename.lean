import LarkVerif.Earley
namespace EarleyProto

/-- renaming of nonterminals by `f` (terminals keep their names here; `%import … -> NEW` on terminals is the
    same lemma with the roles swapped) -/
def Sym.rename (f : Nat → Nat) : Sym → Sym
  | Sym.t a => Sym.t a
  | Sym.nt A => Sym.nt (f A)

def Rule.rename (f : Nat → Nat) (r : Rule) : Rule := ⟨f r.lhs, r.rhs.map (Sym.rename f)⟩
def Grammar.rename (f : Nat → Nat) (G : Grammar) : Grammar := ⟨G.rules.map (Rule.rename f)⟩

/-- load_grammar.py:1032 `_get_mangle` applied to every definition: derivations carry over -/
theorem DerivesSeq.rename {G : Grammar} (f : Nat → Nat) {α : List Sym} {u : List Nat}
    (h : DerivesSeq G α u) : DerivesSeq (G.rename f) (α.map (Sym.rename f)) u := by
  induction h with
  | nil => exact DerivesSeq.nil
  | term a rest ts _ ih => exact DerivesSeq.term a _ ts ih
  | nonterm r rest ts1 ts2 hr _ _ ih1 ih2 =>
    have hmem : Rule.rename f r ∈ (G.rename f).rules := List.mem_map.mpr ⟨r, hr, rfl⟩
    exact DerivesSeq.nonterm (Rule.rename f r) _ ts1 ts2 hmem ih1 ih2

/-- and back, when the mangling is injective on the names in use -/
theorem DerivesSeq.unrename {G : Grammar} (f : Nat → Nat) (hf : ∀ a b, f a = f b → a = b) :
    ∀ {β : List Sym} {u : List Nat}, DerivesSeq (G.rename f) β u →
      ∀ α, β = α.map (Sym.rename f) → DerivesSeq G α u := by
  intro β u h
  induction h with
  | nil => intro α hα; cases α <;> simp at hα; exact DerivesSeq.nil
  | term a rest ts _ ih =>
    intro α hα
    cases α with
    | nil => simp at hα
    | cons x xs =>
      simp only [List.map_cons, List.cons.injEq] at hα
      obtain ⟨hx, hxs⟩ := hα
      cases x with
      | t b => simp [Sym.rename] at hx; subst hx; exact DerivesSeq.term _ xs ts (ih xs hxs)
      | nt B => simp [Sym.rename] at hx
  | nonterm r' rest ts1 ts2 hr' _ _ ih1 ih2 =>
    intro α hα
    cases α with
    | nil => simp at hα
    | cons x xs =>
      simp only [List.map_cons, List.cons.injEq] at hα
      obtain ⟨hx, hxs⟩ := hα
      obtain ⟨r, hr, rfl⟩ := List.mem_map.mp hr'
      cases x with
      | t b => simp [Sym.rename] at hx
      | nt B =>
        simp only [Sym.rename, Rule.rename, Sym.nt.injEq] at hx
        have hB : r.lhs = B := hf _ _ hx
        subst hB
        exact DerivesSeq.nonterm r xs ts1 ts2 hr (ih1 r.rhs rfl) (ih2 xs hxs)

/-- C17: an imported grammar, mangled injectively, has exactly the language of the original -/
theorem rename_language (G : Grammar) (f : Nat → Nat) (hf : ∀ a b, f a = f b → a = b) (S : Nat) (u : List Nat) :
    DerivesSeq (G.rename f) [Sym.nt (f S)] u ↔ DerivesSeq G [Sym.nt S] u :=
  ⟨fun h => DerivesSeq.unrename f hf h [Sym.nt S] rfl, fun h => by simpa [Sym.rename] using h.rename f⟩

end EarleyProto
