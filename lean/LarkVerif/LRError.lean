import LarkVerif.LR
/-! C13: what `feed_token` leaves behind when it raises.  `ParserState.feed_token` mutates the stacks while it reduces and raises `UnexpectedToken`
    when the state on top has no action for the lookahead: the reductions made until then stay, the token is not consumed.
    `reductionsOn` is that state; `reductionsOn_inv` shows it still satisfies the driver invariant *for the same consumed input*, so resuming from an
    error state (`resume_parse`, `on_error`, feeding further tokens) is as sound as a parse: whatever it accepts is `consumed ++ rest`. -/
namespace LRProto
open EarleyProto

/-- one reduction: pop |rhs| entries, push the goto state and the new value -/
def reduceStep (T : Table) (r : Rule) (cfg : Config) : Option Config :=
  match cfg.states.drop r.rhs.length with
  | [] => none
  | p :: rest =>
    match T.goto p r.lhs with
    | none => none
    | some p' => some ⟨p' :: p :: rest, (Sym.nt r.lhs, yieldOf (cfg.vals.take r.rhs.length)) :: cfg.vals.drop r.rhs.length⟩

/-- the stacks after the run of reductions `feed_token(t)` performs before it shifts, accepts or raises -/
def reductionsOn (T : Table) (t : Nat) (isEnd : Bool) : Nat → Config → Config
  | 0, cfg => cfg
  | f+1, cfg =>
    match cfg.states with
    | [] => cfg
    | q :: _ =>
      match T.action q t with
      | some (Action.reduce r) =>
        match reduceStep T r cfg with
        | none => cfg
        | some cfg' => if isEnd && cfg'.states.head? == some T.final then cfg' else reductionsOn T t isEnd f cfg'
      | _ => cfg

/-- a reduction the table asks for preserves the invariant (same consumed input) -/
theorem reduceStep_inv {G : Grammar} {T : Table} {s0 : Nat} (hT : TableSafe G T s0) (t : Nat) (cfg cfg' : Config) (consumed : List Nat)
    (q : Nat) (ss : List Nat) (r : Rule) (hst : cfg.states = q :: ss) (hact : T.action q t = some (Action.reduce r))
    (hinv : Inv G T cfg consumed) (hstep : reduceStep T r cfg = some cfg') : Inv G T cfg' consumed := by
  obtain ⟨states, vals⟩ := cfg
  simp only at hst
  subst hst
  have hpath : StackPath T (q :: ss) vals := hinv.path
  obtain ⟨hitem, hrule⟩ := hT.reduce_item q t r hact
  have hpre := hpath.items_prefix hT q rfl r r.rhs.length hitem
  simp only [List.take_length] at hpre
  obtain ⟨tail, htail⟩ := hpre
  have hlen : r.rhs.length ≤ vals.length := by
    have := congrArg List.length htail; simp at this; omega
  have hpop : (vals.take r.rhs.length).map (·.1) = r.rhs.reverse := by
    have := congrArg (List.take r.rhs.length) htail
    rw [List.take_left' (by simp)] at this
    rw [← List.map_take] at this; exact this.symm
  have hdrop := hpath.drop r.rhs.length hlen
  unfold reduceStep at hstep
  simp only at hstep
  cases hsts : (q :: ss).drop r.rhs.length with
  | nil => rw [hsts] at hstep; simp at hstep
  | cons p ss' =>
    rw [hsts] at hstep
    simp only at hstep
    cases hgoto : T.goto p r.lhs with
    | none => rw [hgoto] at hstep; simp at hstep
    | some p' =>
      rw [hgoto] at hstep
      simp only [Option.some.injEq] at hstep
      subst hstep
      have hder : DerivesSeq G [Sym.nt r.lhs] (yieldOf (vals.take r.rhs.length)) := by
        have h1 := derives_yieldOf (G := G) (vals.take r.rhs.length) (by
          intro v hv
          exact hinv.derives v (List.mem_of_mem_take hv))
        rw [hpop, List.reverse_reverse] at h1
        have := DerivesSeq.nonterm r [] _ [] hrule h1 DerivesSeq.nil
        simpa using this
      refine ⟨?_, ?_, ?_⟩
      · rw [hsts] at hdrop
        exact StackPath.push p' p ss' (Sym.nt r.lhs) _ _ hdrop hgoto
      · intro v hv
        rcases List.mem_cons.mp hv with rfl | hv
        · exact hder
        · exact hinv.derives v (List.mem_of_mem_drop hv)
      · have hy := hinv.yield
        simp only at hy
        rw [← hy]
        simp only [yieldOf]
        rw [← yieldOf_append, List.take_append_drop]

/-- **The error state is a legitimate parser state for the consumed input.** -/
theorem reductionsOn_inv {G : Grammar} {T : Table} {s0 : Nat} (hT : TableSafe G T s0) (t : Nat) (isEnd : Bool) :
    ∀ fuel cfg consumed, Inv G T cfg consumed → Inv G T (reductionsOn T t isEnd fuel cfg) consumed := by
  intro fuel
  induction fuel with
  | zero => intro cfg consumed h; exact h
  | succ f ih =>
    intro cfg consumed hinv
    unfold reductionsOn
    cases hst : cfg.states with
    | nil => exact hinv
    | cons q ss =>
      simp only
      cases hact : T.action q t with
      | none => exact hinv
      | some a =>
        cases a with
        | shift q' => exact hinv
        | reduce r =>
          simp only
          cases hstep : reduceStep T r cfg with
          | none => exact hinv
          | some cfg' =>
            simp only
            have hinv' := reduceStep_inv hT t cfg cfg' consumed q ss r hst hact hinv hstep
            split
            · exact hinv'
            · exact ih cfg' consumed hinv'

/-- `reduceLoop` (the verdict) and `reductionsOn` (the stacks) describe the same run: on `error` the state on top of the stacks left behind has
    no action for the token; on `shifted` the new configuration is those stacks plus the shift. -/
theorem reduceLoop_vs_reductionsOn (T : Table) (t : Nat) (isEnd : Bool) : ∀ fuel cfg,
    (reduceLoop T t isEnd fuel cfg = Outcome.error →
        ∃ q ss, (reductionsOn T t isEnd fuel cfg).states = q :: ss ∧ T.action q t = none) ∧
    (∀ c', reduceLoop T t isEnd fuel cfg = Outcome.shifted c' →
        ∃ q q' ss, (reductionsOn T t isEnd fuel cfg).states = q :: ss ∧ T.action q t = some (Action.shift q') ∧
          c' = ⟨q' :: (reductionsOn T t isEnd fuel cfg).states, (Sym.t t, [t]) :: (reductionsOn T t isEnd fuel cfg).vals⟩) := by
  intro fuel
  induction fuel with
  | zero => intro cfg; simp [reduceLoop]
  | succ f ih =>
    intro cfg
    unfold reduceLoop reductionsOn
    cases hst : cfg.states with
    | nil => simp
    | cons q ss =>
      simp only
      cases hact : T.action q t with
      | none => simp [hst, hact]
      | some a =>
        cases a with
        | shift q' =>
          simp only
          cases isEnd with
          | true => simp
          | false =>
            simp only [Bool.false_eq_true, if_false, reduceCtorEq, false_imp_iff, true_and, Outcome.shifted.injEq]
            rintro c' rfl
            exact ⟨q, q', ss, hst, hact, by rw [hst]⟩
        | reduce r =>
          simp only [reduceStep]
          cases hsts : cfg.states.drop r.rhs.length with
          | nil => rw [hst] at hsts; simp [hsts]
          | cons p ss' =>
            rw [hst] at hsts
            simp only [hsts]
            cases hgoto : T.goto p r.lhs with
            | none => simp
            | some p' =>
              simp only [List.head?_cons]
              by_cases hfin : (isEnd && p' == T.final) = true
              · have h2 : (isEnd && (some p' == some T.final)) = true := by
                  simp only [Bool.and_eq_true, beq_iff_eq] at hfin ⊢
                  exact ⟨hfin.1, by rw [hfin.2]⟩
                simp [hfin, h2]
              · have h2 : (isEnd && (some p' == some T.final)) = false := by
                  cases isEnd with
                  | false => simp
                  | true =>
                    simp only [Bool.true_and, beq_iff_eq] at hfin
                    simp only [Bool.true_and]
                    apply Bool.eq_false_iff.mpr
                    intro h
                    exact hfin (by simpa using h)
                simp only [hfin, h2, Bool.false_eq_true, if_false]
                exact ih _

/-- **Resuming from an error state is sound.**  If `feed_token(t)` raised on a state that had consumed `consumed`, and the parse is then resumed from
    the stacks it left behind with the tokens `rest`, anything accepted is a derivation of `consumed ++ rest` — the offending token is not part of it. -/
theorem resume_from_error_sound {G : Grammar} {T : Table} {s0 : Nat} (hT : TableSafe G T s0) (eof fuel fuel' : Nat) (t : Nat)
    (cfg : Config) (consumed rest : List Nat) (v : Sym × List Nat) (hinv : Inv G T cfg consumed)
    (hacc : parseFrom T eof fuel' (reductionsOn T t false fuel cfg) rest = Outcome.accept v) :
    v.2 = consumed ++ rest ∧ DerivesSeq G [Sym.nt s0] (consumed ++ rest) :=
  (parseFrom_sound hT eof fuel' rest _ consumed v (reductionsOn_inv hT t false fuel cfg consumed hinv) hacc).2

end LRProto

namespace LRProto
open EarleyProto

/-- does `feed_token` of a token of type `t` succeed (shift or accept) from `cfg`? -/
def feedOK (T : Table) (eof fuel : Nat) (cfg : Config) (t : Nat) : Bool :=
  match reduceLoop T t (t == eof) fuel cfg with
  | Outcome.shifted _ => true
  | Outcome.accept _ => true
  | _ => false

/-- `InteractiveParser.accepts()`: trial feeding, on copies, of the terminals that have an action in the state on top (`choices()`) -/
def acceptsOf (T : Table) (terms : List Nat) (eof fuel : Nat) (cfg : Config) : List Nat :=
  (terms.filter fun t => match cfg.states with
    | [] => false
    | q :: _ => (T.action q t).isSome).filter (feedOK T eof fuel cfg)

/-- a terminal without an action in the state on top cannot be fed -/
theorem feedOK_needs_choice (T : Table) (eof fuel : Nat) (cfg : Config) (t : Nat) (h : feedOK T eof fuel cfg t = true) :
    ∃ q ss, cfg.states = q :: ss ∧ (T.action q t).isSome = true := by
  unfold feedOK at h
  cases fuel with
  | zero => simp [reduceLoop] at h
  | succ f =>
    unfold reduceLoop at h
    cases hst : cfg.states with
    | nil => simp [hst] at h
    | cons q ss =>
      refine ⟨q, ss, rfl, ?_⟩
      cases hact : T.action q t with
      | none => simp [hst, hact] at h
      | some a => rfl

/-- **`accepts()` is exact**: a terminal is in it iff feeding a token of that type succeeds — restricting the trials to `choices()` loses nothing. -/
theorem accepts_exact (T : Table) (terms : List Nat) (eof fuel : Nat) (cfg : Config) (t : Nat) (ht : t ∈ terms) :
    t ∈ acceptsOf T terms eof fuel cfg ↔ feedOK T eof fuel cfg t = true := by
  unfold acceptsOf
  simp only [List.mem_filter]
  constructor
  · intro h; exact h.2
  · intro h
    obtain ⟨q, ss, hst, hq⟩ := feedOK_needs_choice T eof fuel cfg t h
    refine ⟨⟨ht, ?_⟩, h⟩
    simp [hst, hq]

end LRProto
